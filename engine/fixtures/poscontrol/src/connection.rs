// R12.4: duplicating / leaking a received descriptor
pub fn dup(f: &std::fs::File) -> std::io::Result<std::fs::File> {
    f.try_clone()
}
pub fn leak(f: std::fs::File) {
    std::mem::forget(f);
}
