#![allow(dead_code, unused)]
pub mod eventfd {
    pub struct EventFd;
    impl EventFd {
        pub fn read(&self) -> u64 {
            0
        }
    }
}
pub mod connection;
pub mod server;
