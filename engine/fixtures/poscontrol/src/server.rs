use crate::eventfd::EventFd;
use std::os::fd::IntoRawFd;

// R10.5: leak APIs on descriptors
pub fn forget_stream(s: std::os::unix::net::UnixStream) {
    std::mem::forget(s);
}
pub fn release_stream(s: std::os::unix::net::UnixStream) -> i32 {
    s.into_raw_fd()
}
// R18.3: reading the kill switch
pub fn poll(k: &EventFd) -> u64 {
    k.read()
}
// R03.5: recursion
pub fn rec(n: u32) -> u32 {
    if n == 0 {
        0
    } else {
        rec(n - 1)
    }
}
// R03.2: an assert! in non-test code
pub fn checked(x: u32) {
    assert!(x > 1);
}
