"""mhsa: static-analysis rules for micro-http over the mirdump fact base."""
