"""Fact loader, per-function CFG algorithms, term reconstruction.

Everything here is deterministic and works on the JSON written by engine/mirdump.
"""
import json
from collections import defaultdict, deque

from . import pp


class AnalysisError(Exception):
    """Raised when a rule cannot establish what it needs (fail closed)."""


# --------------------------------------------------------------------------------------------
# Facts


# Private sub-structs that group fields of a known struct (`outgoing: OutgoingResponses { queue, in_flight }` in place of
# `response_queue`, `response_buffer`) are flattened: (sub-struct, field) -> (parent, the frozen field it stands for).
# EMBEDS: (parent, field) -> sub-struct.  Set when a fact file is loaded.
ALIASES = {}
EMBEDS = {}
STRUCT_FIELDS = {}      # struct path -> field names in declaration order (for projecting a field out of a struct literal)
ENUM_VARIANTS = {}      # enum path -> variant names (to recognise a variant constructor passed as a function item)
_KNOWN_STRUCTS = None


def known_structs():
    global _KNOWN_STRUCTS
    if _KNOWN_STRUCTS is None:
        import os
        with open(os.path.join(os.path.dirname(__file__), "known_structs.json")) as fh:
            _KNOWN_STRUCTS = json.load(fh)
    return _KNOWN_STRUCTS


def compute_embeds(adts):
    """A field g of a known struct P that did not exist when the rules were written and whose type is a struct S
    that did not exist either groups fields of P, if every field of S can be matched -- by type when that is
    unambiguous, else by name -- with a frozen field of P that P no longer has."""
    ks = known_structs()
    aliases, embeds = {}, {}
    for P, frozen in ks.items():
        a = adts.get(P)
        if not a or a.get("kind") != "struct" or not a["variants"]:
            continue
        cur = a["variants"][0]["fields"]
        cur_names = {x["name"] for x in cur}
        missing = [(n, t) for n, t in frozen if n not in cur_names]
        if not missing:
            continue
        for fld in cur:
            if fld["name"] in {n for n, _ in frozen}:
                continue
            S = fld["ty"].get("path") if fld["ty"].get("k") == "adt" else None
            sa = adts.get(S) if S else None
            if not sa or S in ks or sa.get("kind") != "struct" or not sa["variants"]:
                continue
            m = {}
            ok = True
            for sf in sa["variants"][0]["fields"]:
                cands = [n for n, t in missing if t == sf["ty"]["s"] and n not in m.values()]
                if len(cands) > 1:
                    cands = [n for n in cands if n == sf["name"]] or cands
                if len(cands) != 1:
                    ok = False
                    break
                m[sf["name"]] = cands[0]
            if ok and m:
                embeds[(P, fld["name"])] = S
                for f_, role in m.items():
                    aliases[(S, f_)] = (P, role)
    return aliases, embeds


class Facts:
    def __init__(self, path):
        global ALIASES, EMBEDS
        with open(path) as fh:
            self.raw = json.load(fh)
        self.path = path
        self.crate = self.raw["crate"]
        self.profile = self.raw["profile"]
        self.adts = self.raw["adts"]
        self.consts = self.raw["consts"]
        self.files = self.raw["files"]
        al, em = compute_embeds(self.adts)
        ALIASES.clear(); ALIASES.update(al)
        EMBEDS.clear(); EMBEDS.update(em)
        self.aliases, self.embeds = dict(al), dict(em)
        STRUCT_FIELDS.clear()
        ENUM_VARIANTS.clear()
        for name_, a_ in self.adts.items():
            if a_.get("kind") == "struct" and a_.get("variants"):
                STRUCT_FIELDS[name_] = [x["name"] for x in a_["variants"][0]["fields"]]
            elif a_.get("kind") == "enum":
                ENUM_VARIANTS[name_] = [v_["name"] for v_ in a_.get("variants", [])]
        self.fns = {name: Fn(self, name, d) for name, d in self.raw["fns"].items()}

    def fn(self, name):
        f = self.fns.get(name)
        if f is None:
            raise AnalysisError("anchor function %s not found in the crate" % name)
        return f

    def has_fn(self, name):
        return name in self.fns

    def const_int(self, name):
        c = self.consts.get(name)
        if c is None or c["value"].get("k") != "int":
            raise AnalysisError("constant %s not found / not an integer" % name)
        return c["value"]["v"]

    def const_bytes(self, name):
        c = self.consts.get(name)
        if c is None or "hex" not in c["value"]:
            raise AnalysisError("constant %s not found / has no bytes" % name)
        return bytes.fromhex(c["value"]["hex"])

    def adt(self, name):
        a = self.adts.get(name)
        if a is None:
            raise AnalysisError("type %s not found in the crate" % name)
        return a

    def variant_names(self, adt):
        return [v["name"] for v in self.adt(adt)["variants"]]

    def variant_discr(self, adt):
        return {v["discr"]: v["name"] for v in self.adt(adt)["variants"]}

    def struct_fields(self, adt):
        return self.adt(adt)["variants"][0]["fields"]

    def closures_of(self, parent):
        return [f for f in self.fns.values() if f.d.get("parent") == parent and f.d["kind"] == "closure"]

    def counts(self):
        nb = len(self.fns)
        calls = asserts = 0
        for f in self.fns.values():
            for b in f.blocks:
                k = b["term"]["k"]
                if k == "call":
                    calls += 1
                elif k == "assert":
                    asserts += 1
        return {"bodies": nb, "calls": calls, "asserts": asserts, "adts": len(self.adts), "consts": len(self.consts)}


# --------------------------------------------------------------------------------------------
# Place / operand helpers


def is_place_op(o):
    return o["k"] in ("copy", "move")


def place_local(p):
    return p["local"]


def place_fields(p):
    """List of (adt, fieldname) for the field projections of a place, in order (grouping sub-structs flattened)."""
    out = []
    for e in p["proj"]:
        if e["k"] != "field":
            continue
        k = (e.get("of"), e["name"])
        if k in ALIASES:
            if out and out[-1] in EMBEDS and EMBEDS[out[-1]] == k[0]:
                out.pop()
            out.append(ALIASES[k])
        else:
            out.append(k)
    return out


def place_has_field(p, adt, name):
    return (adt, name) in place_fields(p)


def place_last_field(p):
    fs = place_fields(p)
    return fs[-1] if fs else None


def canon_key(key):
    """Event keys name fields by their frozen names: `(*_1).outgoing.queue` -> `(*_1).response_queue`."""
    if EMBEDS:
        for (P, g), S in EMBEDS.items():
            for (S2, f), (P2, role) in ALIASES.items():
                if S2 == S:
                    key = key.replace(".%s.%s" % (g, f), ".%s" % role)
    return key


def place_is_bare(p):
    return not p["proj"]


def place_key(p):
    return pp.place_s(p)


def const_val(o):
    """Python value of a constant operand, or None."""
    if o["k"] != "const":
        return None
    v = o.get("val")
    if v is None:
        return None
    k = v.get("k")
    if k in ("int", "char"):
        x = v["v"]
        return int(x) if isinstance(x, str) else x
    if k == "bool":
        return bool(v["v"])
    if k == "str":
        return v["v"]
    if k == "bytes":
        return bytes.fromhex(v["hex"])
    if k == "inttuple":
        # a promoted tuple of unsigned integers: the right-hand side of `(a, b) == (0, N)`
        return ("inttuple", tuple(int(x) for x in v["v"]))
    if k == "optint":
        # a promoted Option<uN>: the right-hand side of `x.checked_sub(y) == Some(N)`
        return ("optint", int(v["v"]) if "v" in v else None)
    if k == "optref":
        # a promoted Option<&int>: Some(&v) / None
        return ("Some&", int(v["v"])) if "v" in v else ("None&",)
    return None


def callee_path(t):
    """The declared callee def-path of a call terminator (trait path for trait methods)."""
    c = t["callee"]
    return c.get("path")


def callee_resolved(t):
    c = t["callee"]
    r = c.get("resolved")
    if r:
        return r["path"]
    return c.get("path")


def callee_is_local(t):
    c = t["callee"]
    r = c.get("resolved")
    if r:
        return r["local"]
    return bool(c.get("local")) and not c.get("trait")


# --------------------------------------------------------------------------------------------
# Functions


class Fn:
    def __init__(self, facts, name, d):
        self.facts = facts
        self.name = name
        self.d = d
        self.blocks = d["blocks"]
        self.locals = d["locals"]
        self.nargs = d["arg_count"]
        self.n = len(self.blocks)
        self._succ = None
        self._pred = None
        self._dom = None
        self._pdom = None
        self._defs = None
        self._mutborrowed = None
        self._reach = None

    # ----- basic structure
    def span_of(self, bb, si=None):
        b = self.blocks[bb]
        sp = b["term"]["span"] if si is None or si >= len(b["stmts"]) else b["stmts"][si]["span"]
        return "%s:%d" % (sp["file"], sp["lo"])

    def loc(self, bb, si=None):
        f = getattr(bb, "fn", None)
        if f is not None and f is not self:
            return f.loc(int(bb), si)
        return "%s bb%d%s (%s)" % (self.name, bb, "" if si is None else "[%d]" % si, self.span_of(bb, si))

    def term(self, bb):
        return self.blocks[bb]["term"]

    def succs(self, bb, unwind=False):
        t = self.blocks[bb]["term"]
        k = t["k"]
        out = []
        if k == "goto":
            out = [t["target"]]
        elif k == "switch":
            out = [b for _, b in t["targets"]] + [t["otherwise"]]
        elif k in ("call", "drop", "assert"):
            if t.get("target") is not None:
                out = [t["target"]]
            if unwind and t.get("unwind") is not None:
                out.append(t["unwind"])
        # return / unreachable / resume / terminate: none
        seen = []
        for b in out:
            if b not in seen:
                seen.append(b)
        return seen

    @property
    def succ(self):
        if self._succ is None:
            self._succ = [self.succs(b) for b in range(self.n)]
        return self._succ

    @property
    def pred(self):
        if self._pred is None:
            p = [[] for _ in range(self.n)]
            for b in range(self.n):
                for s in self.succ[b]:
                    p[s].append(b)
            self._pred = p
        return self._pred

    def is_cleanup(self, bb):
        return self.blocks[bb]["cleanup"]

    @property
    def reachable(self):
        """Blocks reachable from bb0 along normal (non-unwind) edges."""
        if self._reach is None:
            seen = {0}
            dq = deque([0])
            while dq:
                b = dq.popleft()
                for s in self.succ[b]:
                    if s not in seen:
                        seen.add(s)
                        dq.append(s)
            self._reach = seen
        return self._reach

    def return_blocks(self):
        return [b for b in sorted(self.reachable) if self.blocks[b]["term"]["k"] == "return"]

    def rpo(self):
        seen = set()
        order = []

        def dfs(b):
            stack = [(b, iter(self.succ[b]))]
            seen.add(b)
            while stack:
                node, it = stack[-1]
                adv = False
                for s in it:
                    if s not in seen:
                        seen.add(s)
                        stack.append((s, iter(self.succ[s])))
                        adv = True
                        break
                if not adv:
                    order.append(node)
                    stack.pop()

        dfs(0)
        order.reverse()
        return order

    # ----- dominators (iterative, Cooper-Harvey-Kennedy)
    @property
    def idom(self):
        if self._dom is None:
            self._dom = _idoms(self.n, 0, self.succ, self.pred, self.rpo())
        return self._dom

    def dominates(self, a, b):
        """True if block a dominates block b (reflexive)."""
        idom = self.idom
        if b not in idom and b != 0:
            return False
        x = b
        while True:
            if x == a:
                return True
            if x == 0:
                return False
            x = idom.get(x)
            if x is None:
                return False

    @property
    def ipdom(self):
        """Immediate post-dominators w.r.t. a virtual exit joined from every terminal block
        reachable on normal edges (return, unreachable, diverging call)."""
        if self._pdom is None:
            n = self.n
            exit_ = n
            succ = [list(s) for s in self.succ] + [[]]
            for b in self.reachable:
                if not succ[b]:
                    succ[b] = [exit_]
            nodes = set(self.reachable) | {exit_}
            rsucc = [[] for _ in range(n + 1)]
            for b in nodes:
                for s in succ[b]:
                    rsucc[s].append(b)
            rpred = succ
            # rpo on reverse graph
            seen = set()
            order = []
            stack = [(exit_, iter(rsucc[exit_]))]
            seen.add(exit_)
            while stack:
                node, it = stack[-1]
                adv = False
                for s in it:
                    if s not in seen:
                        seen.add(s)
                        stack.append((s, iter(rsucc[s])))
                        adv = True
                        break
                if not adv:
                    order.append(node)
                    stack.pop()
            order.reverse()
            self._pdom = _idoms(n + 1, exit_, rsucc, rpred, order)
        return self._pdom

    def postdominates(self, a, b):
        ip = self.ipdom
        x = b
        exit_ = self.n
        while True:
            if x == a:
                return True
            if x == exit_:
                return False
            x = ip.get(x)
            if x is None:
                return False

    def control_deps(self, bb):
        """Set of (branch_block, successor) edges that bb is directly control dependent on."""
        out = set()
        for a in self.reachable:
            ss = self.succ[a]
            if len(ss) < 2:
                continue
            for s in ss:
                # bb is control dependent on edge a->s if bb postdominates s (or is s) and
                # bb does not strictly postdominate a
                if self.postdominates(bb, s) and not (bb != a and self.postdominates(bb, a)):
                    out.add((a, s))
        return out

    def control_deps_transitive(self, bb):
        seen = set()
        work = [bb]
        visited_blocks = {bb}
        while work:
            x = work.pop()
            for (a, s) in self.control_deps(x):
                if (a, s) not in seen:
                    seen.add((a, s))
                    if a not in visited_blocks:
                        visited_blocks.add(a)
                        work.append(a)
        return seen

    # ----- cycles
    def sccs(self):
        """Strongly connected components (normal edges, reachable part), Tarjan iterative."""
        index = {}
        low = {}
        onstack = set()
        stack = []
        out = []
        counter = [0]
        for root in sorted(self.reachable):
            if root in index:
                continue
            work = [(root, 0)]
            while work:
                v, i = work.pop()
                if i == 0:
                    index[v] = low[v] = counter[0]
                    counter[0] += 1
                    stack.append(v)
                    onstack.add(v)
                recurse = False
                ss = self.succ[v]
                while i < len(ss):
                    w = ss[i]
                    i += 1
                    if w not in index:
                        work.append((v, i))
                        work.append((w, 0))
                        recurse = True
                        break
                    elif w in onstack:
                        low[v] = min(low[v], index[w])
                if recurse:
                    continue
                if low[v] == index[v]:
                    comp = []
                    while True:
                        w = stack.pop()
                        onstack.discard(w)
                        comp.append(w)
                        if w == v:
                            break
                    out.append(comp)
                if work:
                    u = work[-1][0]
                    low[u] = min(low[u], low[v])
        return out

    def cyclic_blocks(self):
        out = set()
        for comp in self.sccs():
            if len(comp) > 1 or comp[0] in self.succ[comp[0]]:
                out.update(comp)
        return out

    def cycles(self):
        return [sorted(c) for c in self.sccs() if len(c) > 1 or c[0] in self.succ[c[0]]]

    # ----- iteration helpers
    def stmts(self, cleanup=False):
        for bi, b in enumerate(self.blocks):
            if b["cleanup"] and not cleanup:
                continue
            if bi not in self.reachable and not cleanup:
                continue
            for si, s in enumerate(b["stmts"]):
                yield bi, si, s

    def assigns(self):
        for bi, si, s in self.stmts():
            if s["k"] == "assign":
                yield bi, si, s["place"], s["rv"]

    def calls(self, cleanup=False):
        for bi, b in enumerate(self.blocks):
            if b["cleanup"] and not cleanup:
                continue
            if bi not in self.reachable and not cleanup:
                continue
            t = b["term"]
            if t["k"] == "call":
                yield bi, t

    def calls_to(self, *needles, resolved=True):
        for bi, t in self.calls():
            p = callee_path(t) or ""
            r = callee_resolved(t) or ""
            for n in needles:
                if p == n or r == n or p.endswith("::" + n) or (resolved and r.endswith("::" + n)):
                    yield bi, t
                    break

    # ----- definitions of locals
    @property
    def defs(self):
        """local -> list of ('stmt', bb, si, rv) / ('call', bb, term) for whole-local assignments
        in non-cleanup blocks; partial (projected) assignments are listed under self.partial_defs."""
        if self._defs is None:
            d = defaultdict(list)
            pd = defaultdict(list)
            for bi, si, place, rv in self.assigns():
                if place_is_bare(place):
                    d[place["local"]].append(("stmt", bi, si, rv))
                elif not any(e["k"] == "deref" for e in place["proj"]):
                    pd[place["local"]].append(("stmt", bi, si, place, rv))
            for bi, t in self.calls():
                dest = t["dest"]
                if place_is_bare(dest):
                    d[dest["local"]].append(("call", bi, t))
                elif not any(e["k"] == "deref" for e in dest["proj"]):
                    pd[dest["local"]].append(("call", bi, dest, t))
            self._defs = d
            self.partial_defs = pd
        return self._defs

    @property
    def mut_borrowed(self):
        """Locals whose own storage is mutably borrowed (so their value can change behind a
        single syntactic definition)."""
        if self._mutborrowed is None:
            s = set()
            for bi, si, place, rv in self.assigns():
                if rv["k"] in ("ref", "rawptr") and rv["mut"]:
                    p = rv["place"]
                    if not any(e["k"] == "deref" for e in p["proj"]):
                        s.add(p["local"])
            self._mutborrowed = s
        return self._mutborrowed

    def local_ty(self, l):
        return self.locals[l]["ty"]

    def local_name(self, l):
        return self.locals[l]["name"]

    def pretty(self):
        return pp.fn_s(self.name, self.d)


def _idoms(n, root, succ, pred, rpo):
    pos = {b: i for i, b in enumerate(rpo)}
    idom = {root: root}
    changed = True
    while changed:
        changed = False
        for b in rpo:
            if b == root:
                continue
            new = None
            for p in pred[b]:
                if p in idom and p in pos:
                    if new is None:
                        new = p
                    else:
                        x, y = p, new
                        while x != y:
                            while pos[x] > pos[y]:
                                x = idom[x]
                            while pos[y] > pos[x]:
                                y = idom[y]
                        new = x
            if new is not None and idom.get(b) != new:
                idom[b] = new
                changed = True
    res = {b: d for b, d in idom.items() if b != root}
    return res


# --------------------------------------------------------------------------------------------
# Terms: backwards def-use reconstruction of where a value comes from


MAX_DEPTH = 24


class Terms:
    """Origin terms for operands of one function.

    Terms are nested tuples:
      ('const', value) ('fnconst', path) ('arg', n) ('var', local)  -- roots
      ('field', t, adt, name) ('deref', t) ('ref', t, mut) ('downcast', t, variant)
      ('index', t, t_idx) ('constidx', t, offset, from_end) ('subslice', t, from, to, from_end)
      ('call', path, (args...), bb)   -- result of the call terminator in block bb
      ('bin', op, a, b) ('un', op, a) ('cast', a, ty) ('discr', t)
      ('agg', adt, variant, (ops...)) ('tuple', (ops...)) ('closure', path, (ops...)) ('array', (ops...))
      ('phi', (t1, t2, ...))  ('unknown', why)
    """

    def __init__(self, fn):
        self.fn = fn
        self._memo = {}

    def local(self, l, depth=0, stack=()):
        fn = self.fn
        if l in self._memo:
            return self._memo[l]
        if l in stack or depth > MAX_DEPTH:
            return ("var", l)
        if l in fn.mut_borrowed:
            t = ("var", l)
            self._memo[l] = t
            return t
        defs = fn.defs.get(l, [])
        if 1 <= l <= fn.nargs:
            if not defs:
                t = ("arg", l)
                self._memo[l] = t
                return t
            return ("var", l)
        if not defs:
            return ("var", l)
        ts = []
        for d in defs:
            if d[0] == "stmt":
                ts.append(self.rvalue(d[3], depth + 1, stack + (l,)))
            else:
                ts.append(self.call_term(d[1], d[2], depth + 1, stack + (l,)))
        uniq = []
        for t in ts:
            if t not in uniq:
                uniq.append(t)
        t = uniq[0] if len(uniq) == 1 else ("phi", tuple(uniq))
        if not stack:
            self._memo[l] = t
        return t

    def call_term(self, bb, t, depth=0, stack=()):
        args = tuple(self.operand(a, depth + 1, stack) for a in t["args"])
        c = t["callee"]
        if c.get("how") == "fnptr":
            return ("call", "<fnptr>", args, bb)
        return ("call", callee_resolved(t) if callee_is_local(t) else callee_path(t), args, bb)

    def place(self, p, depth=0, stack=()):
        t = self.local(p["local"], depth, stack)
        for e in p["proj"]:
            k = e["k"]
            if k == "deref":
                t = simplify(("deref", t))
            elif k == "field":
                t = simplify(("field", t, e.get("of"), e["name"]))
            elif k == "downcast":
                t = ("downcast", t, e["variant"])
            elif k == "index":
                t = ("index", t, self.local(e["local"], depth + 1, stack))
            elif k == "constidx":
                t = ("constidx", t, e["offset"], e["from_end"])
            elif k == "subslice":
                t = ("subslice", t, e["from"], e["to"], e["from_end"])
            else:
                t = ("unknown", k)
        return t

    def operand(self, o, depth=0, stack=()):
        k = o["k"]
        if k in ("copy", "move"):
            return self.place(o["place"], depth, stack)
        if k == "const":
            v = o.get("val") or {}
            if v.get("k") == "fn":
                return ("fnconst", v["path"])
            cv = const_val(o)
            if cv is not None:
                return ("const", cv)
            if v.get("k") == "zst":
                return ("const", ())
            if v.get("k") == "static":
                return ("static", v["path"])
            if v.get("k") == "enum":
                return ("agg", v["adt"], v["variant"], ())
            return ("unknown", "const:" + str(v.get("k")))
        return ("unknown", k)

    def rvalue(self, rv, depth=0, stack=()):
        k = rv["k"]
        if k == "use":
            return self.operand(rv["op"], depth, stack)
        if k in ("ref", "rawptr"):
            return simplify(("ref", self.place(rv["place"], depth, stack), rv["mut"]))
        if k == "binop":
            return ("bin", rv["op"], self.operand(rv["l"], depth, stack), self.operand(rv["r"], depth, stack))
        if k == "unop":
            return ("un", rv["op"], self.operand(rv["arg"], depth, stack))
        if k == "cast":
            return ("cast", self.operand(rv["op"], depth, stack), rv["ty"]["s"], rv["kind"])
        if k == "discr":
            return ("discr", self.place(rv["place"], depth, stack))
        if k == "aggregate":
            ops = tuple(self.operand(o, depth, stack) for o in rv["ops"])
            a = rv["agg"]
            if a == "adt":
                return ("agg", rv["adt"], rv["variant"], ops)
            if a == "closure":
                return ("closure", rv["path"], ops)
            if a == "tuple":
                return ("tuple", ops)
            return ("array", ops)
        if k == "repeat":
            return ("repeat", self.operand(rv["op"], depth, stack), rv["n"])
        return ("unknown", k)


TRY_BRANCH = "std::ops::Try::branch"
FROM_RESIDUAL = "std::ops::FromResidual::from_residual"


def simplify(t):
    """Local algebraic simplifications: *&x = x, field of aggregate, `?` plumbing."""
    k = t[0]
    if k == "deref":
        inner = t[1]
        if inner[0] == "ref":
            return inner[1]
        return t
    if k == "ref":
        if t[1][0] == "deref":
            return t[1][1]  # reborrow: same pointer
        return t
    if k == "field":
        base = t[1]
        # (Try::branch(x) as Continue).0  ==> ok/some payload of x
        if base[0] == "downcast" and base[1][0] == "call" and base[1][1] == TRY_BRANCH:
            x = base[1][2][0]
            if base[2] == "Continue":
                # `res.map(Enum::Variant)?`: the payload is that variant around the payload of res
                if x[0] == "call" and x[1] in ("std::result::Result::<T, E>::map", "std::option::Option::<T>::map") and len(x[2]) == 2 and x[2][1][0] == "fnconst" and "::" in x[2][1][1]:
                    adt_, _, var_ = x[2][1][1].rpartition("::")
                    if var_ in ENUM_VARIANTS.get(adt_, ()):
                        return ("agg", adt_, var_, (simplify(("field", ("downcast", ("call", TRY_BRANCH, (x[2][0],), base[1][3] if len(base[1]) > 3 else None), "Continue"), None, "0")),))
                return ("payload", x)
            if base[2] == "Break":
                return ("residual", x)
        if base[0] == "tuple":
            try:
                return base[1][int(t[3])]
            except (ValueError, IndexError):
                return t
        if base[0] == "agg" and base[1] == t[2] and t[2] in STRUCT_FIELDS and t[3] in STRUCT_FIELDS[t[2]] and len(base[3]) == len(STRUCT_FIELDS[t[2]]):
            return base[3][STRUCT_FIELDS[t[2]].index(t[3])]       # a field of a struct literal
        if ALIASES and (t[2], t[3]) in ALIASES:
            P, role = ALIASES[(t[2], t[3])]
            if base[0] == "field" and EMBEDS.get((base[2], base[3])) == t[2]:
                return ("field", base[1], P, role)
        return t
    return t


def strip(t):
    """Look through value-preserving wrappers (refs, derefs, copies)."""
    while t[0] in ("ref", "deref"):
        t = t[1]
    return t


def term_s(t, depth=0):
    if not isinstance(t, tuple):
        return repr(t)
    if depth > 8:
        return "…"
    k = t[0]
    d = depth + 1
    if k == "const":
        return "const %r" % (t[1],)
    if k == "fnconst":
        return "fn %s" % t[1]
    if k == "arg":
        return "arg%d" % t[1]
    if k == "var":
        return "var_%d" % t[1]
    if k == "field":
        return "%s.%s" % (term_s(t[1], d), t[3])
    if k == "deref":
        return "*%s" % term_s(t[1], d)
    if k == "ref":
        return "&%s%s" % ("mut " if t[2] else "", term_s(t[1], d))
    if k == "downcast":
        return "(%s as %s)" % (term_s(t[1], d), t[2])
    if k == "call":
        return "%s(%s)%s" % (t[1], ", ".join(term_s(a, d) for a in t[2]), "@bb%s" % t[3] if len(t) > 3 else "")
    if k == "bin":
        return "%s(%s, %s)" % (t[1], term_s(t[2], d), term_s(t[3], d))
    if k == "un":
        return "%s(%s)" % (t[1], term_s(t[2], d))
    if k == "cast":
        return "(%s as %s)" % (term_s(t[1], d), t[2])
    if k == "payload":
        return "payload(%s)" % term_s(t[1], d)
    if k == "residual":
        return "residual(%s)" % term_s(t[1], d)
    if k == "discr":
        return "discr(%s)" % term_s(t[1], d)
    if k == "agg":
        return "%s::%s(%s)" % (t[1], t[2], ", ".join(term_s(a, d) for a in t[3]))
    if k in ("tuple", "array"):
        return "%s(%s)" % (k, ", ".join(term_s(a, d) for a in t[1]))
    if k == "closure":
        return "closure %s[%s]" % (t[1], ", ".join(term_s(a, d) for a in t[2]))
    if k == "phi":
        return "phi(%s)" % " | ".join(term_s(a, d) for a in t[1])
    if k == "index":
        return "%s[%s]" % (term_s(t[1], d), term_s(t[2], d))
    if k == "mut":
        return "mutated-by<%s>(%s)" % (t[2], term_s(t[1], d))
    if k == "constidx":
        return "%s[%s%d]" % (term_s(t[1], d), "-" if t[3] else "", t[2])
    return str(t)


def subterms(t):
    """All sub-terms (pre-order), including t."""
    yield t
    if isinstance(t, tuple):
        for x in t[1:]:
            if isinstance(x, tuple):
                if x and isinstance(x[0], str):
                    yield from subterms(x)
                else:
                    for y in x:
                        if isinstance(y, tuple):
                            yield from subterms(y)


def term_calls(t):
    return [s for s in subterms(t) if isinstance(s, tuple) and s and s[0] == "call"]
