"""Decode core::fmt::Arguments templates of this toolchain (see rust-src core/fmt/mod.rs)."""
from .core import AnalysisError
from .rules.util import is_call, look


def decode_template(b):
    """-> list of ('lit', str) | ('arg', index_or_None, plain: bool)"""
    out = []
    i = 0
    n = len(b)
    while True:
        if i >= n:
            raise AnalysisError("fmt template not terminated")
        c = b[i]
        i += 1
        if c == 0:
            if i != n:
                raise AnalysisError("fmt template has trailing bytes")
            return out
        if c < 0x80:
            out.append(("lit", b[i:i + c].decode("utf-8", "replace")))
            i += c
        elif c == 0x80:
            ln = b[i] | (b[i + 1] << 8)
            i += 2
            out.append(("lit", b[i:i + ln].decode("utf-8", "replace")))
            i += ln
        elif c >= 0xC0:
            plain = c == 0xC0
            idx = None
            if c & 1:
                i += 4
            if c & 2:
                i += 2
            if c & 4:
                i += 2
            if c & 8:
                idx = b[i] | (b[i + 1] << 8)
                i += 2
                plain = (c & ~8) == 0xC0
            out.append(("arg", idx, plain))
        else:
            raise AnalysisError("fmt template: unknown byte 0x%02x" % c)


def format_pieces(t):
    """t: term of `fmt::Arguments::new(template, &args)` (or of format()/must_use wrapping it).
    -> list of ('lit', s) | ('arg', term, how)   with literals merged."""
    t = look(t)
    while is_call(t, "must_use", "format") and len(t[2]) == 1:
        t = look(t[2][0])
    if not (t[0] == "call" and t[1].startswith("std::fmt::Arguments") and last(t[1]) in ("new", "new_const", "from_str")):
        raise AnalysisError("not a format_args! value: %s" % (t[:2],))
    if last(t[1]) in ("new_const", "from_str"):
        c = look(t[2][0])
        if c[0] == "const":
            v = c[1]
            return [("lit", v if isinstance(v, str) else v.decode("utf-8", "replace"))]
        raise AnalysisError("constant format string not found")
    tmpl = look(t[2][0])
    if tmpl[0] != "const" or not isinstance(tmpl[1], bytes):
        raise AnalysisError("fmt template is not a constant")
    parts = decode_template(tmpl[1])
    args = look(t[2][1])
    if args[0] != "array":
        raise AnalysisError("fmt args are not a literal array")
    argterms = []
    for a in args[1]:
        a = look(a)
        if a[0] == "call" and "fmt::rt::Argument" in a[1]:
            argterms.append((look(a[2][0]), last(a[1])))
        else:
            argterms.append((a, "?"))
    out = []
    nxt = 0
    for p in parts:
        if p[0] == "lit":
            if out and out[-1][0] == "lit":
                out[-1] = ("lit", out[-1][1] + p[1])
            else:
                out.append(p)
        else:
            idx = p[1] if p[1] is not None else nxt
            nxt = idx + 1
            if idx >= len(argterms):
                raise AnalysisError("fmt template refers to a missing argument")
            if not p[2]:
                raise AnalysisError("fmt placeholder with options (fail closed)")
            out.append(("arg", argterms[idx][0], argterms[idx][1]))
    return out


def last(p):
    return p.rsplit("::", 1)[-1]
