"""Inlined control-flow graph of one entry point.

Crate-local callees are cloned per call site (the crate has no recursion; a recursive call is
left opaque and recorded).  Closures handed to std combinators are attached at the call that
receives them (0..1 or 0..n invocations).  Unwind edges are not followed.

Nodes are (ctx, bb) where ctx is a tuple of frames; a frame is (fn_name, call_bb, kind) and the
function a node belongs to is the callee of the last frame (or the entry).  Path queries run
over *points* (node, idx): idx < len(stmts) is a statement, idx == len(stmts) the terminator.
"""
from collections import deque

from .core import Terms, callee_is_local, callee_path, callee_resolved, simplify, AnalysisError

# std combinators that invoke a closure argument at most once
ONCE = (
    "std::result::Result::<T, E>::map_err",
    "std::result::Result::<T, E>::and_then",
    "std::result::Result::<T, E>::map",
    "std::result::Result::<T, E>::or_else",
    "std::option::Option::<T>::map_or",
    "std::option::Option::<T>::map",
    "std::option::Option::<T>::and_then",
    "std::option::Option::<T>::ok_or_else",
    "std::option::Option::<T>::unwrap_or_else",
    "std::result::Result::<T, E>::unwrap_or_else",
)


class Node:
    __slots__ = ("ctx", "fn", "bb", "id")

    def __init__(self, ctx, fn, bb):
        self.ctx = ctx
        self.fn = fn
        self.bb = bb
        self.id = (ctx, bb)

    def __repr__(self):
        return "%s:bb%d@%d" % (self.fn.name, self.bb, len(self.ctx))


class IGraph:
    def __init__(self, facts, entry, inline=None, max_nodes=200000):
        self.facts = facts
        self.entry_fn = facts.fn(entry) if isinstance(entry, str) else entry
        self.inline = inline or (lambda fn, t: True)
        self.nodes = {}
        self.succ = {}
        self.pred = {}
        self.opaque_recursive = []
        self.frames = {}  # ctx -> (caller_ctx, caller_fn, call_bb, kind, callee_fn)
        self.ctx_fn = {(): self.entry_fn}
        self._terms = {}
        self._build(max_nodes)

    # ----- construction
    def _closure_args(self, fn, t):
        """Closures (or local fn items) passed as arguments of call terminator t: list of Fn."""
        out = []
        for a in t["args"]:
            path = None
            if a["k"] in ("copy", "move") and not a["place"]["proj"]:
                ty = fn.locals[a["place"]["local"]]["ty"]
                x = ty
                while x.get("k") == "ref":
                    x = x["inner"]
                if x.get("k") == "closure":
                    path = x["path"]
            elif a["k"] == "const" and (a.get("val") or {}).get("k") == "fn":
                p = a["val"]["path"]
                if p in self.facts.fns:
                    path = p
            if path and path in self.facts.fns:
                out.append(self.facts.fns[path])
        return out

    def _node(self, ctx, bb):
        key = (ctx, bb)
        n = self.nodes.get(key)
        if n is None:
            n = Node(ctx, self.ctx_fn[ctx], bb)
            self.nodes[key] = n
        return n

    def _build(self, max_nodes):
        start = self._node((), 0)
        work = deque([start])
        seen = {start.id}
        self.succ[start.id] = []

        def link(a, b):
            self.succ.setdefault(a.id, [])
            if b.id not in self.succ[a.id]:
                self.succ[a.id].append(b.id)
            self.pred.setdefault(b.id, [])
            if a.id not in self.pred[b.id]:
                self.pred[b.id].append(a.id)
            if b.id not in seen:
                seen.add(b.id)
                self.succ.setdefault(b.id, [])
                work.append(b)

        while work:
            if len(self.nodes) > max_nodes:
                raise AnalysisError("inlined graph of %s too large" % self.entry_fn.name)
            n = work.popleft()
            fn, bb, ctx = n.fn, n.bb, n.ctx
            t = fn.blocks[bb]["term"]
            k = t["k"]
            if k == "call":
                target = t.get("target")
                callee = None
                if callee_is_local(t):
                    cname = callee_resolved(t)
                    callee = self.facts.fns.get(cname)
                if callee is not None and self.inline(callee, t):
                    if any(fr[3] == callee.name for fr in ctx) or callee.name == self.entry_fn.name:
                        self.opaque_recursive.append((fn.name, bb, callee.name))
                        callee = None
                if callee is not None and self.inline(callee, t):
                    frame = (fn.name, bb, "call", callee.name)
                    cctx = ctx + (frame,)
                    self.ctx_fn[cctx] = callee
                    self.frames[cctx] = (ctx, fn, bb, "call", callee)
                    link(n, self._node(cctx, 0))
                    if target is not None:
                        for rb in callee.return_blocks():
                            link(self._node(cctx, rb), self._node(ctx, target))
                    continue
                # opaque callee: closures passed in?
                closures = self._closure_args(fn, t)
                if target is not None:
                    link(n, self._node(ctx, target))
                    p = callee_path(t) or ""
                    once = p in ONCE
                    for ci, cf in enumerate(closures):
                        if any(fr[3] == cf.name for fr in ctx):
                            continue
                        frame = (fn.name, bb, "closure%d" % ci, cf.name)
                        cctx = ctx + (frame,)
                        self.ctx_fn[cctx] = cf
                        self.frames[cctx] = (ctx, fn, bb, "closure", cf)
                        ce = self._node(cctx, 0)
                        link(n, ce)
                        for rb in cf.return_blocks():
                            r = self._node(cctx, rb)
                            link(r, self._node(ctx, target))
                            if not once:
                                link(r, ce)
                continue
            if k == "return":
                continue
            for s in fn.succ[bb]:
                link(n, self._node(ctx, s))

    # ----- points
    def npoints(self, nid):
        n = self.nodes[nid]
        return len(n.fn.blocks[n.bb]["stmts"]) + 1

    def event(self, point):
        nid, idx = point
        n = self.nodes[nid]
        b = n.fn.blocks[n.bb]
        if idx < len(b["stmts"]):
            return ("stmt", b["stmts"][idx])
        return ("term", b["term"])

    def point_loc(self, point):
        nid, idx = point
        n = self.nodes[nid]
        b = n.fn.blocks[n.bb]
        si = idx if idx < len(b["stmts"]) else None
        return n.fn.loc(n.bb, si)

    def point_succs(self, point):
        nid, idx = point
        if idx + 1 < self.npoints(nid):
            return [(nid, idx + 1)]
        return [(s, 0) for s in self.succ.get(nid, [])]

    def all_points(self):
        for nid in self.nodes:
            for i in range(self.npoints(nid)):
                yield (nid, i)

    def entry_point(self):
        return (((), 0), 0)

    def exit_points(self):
        """Terminator points of the entry function's return blocks."""
        out = []
        for rb in self.entry_fn.return_blocks():
            nid = ((), rb)
            if nid in self.nodes:
                out.append((nid, self.npoints(nid) - 1))
        return out

    def is_inlined_call(self, point):
        """True if the terminator at this point is a call that was inlined (so the call itself is
        not an opaque event)."""
        nid, idx = point
        n = self.nodes[nid]
        if idx != self.npoints(nid) - 1:
            return False
        t = n.fn.blocks[n.bb]["term"]
        if t["k"] != "call":
            return False
        for s in self.succ.get(nid, []):
            if len(s[0]) == len(n.ctx) + 1 and s[0][-1][2] == "call" and s[0][-1][1] == n.bb:
                return True
        return False

    # ----- reachability over points
    def reach_forward(self, starts, blocked=None, edge_ok=None):
        """Points reachable from `starts` (inclusive).  `blocked(point)`: traversal does not continue
        *through* such a point (the point itself is included).  `edge_ok(p, q)` can prune edges."""
        seen = set()
        dq = deque()
        for s in starts:
            if s not in seen:
                seen.add(s)
                dq.append(s)
        prev = {}
        while dq:
            p = dq.popleft()
            if blocked is not None and blocked(p) and p not in starts:
                continue
            for q in self.point_succs(p):
                if edge_ok is not None and not edge_ok(p, q):
                    continue
                if q not in seen:
                    seen.add(q)
                    prev[q] = p
                    dq.append(q)
        return seen, prev

    def find_path(self, starts, is_target, blocked=None, edge_ok=None):
        """A witness path (list of points) from some start point to a target point that does not
        pass through (or end in) a blocked point, or None.  Start points are examined like any
        other point; use `after(point)` to begin strictly after an event."""
        seen = set()
        dq = deque()
        prev = {}
        for s in starts:
            if s not in seen:
                seen.add(s)
                dq.append(s)
        while dq:
            p = dq.popleft()
            if blocked is not None and blocked(p):
                continue
            if is_target(p):
                path = [p]
                while path[-1] in prev:
                    path.append(prev[path[-1]])
                path.reverse()
                return path
            for q in self.point_succs(p):
                if edge_ok is not None and not edge_ok(p, q):
                    continue
                if q not in seen:
                    seen.add(q)
                    prev[q] = p
                    dq.append(q)
        return None

    def after(self, point):
        return self.point_succs(point)

    def path_s(self, path, maxlen=14):
        locs = []
        last = None
        for p in path:
            n = self.nodes[p[0]]
            key = (n.fn.name, n.bb)
            if key != last:
                locs.append("%s:bb%d(%s)" % (n.fn.name.split("::")[-1], n.bb, n.fn.span_of(n.bb).split(":")[-1]))
                last = key
        if len(locs) > maxlen:
            locs = locs[: maxlen // 2] + ["..."] + locs[-maxlen // 2 :]
        return " -> ".join(locs)

    def cyclic_nodes(self):
        """Node ids that lie on a cycle of the inlined graph (Tarjan, iterative)."""
        index, low, on, stack, out = {}, {}, set(), [], set()
        counter = [0]
        for root in list(self.nodes):
            if root in index:
                continue
            work = [(root, 0)]
            while work:
                v, i = work.pop()
                if i == 0:
                    index[v] = low[v] = counter[0]
                    counter[0] += 1
                    stack.append(v)
                    on.add(v)
                ss = self.succ.get(v, [])
                rec = False
                while i < len(ss):
                    w = ss[i]
                    i += 1
                    if w not in index:
                        work.append((v, i))
                        work.append((w, 0))
                        rec = True
                        break
                    elif w in on:
                        low[v] = min(low[v], index[w])
                if rec:
                    continue
                if low[v] == index[v]:
                    comp = []
                    while True:
                        w = stack.pop()
                        on.discard(w)
                        comp.append(w)
                        if w == v:
                            break
                    if len(comp) > 1 or v in self.succ.get(v, []):
                        out.update(comp)
                if work:
                    u = work[-1][0]
                    low[u] = min(low[u], low[v])
        return out

    # ----- lifting terms to the entry's frame of reference
    def terms(self, fn):
        t = self._terms.get(fn.name)
        if t is None:
            t = Terms(fn)
            self._terms[fn.name] = t
        return t

    def lift(self, ctx, term):
        """Rewrite a term of the function at ctx so that its ('arg', n) roots are replaced by the
        caller-side terms, recursively up to the entry function."""
        while ctx:
            caller_ctx, caller_fn, call_bb, kind, callee = self.frames[ctx]
            t = caller_fn.blocks[call_bb]["term"]
            ct = self.terms(caller_fn)
            if kind == "call":
                actuals = [ct.operand(a) for a in t["args"]]
                term = subst_args(term, actuals)
            else:
                # closure body: arg1 is the closure environment; find the closure value among args
                env = None
                for a in t["args"]:
                    at = ct.operand(a)
                    s = at
                    while s[0] in ("ref", "deref"):
                        s = s[1]
                    if s[0] == "closure" and s[1] == callee.name:
                        env = s
                        break
                term = subst_closure_env(term, env)
            ctx = caller_ctx
        return term

    def lifted_place(self, node, place):
        return self.lift(node.ctx, self.terms(node.fn).place(place))

    def lifted_operand(self, node, op):
        return self.lift(node.ctx, self.terms(node.fn).operand(op))


def _map_term(t, f):
    if not isinstance(t, tuple) or not t:
        return t
    r = f(t)
    if r is not None:
        return r
    out = []
    for x in t:
        if isinstance(x, tuple) and x and isinstance(x[0], str):
            out.append(_map_term(x, f))
        elif isinstance(x, tuple):
            out.append(tuple(_map_term(y, f) if isinstance(y, tuple) else y for y in x))
        else:
            out.append(x)
    res = tuple(out)
    if res[0] in ("deref", "field"):
        res = simplify(res)
        if res[0] == "field" and res[1][0] == "closure":
            try:
                return res[1][2][int(res[3])]
            except (ValueError, IndexError):
                pass
    return res


def subst_args(term, actuals):
    def f(t):
        if t[0] == "arg":
            i = t[1] - 1
            if 0 <= i < len(actuals):
                return actuals[i]
            return ("unknown", "arg")
        if t[0] == "call":
            # bb ids of callee-side calls are kept; they stay distinguishable by path+args
            return None
        return None

    return _map_term(term, f)


def subst_closure_env(term, env):
    def f(t):
        if t[0] == "arg" and t[1] == 1:
            return env if env is not None else ("unknown", "closure-env")
        if t[0] == "arg":
            return ("cparam", t[1])
        return None

    return _map_term(term, f)
