"""Linear-inequality abstract domain over program terms, with Fourier-Motzkin entailment.

A state is a conjunction of constraints  sum(a_i * x_i) + c <= 0  over atoms x_i (opaque program
terms).  Entailment  S |- e <= 0  is decided by refuting  S and (e >= 1)  over the rationals
(sound for the integers).  Disequalities are kept aside and used to sharpen bounds
(x >= k and x != k  =>  x >= k+1).  No external solver; the systems have a dozen atoms.
"""
from fractions import Fraction


class Lin:
    """Linear expression: dict atom -> coefficient, plus a constant."""

    __slots__ = ("co", "k")

    def __init__(self, co=None, k=0):
        self.co = {a: Fraction(c) for a, c in (co or {}).items() if c != 0}
        self.k = Fraction(k)

    @staticmethod
    def const(k):
        return Lin({}, k)

    @staticmethod
    def atom(a):
        return Lin({a: 1}, 0)

    def __add__(self, o):
        co = dict(self.co)
        for a, c in o.co.items():
            co[a] = co.get(a, 0) + c
        return Lin(co, self.k + o.k)

    def __sub__(self, o):
        return self + o.scale(-1)

    def scale(self, f):
        return Lin({a: c * f for a, c in self.co.items()}, self.k * f)

    def is_const(self):
        return not self.co

    def key(self):
        return (tuple(sorted(((repr(a), c) for a, c in self.co.items()))), self.k)

    def __repr__(self):
        parts = ["%s*%s" % (c, a) for a, c in self.co.items()]
        return " + ".join(parts + [str(self.k)])


class State:
    def __init__(self):
        self.le = []      # Lin e meaning e <= 0
        self.ne = []      # (Lin e) meaning e != 0
        self._seen = set()

    def copy(self):
        s = State()
        s.le = list(self.le)
        s.ne = list(self.ne)
        s._seen = set(self._seen)
        return s

    def add_le(self, e):
        k = e.key()
        if k not in self._seen:
            self._seen.add(k)
            self.le.append(e)

    def add_eq(self, e):
        self.add_le(e)
        self.add_le(e.scale(-1))

    def add_ne(self, e):
        self.ne.append(e)

    def sharpen(self, rounds=3):
        """x >= k and x != k  =>  x >= k + 1 (and symmetrically)."""
        for _ in range(rounds):
            changed = False
            for e in self.ne:
                # e != 0.  If e <= 0 is entailed then e <= -1; if e >= 0 entailed then e >= 1.
                if self.entails_le(e, use_ne=False) and not self.entails_le(e + Lin.const(1), use_ne=False):
                    self.add_le(e + Lin.const(1))
                    changed = True
                m = e.scale(-1)
                if self.entails_le(m, use_ne=False) and not self.entails_le(m + Lin.const(1), use_ne=False):
                    self.add_le(m + Lin.const(1))
                    changed = True
            if not changed:
                break

    def entails_le(self, e, use_ne=True):
        """S |- e <= 0 ?   (refute S and e >= 1, i.e. -e + 1 <= 0)"""
        if use_ne and self.ne:
            self.sharpen()
        cons = list(self.le) + [e.scale(-1) + Lin.const(1)]
        return infeasible(cons)

    def entails_eq(self, e):
        return self.entails_le(e) and self.entails_le(e.scale(-1))

    def inconsistent(self):
        return infeasible(list(self.le))


def infeasible(cons, limit=4000):
    """Fourier-Motzkin: is the conjunction of  e <= 0  infeasible over the rationals?"""
    cons = dedup(cons)
    while True:
        # constant contradictions
        rest = []
        for e in cons:
            if e.is_const():
                if e.k > 0:
                    return True
            else:
                rest.append(e)
        cons = rest
        if not cons:
            return False
        # pick the atom with the fewest pos*neg products
        atoms = {}
        for e in cons:
            for a, c in e.co.items():
                p, n = atoms.get(a, (0, 0))
                if c > 0:
                    p += 1
                else:
                    n += 1
                atoms[a] = (p, n)
        a = min(atoms, key=lambda x: atoms[x][0] * atoms[x][1])
        pos = [e for e in cons if e.co.get(a, 0) > 0]
        neg = [e for e in cons if e.co.get(a, 0) < 0]
        oth = [e for e in cons if a not in e.co]
        new = []
        for p in pos:
            for n in neg:
                cp, cn = p.co[a], -n.co[a]
                new.append(p.scale(cn) + n.scale(cp))
        cons = dedup(oth + new)
        if len(cons) > limit:
            return False  # give up: not proved


def dedup(cons):
    seen = set()
    out = []
    for e in cons:
        # normalise scale
        if e.co:
            m = min(abs(c) for c in e.co.values())
            e = e.scale(Fraction(1) / m)
        k = e.key()
        if k not in seen:
            seen.add(k)
            out.append(e)
    return out
