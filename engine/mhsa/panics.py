"""Panic-site inventory and discharge (abstract interpretation with a linear-inequality domain,
one abstract state per path = trace partitioning)."""
import os
from .core import AnalysisError, subterms, term_s
from .lin import Lin, State
from .paths import PathEnum
from .rules.util import canon, as_sum, payload_of, const_of, is_call, last_seg, look, norm, truth, option_is_some
from .shapes import Shapes, TOP

UMAX = {"u8": 2**8 - 1, "u16": 2**16 - 1, "u32": 2**32 - 1, "u64": 2**64 - 1, "usize": 2**64 - 1, "u128": 2**128 - 1}
IMAX = {"i8": 2**7 - 1, "i16": 2**15 - 1, "i32": 2**31 - 1, "i64": 2**63 - 1, "isize": 2**63 - 1}

# std / dependency callees that can panic, with the obligation kind to discharge
PANICKY = {
    "std::ops::Index::index": "index",
    "std::ops::IndexMut::index_mut": "index",
    "std::option::Option::<T>::unwrap": "unwrap-option",
    "std::option::Option::<T>::expect": "unwrap-option",
    "std::result::Result::<T, E>::unwrap": "unwrap-result",
    "std::result::Result::<T, E>::expect": "unwrap-result",
    "std::result::Result::<T, E>::unwrap_err": "unwrap-result",
    "core::slice::<impl [T]>::windows": "nonzero-arg",
    "core::slice::<impl [T]>::chunks": "nonzero-arg",
    "core::slice::<impl [T]>::chunks_exact": "nonzero-arg",
    "std::iter::Iterator::step_by": "nonzero-arg",
    "std::vec::Vec::<T, A>::drain": "range-on-len",
    "std::vec::Vec::<T, A>::split_off": "at-most-len",
    "std::vec::Vec::<T, A>::remove": "index-lt-len",
    "std::vec::Vec::<T, A>::swap_remove": "index-lt-len",
    "std::vec::Vec::<T, A>::insert": "at-most-len",
    "std::vec::Vec::<T, A>::truncate": None,
    "core::slice::<impl [T]>::copy_from_slice": "same-len",
    "core::slice::<impl [T]>::copy_within": "copy-within",
    "core::slice::<impl [T]>::split_at": "at-most-len",
    "core::slice::<impl [T]>::split_at_mut": "at-most-len",
    "core::str::<impl str>::split_at": "at-most-len",
    "core::panicking::panic": "panic",
    "core::panicking::panic_fmt": "panic",
    "std::rt::begin_panic": "panic",
    "core::panicking::unreachable_display": "panic",
    "core::panicking::assert_failed": "panic",
    "std::cell::RefCell::<T>::borrow": "refcell",
    "std::cell::RefCell::<T>::borrow_mut": "refcell",
    "core::slice::<impl [T]>::swap": "index-lt-len",
    "std::collections::VecDeque::<T, A>::swap": "index-lt-len",
    "std::vec::Vec::<T, A>::split_at": "at-most-len",
    "core::num::<impl usize>::div_ceil": "nonzero-arg",
    "core::num::<impl usize>::pow": "arith",
    "core::num::<impl u32>::pow": "arith",
    "std::string::String::remove": "index-lt-len",
    "std::string::String::insert": "at-most-len",
    "std::string::String::truncate": "at-most-len",
    "std::string::String::drain": "range-on-len",
    "std::string::String::split_off": "at-most-len",
    "std::string::String::replace_range": "range-on-len",
    "core::char::from_digit": "arith",
    "std::thread::sleep": "blocks",
}


# no buffer in memory is longer than this (x86-64 / aarch64 user address spaces are 2^47..2^56 bytes): sums of a few lengths cannot overflow usize
MAX_LEN = 2**56


def checked_source(t):
    """The checked_add/checked_sub call whose Some payload the term t denotes, or None."""
    x = payload_of(t)
    if x is not None and (is_call(x, "checked_add") or is_call(x, "checked_sub")) and len(x[2]) == 2:
        return x
    return None


def ty_max(ty):
    return UMAX.get(ty)


class Tr:
    """Translate terms of one path into linear expressions, adding definitional axioms on demand."""

    def __init__(self, facts, fn, st, tables=None):
        self.facts = facts
        self.fn = fn
        self.st = st
        self.tables = tables or {}
        self._atoms = {}
        self.trusted_used = set()

    # --- atoms
    def atom(self, t, lo=None, hi=None):
        k = canon(t)
        first = k not in self._atoms
        self._atoms[k] = True
        a = Lin.atom(k)
        if first:
            if lo is not None:
                self.st.add_le(Lin.const(lo) - a)
            if hi is not None:
                self.st.add_le(a - Lin.const(hi))
        return a

    def uint_ty_of(self, t):
        """Best-effort unsigned integer type name of a term."""
        t = look(t)
        if t[0] in ("arg", "argv"):
            ty = self.fn.locals[t[1]]["ty"]
            while ty.get("k") == "ref":
                ty = ty["inner"]
            return ty["s"] if ty.get("k") == "uint" else None
        if t[0] == "field" and t[2] in self.facts.adts:
            for v in self.facts.adts[t[2]]["variants"]:
                for f in v["fields"]:
                    if f["name"] == t[3] and f["ty"].get("k") == "uint":
                        return f["ty"]["s"]
        if t[0] == "var":
            try:
                ty = self.fn.locals[int(t[1])]["ty"]
                return ty["s"] if ty.get("k") == "uint" else None
            except (ValueError, TypeError, IndexError):
                return None
        return None

    def array_len_of(self, t):
        t = look(t)
        if t[0] == "field" and t[2] in self.facts.adts:
            for v in self.facts.adts[t[2]]["variants"]:
                for f in v["fields"]:
                    if f["name"] == t[3] and f["ty"].get("k") == "array":
                        return f["ty"].get("len")
        if t[0] == "repeat":
            return t[2]
        if t[0] == "array":
            return len(t[1])
        if t[0] == "const" and isinstance(t[1], (bytes, str)):
            return len(t[1]) if isinstance(t[1], bytes) else len(t[1].encode())
        if t[0] == "mut":
            return self.array_len_of(t[1])
        return None

    # --- lengths
    def length(self, x):
        """Linear expression for the length of the slice/array/Vec/str denoted by x."""
        x = look(x)
        while x[0] == "mut" and self.array_len_of(x) is not None:
            x = look(x[1])
        n = self.array_len_of(x)
        if n is not None:
            return Lin.const(n)
        if x[0] == "call" and x[1] in ("std::option::Option::<T>::insert", "std::option::Option::<T>::get_or_insert") and len(x[2]) == 2 and x[1].endswith("insert") and not x[1].endswith("get_or_insert"):
            return self.length(x[2][1])      # `slot.insert(v)` hands back a reference to v as stored
        if x[0] == "field" and x[3] == "0" and x[1][0] == "downcast" and x[1][2] == "Some" and look(x[1][1])[0] == "agg" and look(x[1][1])[2] == "Some":
            return self.length(look(x[1][1])[3][0])     # the payload of a literal Some(v)
        if x[0] == "call" and x[1] in self.tables and len(x[2]) == 1:
            a = look(x[2][0])
            if a[0] == "agg" and a[2] in self.tables[x[1]]:
                v = self.tables[x[1]][a[2]]
                return Lin.const(len(v if isinstance(v, bytes) else str(v).encode()))
        if is_call(x, "index", "index_mut") and len(x[2]) == 2:
            base, idx = x[2]
            r = look(idx)
            if r[0] == "agg" and r[1].startswith("std::ops::Range"):
                kind = r[1].split("<")[0].rsplit("::", 1)[-1]
                if kind == "Range":
                    return self.lin(r[3][1]) - self.lin(r[3][0])
                if kind == "RangeFrom":
                    return self.length(base) - self.lin(r[3][0])
                if kind == "RangeTo":
                    return self.lin(r[3][0])
                if kind == "RangeFull":
                    return self.length(base)
        if x[0] == "field" and x[3] in ("0", "1") and is_call(look(x[1]), "split_at", "split_at_mut") and len(look(x[1])[2]) == 2:
            sp = look(x[1])
            mid = self.lin(sp[2][1])
            return mid if x[3] == "0" else self.length(sp[2][0]) - mid
        if is_call(x, "collect") and is_call(look(x[2][0]), "splitn"):
            k = const_of(look(x[2][0])[2][1])
            if isinstance(k, int) and k >= 1:
                self.trusted_used.add("str::splitn(n >= 1, _) yields between 1 and n items")
                return self.atom(("len", x), 1, k)
        return self.atom(("len", self._len_key(x)), 0, MAX_LEN)

    HARMLESS_BORROWS = ("as_mut", "as_ref", "as_deref", "as_deref_mut", "as_slice", "as_mut_slice", "deref", "deref_mut", "is_some", "is_none", "len", "is_empty", "iter", "ok_or", "ok_or_else", "unwrap", "expect")

    def _len_key(self, x):
        """One key for the length of one object however it is reached: the payload of an Option taken with `?`, `ok_or(..)?`,
        a match binding or `if let`, through as_mut / as_ref, and through `mutated-by` marks left by calls that only borrow."""
        def strip(t):
            t = look(t)
            while t[0] == "mut" and last_seg(t[2]) in self.HARMLESS_BORROWS and t[2].split("::")[0] in ("std", "core", "alloc"):
                t = look(t[1])
            return t
        x = strip(x)
        src = payload_of(x)
        if src is not None and x[0] != "bin":
            src = strip(src)
            while src[0] == "call" and last_seg(src[1]) in ("as_mut", "as_ref", "as_deref", "as_deref_mut", "ok_or", "ok_or_else") and src[1].split("::")[0] in ("std", "core") and src[2]:
                src = strip(src[2][0])
            if src[0] == "agg" and src[2] == "Some" and src[3]:
                return self._len_key(src[3][0])      # the payload of a literal Some(v) is v
            return ("payload-of", canon(src))
        return x

    # --- terms
    def lin(self, t):
        t = look(t)
        k = t[0]
        if k == "const":
            if isinstance(t[1], bool):
                return Lin.const(1 if t[1] else 0)
            if isinstance(t[1], int):
                return Lin.const(t[1])
            return self.atom(t)
        if k == "cast" and t[3] == "IntToInt":
            to, frm = t[2], (t[4] if len(t) > 4 else None)
            inner = self.lin(t[1])
            if to in UMAX and frm in UMAX and UMAX[frm] <= UMAX[to]:
                return inner
            if to in UMAX:
                a = self.atom(t, 0, UMAX[to])
                # value-preserving when the operand provably fits
                if self.st.entails_le(inner - Lin.const(UMAX[to])) and self.st.entails_le(inner.scale(-1)):
                    self.st.add_eq(a - inner)
                return a
            return self.atom(t)
        if k == "field" and t[1][0] == "bin" and t[3] == "0":
            op, a, b = t[1][1], t[1][2], t[1][3]
            return self.arith(op.replace("WithOverflow", ""), a, b, t)
        if k == "bin" and t[1] in ("Add", "Sub", "Mul", "AddUnchecked", "SubUnchecked"):
            return self.arith(t[1].replace("Unchecked", ""), t[2], t[3], t)
        ca = checked_source(t)
        if ca is not None:
            # the Some payload of checked_add / checked_sub, however it was taken out (`?` on ok_or, match, if let)
            a, b = self.lin(ca[2][0]), self.lin(ca[2][1])
            ty = "u32" if "u32" in ca[1] else "usize" if "usize" in ca[1] else "u64" if "u64" in ca[1] else None
            if is_call(ca, "checked_add"):
                e = a + b
                if ty:
                    self.st.add_le(e - Lin.const(UMAX[ty]))
                return e
            e = a - b
            self.st.add_le(e.scale(-1))
            return e
        if is_call(t, "saturating_sub") and len(t[2]) == 2 and t[1].startswith("core::num::"):
            # max(a - b, 0): the difference once a >= b is known, 0 once a <= b is known, otherwise an atom bounded from below
            a, b = self.lin(t[2][0]), self.lin(t[2][1])
            if self.st.entails_le(b - a):
                return a - b
            if self.st.entails_le(a - b):
                return Lin.const(0)
            s_ = self.atom(t, 0, None)
            self.st.add_le(a - b - s_)
            return s_
        if is_call(t, "len") and len(t[2]) == 1:
            return self.length(t[2][0])
        if k == "un" and t[1] == "PtrMetadata":
            return self.length(t[2])
        src = payload_of(t)
        if src is not None:
            key = ("payload-of", src)
            if is_call(src, "try_from", "try_into") and src[1].startswith(("std::convert::", "core::convert::")) and len(src[2]) == 1:
                # the Ok payload of an integer conversion is the value converted
                self.trusted_used.add("TryFrom between integer types returns Ok(v) with the same value, or Err")
                return self.lin(src[2][0])
            if is_call(src, "request::find") and len(src[2]) == 2:
                p = self.atom(key, 0, None)
                self.st.add_le(p + self.length(src[2][1]) - self.length(src[2][0]))
                self.trusted_used.add("request::find(h, n) = Some(i) implies i + n.len() <= h.len() (windows/position)")
                self.find_lemma(t, src, p)
                return p
            if src[0] == "call" and src[1].startswith("core::str::<impl str>::") and last_seg(src[1]) in ("find", "rfind") and src[2]:
                p = self.atom(key, 0, None)
                self.st.add_le(p - self.length(src[2][0]))
                self.trusted_used.add("str::find returns a byte offset inside the string, at a char boundary")
                return p
            if is_call(src, "position"):
                it = look(src[2][0])
                while it[0] == "mut":
                    it = look(it[1])
                if is_call(it, "bytes", "iter", "chars") or is_call(it, "into_iter"):
                    base = it[2][0]
                    p = self.atom(key, 0, None)
                    self.st.add_le(p + Lin.const(1) - self.length(base))
                    return p
            if is_call(src, "next"):
                it = look(src[2][0])
                while it[0] == "mut":
                    it = look(it[1])
                if is_call(it, "into_iter"):
                    it = look(it[2][0])
                if it[0] == "agg" and it[1].startswith("std::ops::Range") and len(it[3]) == 2 and "Inclusive" not in it[1]:
                    i = self.atom(key, None, None)
                    self.st.add_le(self.lin(it[3][0]) - i)
                    self.st.add_le(i + Lin.const(1) - self.lin(it[3][1]))
                    return i
            if src[0] == "call" and src[1] in ("std::io::Write::write", "std::io::Read::read") and len(src[2]) == 2:
                n = self.atom(key, 0, None)
                self.st.add_le(n - self.length(src[2][1]))
                self.trusted_used.add("%s returns n <= buf.len()" % src[1])
                return n
            if src[0] == "call" and src[1] == "vmm_sys_util::epoll::Epoll::wait" and len(src[2]) == 3:
                n = self.atom(key, 0, None)
                self.st.add_le(n - self.length(src[2][2]))
                self.trusted_used.add("Epoll::wait returns at most events.len() events")
                return n
            if k == "payload":
                return self.atom(key)
        # enumerate index: ((next(enumerate(iter(v))) as Some).0).0
        if k == "field" and t[3] == "0":
            b = look(t[1])
            if b[0] == "field" and b[3] == "0" and b[1][0] == "downcast" and b[1][2] == "Some" and is_call(look(b[1][1]), "next"):
                it = look(look(b[1][1])[2][0])
                while it[0] == "mut":
                    it = look(it[1])
                if is_call(it, "into_iter"):
                    it = look(it[2][0])
                if is_call(it, "enumerate"):
                    src = look(it[2][0])
                    if is_call(src, "iter"):
                        i = self.atom(t, 0, None)
                        self.st.add_le(i + Lin.const(1) - self.length(src[2][0]))
                        return i
        ty = self.uint_ty_of(t)
        if ty:
            return self.atom(t, 0, UMAX[ty])
        return self.atom(t)

    def arith(self, op, a, b, whole):
        la, lb = self.lin(a), self.lin(b)
        if op == "Add":
            return la + lb
        if op == "Sub":
            return la - lb
        if op == "Mul":
            if la.is_const():
                return lb.scale(la.k)
            if lb.is_const():
                return la.scale(lb.k)
        return self.atom(whole)

    def find_lemma(self, t, src, p):
        """L-find: haystack = parent[q..] with q the result of find(parent, Q), needle starts with Q:
        the result cannot fall strictly inside the first occurrence of Q unless Q overlaps itself."""
        hay, needle = look(src[2][0]), look(src[2][1])
        n = needle[1] if needle[0] == "const" else (bytes(x[1] for x in needle[1]) if needle[0] == "array" and all(y[0] == "const" for y in needle[1]) else None)
        if not isinstance(n, (bytes, str)):
            return
        n = n if isinstance(n, bytes) else n.encode()
        # the haystack is parent[q..], written as an index expression or as the second half of split_at(parent, q)
        if is_call(hay, "index"):
            r = look(hay[2][1])
            if not (r[0] == "agg" and r[1].startswith("std::ops::RangeFrom")):
                return
            parent, qterm = hay[2][0], r[3][0]
        elif hay[0] == "field" and hay[3] == "1" and is_call(look(hay[1]), "split_at") and len(look(hay[1])[2]) == 2:
            parent, qterm = look(hay[1])[2][0], look(hay[1])[2][1]
        else:
            return
        hay = ("call", "index", (parent, None), 0)
        f1 = payload_of(qterm)
        if not (f1 is not None and is_call(f1, "request::find")):
            return
        if norm(look(f1[2][0])) != norm(look(hay[2][0])):
            return
        qn = look(f1[2][1])
        Q = qn[1] if qn[0] == "const" else (bytes(x[1] for x in qn[1]) if qn[0] == "array" and all(y[0] == "const" for y in qn[1]) else None)
        if not isinstance(Q, (bytes, str)):
            return
        Q = Q if isinstance(Q, bytes) else Q.encode()
        if not n.startswith(Q):
            return
        for k in range(1, len(Q)):
            if Q[k:] != Q[: len(Q) - k]:
                self.st.add_ne(p - Lin.const(k))
        self.trusted_used.add("L-find: a match of a needle starting with Q cannot begin strictly inside an occurrence of Q that does not overlap itself")

    # --- facts from branch conditions
    def pair_equalities(self, x):
        """For `(a, b) == (K1, K2)` and `p.checked_sub(q) == Some(K)` (PartialEq::eq / ne against a promoted constant):
        the list of (Lin, Lin) pairs whose conjunction of equalities the comparison states; None for anything else.
        (`checked_sub == Some(K)` also says p >= q; with K a constant the equality p - q == K implies it.)"""
        if not (is_call(x, "eq", "ne") and len(x[2]) == 2 and "PartialEq" in x[1]):
            return None
        a, b = look(x[2][0]), look(x[2][1])
        for l, r in ((a, b), (b, a)):
            k = r[1] if r[0] == "const" else None
            if isinstance(k, tuple) and k and k[0] == "inttuple" and l[0] == "tuple" and len(l[1]) == len(k[1]):
                return [(self.lin(e), Lin.const(v)) for e, v in zip(l[1], k[1])]
            if isinstance(k, tuple) and k and k[0] == "optint" and k[1] is not None and is_call(l, "checked_sub") and len(l[2]) == 2:
                return [(self.lin(l[2][0]) - self.lin(l[2][1]), Lin.const(k[1]))]
        return None

    def assume_cond(self, t, c):
        tv = truth(c)
        x = look(t)
        if x[0] == "bin" and x[1] in ("Eq", "Ne", "Gt", "Lt", "Ge", "Le") and tv is not None:
            # `a.saturating_sub(b) == 0` is a <= b; `> 0` / `!= 0` is a > b
            for l, r, op in ((x[2], x[3], x[1]), (x[3], x[2], {"Gt": "Lt", "Lt": "Gt", "Ge": "Le", "Le": "Ge"}.get(x[1], x[1]))):
                sl = look(l)
                if is_call(sl, "saturating_sub") and len(sl[2]) == 2 and sl[1].startswith("core::num::") and const_of(r) == 0:
                    zero = {"Eq": True, "Le": True, "Ne": False, "Gt": False}.get(op)
                    if zero is not None:
                        a, b = self.lin(sl[2][0]), self.lin(sl[2][1])
                        if zero == tv:
                            self.st.add_le(a - b)
                        else:
                            self.st.add_le(b - a + Lin.const(1))
                        return
        if x[0] == "bin" and x[1] in ("Lt", "Le", "Gt", "Ge", "Eq", "Ne") and tv is not None:
            a, b = self.lin(x[2]), self.lin(x[3])
            op = x[1]
            if not tv:
                op = {"Lt": "Ge", "Le": "Gt", "Gt": "Le", "Ge": "Lt", "Eq": "Ne", "Ne": "Eq"}[op]
            if op == "Lt":
                self.st.add_le(a - b + Lin.const(1))
            elif op == "Le":
                self.st.add_le(a - b)
            elif op == "Gt":
                self.st.add_le(b - a + Lin.const(1))
            elif op == "Ge":
                self.st.add_le(b - a)
            elif op == "Eq":
                self.st.add_eq(a - b)
            else:
                self.st.add_ne(a - b)
            return
        if is_call(x, "is_none", "is_some") and len(x[2]) == 1 and tv is not None and is_call(look(x[2][0]), "checked_sub") and len(look(x[2][0])[2]) == 2:
            # `a.checked_sub(b).is_none()` is a < b; `.is_some()` is b <= a
            y = look(x[2][0])
            a, b = self.lin(y[2][0]), self.lin(y[2][1])
            some = tv if last_seg(x[1]) == "is_some" else not tv
            if some:
                self.st.add_le(b - a)
            else:
                self.st.add_le(a - b + Lin.const(1))
            return
        if is_call(x, "contains") and len(x[2]) == 2 and tv is True:
            # `(a..b).contains(&v)` / `(a..=b).contains(&v)` found true: a <= v and v < b / v <= b
            r_ = look(x[2][0])
            if r_[0] == "call" and last_seg(r_[1]) == "new" and "RangeInclusive" in r_[1] and len(r_[2]) == 2:
                r_ = ("agg", "std::ops::RangeInclusive", "RangeInclusive", tuple(r_[2]))
            if r_[0] == "agg" and r_[1].split("<")[0] in ("std::ops::Range", "std::ops::RangeInclusive") and len(r_[3]) == 2:
                v_ = self.lin(x[2][1])
                self.st.add_le(self.lin(r_[3][0]) - v_)
                self.st.add_le(v_ - self.lin(r_[3][1]) + Lin.const(0 if "Inclusive" in r_[1] else 1))
                return
        pe = self.pair_equalities(x)
        if pe is not None and tv is not None:
            eq_call = last_seg(x[1]) == "eq"
            if tv == eq_call:
                for a, b in pe:
                    self.st.add_eq(a - b)
            elif len(pe) == 1:
                self.st.add_ne(pe[0][0] - pe[0][1])
            return
        if is_call(x, "is_empty") and tv is not None and len(x[2]) == 1:
            L = self.length(x[2][0])
            if tv:
                self.st.add_eq(L)
            else:
                self.st.add_le(Lin.const(1) - L)
            return
        if is_call(x, "starts_with") and tv and len(x[2]) == 2:
            p = look(x[2][1])
            if p[0] == "const" and isinstance(p[1], (str, bytes)):
                self.st.add_le(Lin.const(len(p[1].encode() if isinstance(p[1], str) else p[1])) - self.length(x[2][0]))
            return
        if x[0] == "discr":
            # the outcome of checked_add / checked_sub says how the operands compare
            y = look(x[1])
            some = None
            if is_call(y, "branch") and y[2]:
                y = look(y[2][0])
                if is_call(y, "ok_or", "ok_or_else") and y[2]:
                    y = look(y[2][0])
                    some = True if c == ("eq", 0) else (False if c in (("eq", 1), ("ne", (0,))) else None)
            else:
                some = option_is_some(c)
            if some is not None and (is_call(y, "checked_sub") or is_call(y, "checked_add")) and len(y[2]) == 2:
                a, b = self.lin(y[2][0]), self.lin(y[2][1])
                ty = "u32" if "u32" in y[1] else "usize" if "usize" in y[1] else "u64" if "u64" in y[1] else None
                if is_call(y, "checked_sub"):
                    if some:
                        self.st.add_le(b - a)
                    else:
                        self.st.add_le(a - b + Lin.const(1))
                elif ty:
                    if some:
                        self.st.add_le(a + b - Lin.const(UMAX[ty]))
            return
        # switch on an integer-valued term
        if c[0] == "eq" and x[0] in ("field", "payload", "cast", "arg", "argv", "var", "deref") and not isinstance(c[1], bool):
            if self.is_intlike(x):
                self.st.add_eq(self.lin(x) - Lin.const(c[1]))
        elif c[0] == "ne" and self.is_intlike(x):
            e = self.lin(x)
            for v in c[1]:
                self.st.add_ne(e - Lin.const(v))

    def is_intlike(self, x):
        src = payload_of(x)
        if src is not None and x[0] != "payload":
            return is_call(src, "request::find", "position", "next") or (src[0] == "call" and src[1] in ("std::io::Write::write",))
        if x[0] == "payload":
            return True
        return self.uint_ty_of(x) is not None


class Site:
    __slots__ = ("fn", "kind", "key", "desc", "loc", "status", "why", "bb")

    def __init__(self, fn, kind, key, desc, loc, bb):
        self.fn = fn
        self.kind = kind
        self.key = key
        self.desc = desc
        self.loc = loc
        self.bb = bb
        self.status = None
        self.why = ""


def summarize(t, n=70):
    return term_s(norm(look(t)))[:n]


class PanicAnalysis:
    def __init__(self, facts, tables=None):
        self.facts = facts
        self.tables = tables or {}
        self.shapes = Shapes(facts)
        self.sites = {}      # key -> Site
        self.proofs = {}     # key -> list of (status, why) per path
        self.trusted = set()
        self.unknown_callees = {}
        self.callee_inventory = {}
        self.pending_pre = []  # (callee fn, site key, obligation builder)
        self.uninlined = set()  # new helpers met as opaque calls (nesting deeper than the inlining bound)
        self.path_filter = None  # fn, leaf -> True if the path contradicts a separately proved object invariant

    # ---- per function
    def analyse_fn(self, fn, env_facts=None):
        leaves = PathEnum(fn, self.facts, versioned=True, lower=True).run()
        cyc = fn.cyclic_blocks()
        for lf in leaves:
            if self.path_filter is not None and self.path_filter(fn, lf):
                continue    # excluded by an object invariant that is proved separately
            st = State()
            tr = Tr(self.facts, fn, st, self.tables)
            if env_facts:
                env_facts(tr, lf)
            for i, e in enumerate(lf.events):
                kind = e[0]
                if kind == "cond":
                    tr.assume_cond(e[3], e[4])
                elif kind == "assert":
                    self.check_assert(fn, lf, i, e, tr)
                elif kind == "call":
                    self.check_call(fn, lf, i, e, tr)
            self.trusted |= tr.trusted_used
        return leaves

    def record(self, fn, kind, key, desc, loc, bb, ok, why):
        fn = getattr(bb, "fn", None) or fn   # a site inside an inlined helper belongs to the helper
        k = "%s|%s|%s" % (fn.name, kind, key)
        s = self.sites.get(k)
        if s is None:
            s = Site(fn.name, kind, key, desc, loc, bb)
            self.sites[k] = s
        self.proofs.setdefault(k, []).append((ok, why))
        return k

    def check_assert(self, fn, lf, i, e, tr):
        msgk, info = e[3], e[5]
        ops = info["ops"]
        st = tr.st
        loc = fn.loc(e[1])
        if msgk == "bounds":
            L, I = tr.length_or_lin(ops["len"]) if hasattr(tr, "length_or_lin") else tr.lin(ops["len"]), tr.lin(ops["index"])
            ok = st.entails_le(I + Lin.const(1) - L) and st.entails_le(I.scale(-1))
            key = "bounds|%s < %s" % (summarize(ops["index"], 50), summarize(ops["len"], 30))
            self.record(fn, "assert", key, "index %s < len %s" % (summarize(ops["index"]), summarize(ops["len"])), loc, e[1], ok, "" if ok else "bound not entailed by the path's guards")
            if ok:
                st.add_le(I + Lin.const(1) - L)
        elif msgk == "overflow":
            op, ty = info["op"], info["ty"]
            a, b = tr.lin(ops["l"]), tr.lin(ops["r"])
            mx = UMAX.get(ty) or IMAX.get(ty)
            if op == "Add":
                ok = mx is not None and st.entails_le(a + b - Lin.const(mx))
            elif op == "Sub":
                ok = st.entails_le(b - a) if ty in UMAX else False
            elif op == "Mul":
                if a.is_const() and b.is_const():
                    ok = mx is not None and a.k * b.k <= mx
                elif a.is_const():
                    ok = mx is not None and st.entails_le(b.scale(a.k) - Lin.const(mx))
                elif b.is_const():
                    ok = mx is not None and st.entails_le(a.scale(b.k) - Lin.const(mx))
                else:
                    ok = False
            else:
                ok = False
            key = "overflow|%s(%s, %s):%s" % (op, summarize(ops["l"], 45), summarize(ops["r"], 30), ty)
            self.record(fn, "assert", key, "%s of %s and %s does not overflow %s" % (op, summarize(ops["l"]), summarize(ops["r"]), ty), loc, e[1], ok, "" if ok else "no-overflow not entailed by the path's guards")
        else:
            self.record(fn, "assert", "%s" % msgk, "assert %s" % msgk, loc, e[1], False, "assert kind not handled")

    def check_call(self, fn, lf, i, e, tr):
        path, ct, raw = e[3], e[4], e[5]
        callee = raw["callee"]
        if callee.get("how") == "fnptr":
            return
        self.callee_inventory.setdefault(path, 0)
        self.callee_inventory[path] += 1
        if path in self.facts.fns:
            from .rules.util import is_new_fn
            if is_new_fn(path) and self.facts.fns[path].d["kind"] != "closure":
                self.uninlined.add(path)
            return
        kind = PANICKY.get(path)
        if path not in PANICKY:
            return
        if kind is None:
            return
        loc = fn.loc(e[1])
        st = tr.st
        args = ct[2]
        if kind == "index":
            targs = callee.get("targs") or []
            self_ty = targs[0] if targs else {}
            idx_ty = targs[1] if len(targs) > 1 else {}
            cont = self_ty.get("k")
            is_str = cont == "str" or (cont == "adt" and self_ty.get("path") == "std::string::String")
            is_map = cont == "adt" and self_ty.get("path", "").startswith("std::collections::")
            base, idx = args[0], args[1]
            L = tr.length(base)
            r = look(idx)
            desc = "%s[%s]" % (summarize(base, 40), summarize(idx, 60))
            key = "index|%s" % desc
            if is_map:
                self.record(fn, "call", key, desc, loc, e[1], False, "indexing a map panics on a missing key")
                return
            ok = False
            why = ""
            if r[0] == "agg" and r[1].startswith("std::ops::Range"):
                rk = r[1].split("<")[0].rsplit("::", 1)[-1]
                if rk == "RangeFull":
                    ok = True
                elif rk == "Range":
                    a, b = tr.lin(r[3][0]), tr.lin(r[3][1])
                    ok = st.entails_le(a - b) and st.entails_le(b - L) and st.entails_le(a.scale(-1))
                elif rk == "RangeFrom":
                    a = tr.lin(r[3][0])
                    ok = st.entails_le(a - L) and st.entails_le(a.scale(-1))
                elif rk == "RangeTo":
                    b = tr.lin(r[3][0])
                    ok = st.entails_le(b - L) and st.entails_le(b.scale(-1))
                elif rk in ("RangeInclusive", "RangeToInclusive"):
                    ok = False
                    why = "inclusive range: end < len not established"
                if is_str and ok:
                    ok, why = self.char_boundary(lf, i, base, r, tr)
                elif is_str:
                    ok2, why2 = self.char_boundary(lf, i, base, r, tr)
                    ok, why = ok2, why2
            else:
                I = tr.lin(idx)
                ok = st.entails_le(I + Lin.const(1) - L) and st.entails_le(I.scale(-1))
            self.record(fn, "call", key, desc, loc, e[1], ok, why or ("" if ok else "range not entailed by the path's guards"))
            return
        if kind == "range-on-len":
            base, idx = args[0], args[1]
            L = tr.length(base)
            r = look(idx)
            desc = "%s.%s(%s)" % (summarize(base, 40), last_seg(path), summarize(idx, 110))
            ok = False
            if r[0] == "agg" and r[1].startswith("std::ops::Range"):
                rk = r[1].split("<")[0].rsplit("::", 1)[-1]
                if rk == "RangeFull":
                    ok = True
                elif rk == "RangeTo":
                    b = tr.lin(r[3][0])
                    ok = st.entails_le(b - L)
                elif rk == "Range":
                    a, b = tr.lin(r[3][0]), tr.lin(r[3][1])
                    ok = st.entails_le(a - b) and st.entails_le(b - L)
                elif rk == "RangeFrom":
                    a = tr.lin(r[3][0])
                    ok = st.entails_le(a - L)
            if not ok and os.environ.get("MHSA_DEBUG_LEN"):     # development aid: the two terms whose lengths could not be related
                print("DEBUG base", term_s(base)[:1500])
                print("DEBUG idx ", term_s(idx)[:1500])
                if os.environ.get("MHSA_DEBUG_LEN") == "repr":
                    print("DEBUG base repr", repr(base)[:3000])
                    print("DEBUG idx repr ", repr(idx)[:3000])
            self.record(fn, "call", "drain|%s" % desc[:110], desc, loc, e[1], ok, "" if ok else "range end <= len not entailed")
            return
        if kind == "copy-within":
            base, rng, dest = args[0], look(args[1]), args[2]
            L = tr.length(base)
            d = tr.lin(dest)
            desc = "%s.copy_within(%s, %s)" % (summarize(base, 30), summarize(rng, 60), summarize(dest, 20))
            ok = False
            if rng[0] == "agg" and rng[1].startswith("std::ops::Range"):
                rk = rng[1].split("<")[0].rsplit("::", 1)[-1]
                a = b = None
                if rk == "Range":
                    a, b = tr.lin(rng[3][0]), tr.lin(rng[3][1])
                elif rk == "RangeTo":
                    a, b = Lin.const(0), tr.lin(rng[3][0])
                elif rk == "RangeFrom":
                    a, b = tr.lin(rng[3][0]), L
                elif rk == "RangeFull":
                    a, b = Lin.const(0), L
                if a is not None:
                    ok = st.entails_le(a - b) and st.entails_le(b - L) and st.entails_le(a.scale(-1)) and st.entails_le(d + b - a - L) and st.entails_le(d.scale(-1))
            self.record(fn, "call", "copy_within|%s" % desc[:110], desc, loc, e[1], ok, "" if ok else "source range within the slice and dest + count <= len not entailed")
            return
        if kind == "at-most-len" and last_seg(path) in ("split_at", "split_at_mut", "split_off") and len(args) == 2:
            L = tr.length(args[0])
            m = tr.lin(args[1])
            ok = st.entails_le(m - L) and st.entails_le(m.scale(-1))
            desc = "%s.%s(%s)" % (summarize(args[0], 40), last_seg(path), summarize(args[1], 60))
            is_str = "str" in path or "String" in path
            self.record(fn, "call", "at-most-len|%s" % desc[:100], desc, loc, e[1], ok and not is_str, "" if ok and not is_str else ("str split: char boundary not covered by a lemma" if is_str else "mid <= len not entailed by the path's guards"))
            return
        if kind == "index-lt-len" and last_seg(path) in ("remove", "swap_remove") and len(args) == 2 and "Vec" in path:
            # v.remove(i): i < len(v) -- e.g. `while !v.is_empty() { v.remove(0) }`
            L = tr.length(args[0])
            m = tr.lin(args[1])
            ok = st.entails_le(m - L + Lin.const(1)) and st.entails_le(m.scale(-1))
            desc = "%s.%s(%s)" % (summarize(args[0], 40), last_seg(path), summarize(args[1], 60))
            self.record(fn, "call", "index-lt-len|%s" % desc[:100], desc, loc, e[1], ok, "" if ok else "index < len not entailed by the path's guards")
            return
        if kind == "nonzero-arg":
            n = tr.lin(args[1])
            ok = st.entails_le(Lin.const(1) - n)
            desc = "%s(%s) with non-zero size" % (last_seg(path), summarize(args[1], 50))
            k = self.record(fn, "call", "nonzero|%s" % desc, desc, loc, e[1], ok, "" if ok else "size >= 1 not established locally")
            if not ok:
                self.pending_pre.append((fn, k, "nonzero-len", args[1]))
            return
        if kind in ("unwrap-option", "unwrap-result"):
            x = look(args[0])
            want = "Some" if kind == "unwrap-option" else "Ok"
            ok = False
            why = "not established on this path"
            # a literal
            if x[0] == "agg" and x[2] == want:
                ok = True
            for ev in lf.events[:i]:
                if ev[0] == "cond" and ev[3][0] == "discr" and norm(look(ev[3][1])) == norm(x):
                    s = option_is_some(ev[4]) if want == "Some" else (ev[4] == ("eq", 0))
                    if s:
                        ok = True
            desc = "%s(%s)" % (last_seg(path), summarize(x, 90))
            self.record(fn, "call", "unwrap|%s" % desc, desc, loc, e[1], ok, "" if ok else why)
            return
        if kind == "panic":
            # feasibility of the path by constructor shapes
            ok, why = self.path_infeasible(fn, lf, i)
            self.record(fn, "call", "panic|%s" % last_seg(path), "explicit panic / unreachable!", loc, e[1], ok, why)
            return
        self.record(fn, "call", "%s|%s" % (kind, last_seg(path)), "%s (%s)" % (path, kind), loc, e[1], False, "no discharge rule for this kind")

    def char_boundary(self, lf, i, base, r, tr):
        """L-str-prefix / L-str-byte for slicing a str at an index."""
        rk = r[1].split("<")[0].rsplit("::", 1)[-1]
        if rk != "RangeFrom":
            return False, "str slicing other than s[n..] is not covered by a lemma"
        n = look(r[3][0])
        b = look(base)
        if n == ("const", 0):
            return True, "index 0"

        def prefix_len_on_path(k):
            """k (an int, or a string P meaning len(P)) is the length of an ASCII prefix P with starts_with(b, P) / strip_prefix on this path."""
            for ev in lf.events[:i]:
                if ev[0] == "cond" and is_call(look(ev[3]), "starts_with") and truth(ev[4]):
                    s_, p_ = look(ev[3])[2]
                    P = const_of(p_)
                    if isinstance(P, bytes):
                        P = P.decode("latin-1")
                    if norm(look(s_)) == norm(b) and isinstance(P, str) and all(ord(ch) < 128 for ch in P) and (k == P or k == len(P)):
                        return True
            return False

        def ascii_position(pos, skip):
            """pos = position(iter over the bytes of b[skip..], |x| x == ASCII)"""
            it = look(pos[2][0])
            while it[0] == "mut":
                it = look(it[1])
            src = None
            if is_call(it, "bytes", "iter", "into_iter") and it[2]:
                src = look(it[2][0])
            if src is None:
                return False
            if skip:
                if not (is_call(src, "index") and len(src[2]) == 2):
                    return False
                rr = look(src[2][1])
                if not (rr[0] == "agg" and rr[1].startswith("std::ops::RangeFrom")):
                    return False
                sk = tr.lin(rr[3][0])
                if not (sk.is_const() and sk.k == skip):
                    return False
                src = look(src[2][0])
            if norm(src) != norm(b):
                return False
            clo = look(pos[2][1])
            if not (clo[0] == "closure" and clo[1] in self.facts.fns):
                return False
            good = True
            for l2 in PathEnum(self.facts.fns[clo[1]], self.facts).run():
                rr = l2.ret()
                c = None
                if rr[0] == "bin" and rr[1] == "Eq":
                    c = const_of(rr[2]) if const_of(rr[2]) is not None else const_of(rr[3])
                good = good and isinstance(c, int) and 0 <= c < 128
            return good

        # L-str-prefix: n == len(P) under starts_with(s, P), P ASCII
        plen = None
        if is_call(n, "len") and look(n[2][0])[0] == "const" and isinstance(look(n[2][0])[1], str):
            plen = look(n[2][0])[1]
        if plen is not None:
            if prefix_len_on_path(plen):
                return True, "L-str-prefix"
            return False, "s[len(P)..] without a dominating s.starts_with(P)"
        # L-str-find: n is where str::find / rfind located a pattern in this very string
        src = payload_of(n)
        if src is not None and src[0] == "call" and src[1].startswith("core::str::<impl str>::") and last_seg(src[1]) in ("find", "rfind") and src[2] and norm(look(src[2][0])) == norm(b):
            return True, "L-str-find"
        # L-str-byte: n from s.bytes().position(|b| b == ascii)
        if src is not None and is_call(src, "position"):
            if ascii_position(src, 0):
                return True, "L-str-byte"
            return False, "position() is not over the bytes of the sliced string with an ASCII test"
        # L-str-byte after an ASCII prefix: n = k + position over the bytes of s[k..], with starts_with(s, P), len(P) = k
        sm = as_sum(n)
        if sm is not None:
            for a_, p_ in (sm, (sm[1], sm[0])):
                kl = tr.lin(a_)
                k = int(kl.k) if kl.is_const() and kl.k == int(kl.k) else None
                ps = payload_of(p_)
                if isinstance(k, int) and ps is not None and is_call(ps, "position") and ascii_position(ps, k) and prefix_len_on_path(k):
                    return True, "L-str-prefix + L-str-byte"
                # k + str::find(s[k..], pat): where the pattern was found in the rest of this very string
                if isinstance(k, int) and ps is not None and ps[0] == "call" and ps[1].startswith("core::str::<impl str>::") and last_seg(ps[1]) in ("find", "rfind") and prefix_len_on_path(k):
                    hay = look(ps[2][0])
                    if is_call(hay, "index") and norm(look(hay[2][0])) == norm(b):
                        rr = look(hay[2][1])
                        if rr[0] == "agg" and rr[1].startswith("std::ops::RangeFrom"):
                            sk = tr.lin(rr[3][0])
                            if sk.is_const() and sk.k == k:
                                return True, "L-str-prefix + L-str-find"
        return False, "start index of the str slice is not covered by a lemma"

    def path_infeasible(self, fn, lf, i):
        """Is this path excluded because it requires an enum variant its source can never produce?"""
        for ev in lf.events[:i]:
            if ev[0] != "cond" or ev[3][0] != "discr":
                continue
            x = look(ev[3][1])
            c = ev[4]
            if x[0] == "field" and x[1][0] == "downcast" and x[1][2] == "Err":
                src = look(x[1][1])
                if src[0] == "call" and src[1] in self.facts.fns and c[0] == "eq":
                    callee = self.facts.fns[src[1]]
                    errs = set()
                    top = False
                    for s in self.shapes.return_set(callee):
                        if s == TOP:
                            top = True
                        elif s[0] == "Err":
                            if len(s) < 2 or s[1] == TOP:
                                top = True
                            else:
                                errs.add(s[1][0])
                    # which variant does the discriminant select?  find the enum by its variants
                    for adt, a in self.facts.adts.items():
                        names = {v["name"] for v in a["variants"]}
                        if a["kind"] == "enum" and errs and errs <= names:
                            sel = [v["name"] for v in a["variants"] if v["discr"] == c[1]]
                            if sel and not top and sel[0] not in errs:
                                return True, "path requires %s to return Err(%s), which it cannot (its errors: %s)" % (src[1].split("::")[-1], sel[0], sorted(errs))
        return False, "path to the panic is not excluded"

    # ---- preconditions on callers
    def lift_preconditions(self):
        for (fn, key, kind, term) in self.pending_pre:
            t = look(term)
            # len(arg n) >= 1 at every call site of fn
            argn = None
            if is_call(t, "len") and look(t[2][0])[0] == "arg":
                argn = look(t[2][0])[1]
            if argn is None:
                continue
            all_ok = True
            n = 0
            for g in self.facts.fns.values():
                for bb, tt in g.calls_to(fn.name):
                    for lf in PathEnum(g, self.facts).run():
                        for e in lf.events:
                            if e[0] == "call" and e[1] == bb and e[3] == fn.name:
                                n += 1
                                st = State()
                                tr = Tr(self.facts, g, st, self.tables)
                                L = tr.length(e[4][2][argn - 1])
                                if not st.entails_le(Lin.const(1) - L):
                                    all_ok = False
            if n and all_ok:
                self.proofs[key] = [(True, "holds at all %d call sites of %s" % (n, fn.name.split("::")[-1]))]

    def verdicts(self):
        out = []
        for k, s in sorted(self.sites.items()):
            ps = self.proofs.get(k, [])
            ok = bool(ps) and all(p[0] for p in ps)
            why = "; ".join(sorted({p[1] for p in ps if p[1]}))
            out.append((k, s, ok, len(ps), why))
        return out
