"""Path-sensitive dataflow over the CFG of one function (trace partitioning).

Every acyclic path from the entry block is followed with a flow-sensitive environment
(place -> origin term) and the list of branch conditions taken.  Constant conditions are
folded (so drop flags and literal discriminants steer correctly); a condition on a term that
contradicts an earlier one on the same path prunes the path.  A back edge ends the path with
kind 'loop'.  No solver is involved: feasibility is decided on syntactic identity of terms.
"""
from .core import AnalysisError, const_val, callee_is_local, callee_path, callee_resolved, simplify, subterms
from . import pp

STD_DISCR = {
    "std::option::Option": {"None": 0, "Some": 1},
    "std::result::Result": {"Ok": 0, "Err": 1},
    "std::ops::ControlFlow": {"Continue": 0, "Break": 1},
}


def adt_base(adt):
    i = adt.find("<")
    return adt[:i] if i >= 0 else adt


class Leaf:
    __slots__ = ("kind", "env", "conds", "trace", "events", "bb")

    def __init__(self, kind, env, conds, trace, events, bb):
        self.kind = kind
        self.env = env
        self.conds = conds
        self.trace = trace
        self.events = events
        self.bb = bb

    def ret(self):
        return self.env.get("_0", ("unknown", "unset"))


class FBB(int):
    """A block index inside an inlined callee: never equal to a block index of another function."""
    def __new__(cls, v, fn, frame):
        o = int.__new__(cls, v)
        o.fn = fn
        o.frame = frame
        return o

    def __eq__(self, o):
        return isinstance(o, FBB) and o.frame == self.frame and int(o) == int(self)

    def __ne__(self, o):
        return not self.__eq__(o)

    def __hash__(self):
        return hash((self.frame, int(self)))


def _some(x):
    return ("agg", "std::option::Option", "Some", (x,))


def _ok(x):
    return ("agg", "std::result::Result", "Ok", (x,))


def _err(x):
    return ("agg", "std::result::Result", "Err", (x,))


_NONE = ("agg", "std::option::Option", "None", ())
_O, _R = "std::option::Option::<T>::", "std::result::Result::<T, E>::"
# combinator -> what it does per variant of its receiver: ("value", f(payload, args)) | ("call", closure arg index) | ("wrapcall", index, wrapper)
def last_seg_(p):
    return p.rsplit("::", 1)[-1]


LOWERABLE = {
    _O + "map": {"on": "opt", "arms": {"Some": ("wrapcall", 1, _some), "None": ("value", lambda p, a: _NONE)}},
    _O + "map_or": {"on": "opt", "arms": {"Some": ("call", 2), "None": ("value", lambda p, a: a[1])}},
    _O + "map_or_else": {"on": "opt", "arms": {"Some": ("call", 2), "None": ("call", 1)}},
    _O + "unwrap_or_else": {"on": "opt", "arms": {"Some": ("value", lambda p, a: p), "None": ("call", 1)}},
    _O + "and_then": {"on": "opt", "arms": {"Some": ("call", 1), "None": ("value", lambda p, a: _NONE)}},
    _O + "filter": {"on": "opt", "arms": {"Some": ("filtercall", 1), "None": ("value", lambda p, a: _NONE)}},
    _O + "is_some_and": {"on": "opt", "arms": {"Some": ("call", 1), "None": ("value", lambda p, a: ("const", False))}},
    _O + "is_none_or": {"on": "opt", "arms": {"Some": ("call", 1), "None": ("value", lambda p, a: ("const", True))}},
    _R + "is_ok_and": {"on": "res", "arms": {"Ok": ("call", 1), "Err": ("value", lambda p, a: ("const", False))}},
    _R + "is_err_and": {"on": "res", "arms": {"Ok": ("value", lambda p, a: ("const", False)), "Err": ("call", 1)}},
    _R + "map": {"on": "res", "arms": {"Ok": ("wrapcall", 1, _ok), "Err": ("value", lambda p, a: _err(p))}},
    _R + "and_then": {"on": "res", "arms": {"Ok": ("call", 1), "Err": ("value", lambda p, a: _err(p))}},
    _R + "unwrap_or_else": {"on": "res", "arms": {"Ok": ("value", lambda p, a: p), "Err": ("call", 1)}},
    _R + "or_else": {"on": "res", "arms": {"Ok": ("value", lambda p, a: _ok(p)), "Err": ("call", 1)}},
    # only with a closure literal (a constructor function as argument stays an ordinary call)
    _R + "map_err": {"on": "res", "arms": {"Ok": ("value", lambda p, a: _ok(p)), "Err": ("wrapcall", 1, _err)}},
    _O + "ok_or_else": {"on": "opt", "arms": {"Some": ("value", lambda p, a: _ok(p)), "None": ("wrapcall", 1, _err)}},
    "core::bool::<impl bool>::then_some": {"on": "bool", "arms": {"true": ("value", lambda p, a: _some(a[1])), "false": ("value", lambda p, a: _NONE)}},
    "core::bool::<impl bool>::then": {"on": "bool", "arms": {"true": ("wrapcall", 1, _some), "false": ("value", lambda p, a: _NONE)}},
}
_FRESH = [0]
NOT_FOLLOWED = set()
LOWERED = set()     # closures traversed inline at a combinator call (paths.LOWERABLE)


class PathEnum:
    def __init__(self, fn, facts, max_paths=20000, start_env=None, versioned=False, frame="", depth=0, inline_new=True, inline_also=None, mark_cycles=False, lower=False, unroll=False):
        self.fn = fn
        self.facts = facts
        self.versioned = versioned
        self.frame = frame          # non-empty inside an inlined callee: renames its locals
        self.depth = depth
        self.cont = None            # continuation invoked at `return` of an inlined callee
        self.inline_new = inline_new
        self.inline_also = inline_also    # predicate (path, args): traverse this known crate-local callee inline as well
        self.unroll = unroll              # go round each loop once more before cutting the path at its head (sees exits taken at the head after an iteration)
        self.lower = lower                # Option/Result combinators given a closure literal are replaced by the branch + closure body they stand for
        self.mark_cycles = mark_cycles    # record an ("enter", block) event for every block that lies on a CFG cycle
        self._cyclic = set(fn.cyclic_blocks()) if mark_cycles else ()
        self.max_paths = max_paths
        self.leaves = []
        self.start_env = start_env or {}
        self.rootbind = {}          # inside a frame: parameter number -> place key in the root function's namespace

    def _evkey(self, place):
        """Place key used in events: inside an inlined callee, places reached through a `&mut` parameter are
        named in the root function's namespace; the callee's own locals get the frame as a prefix."""
        from .core import canon_key
        key = pp.place_s(place)
        if not self.frame:
            return canon_key(key)
        l = place["local"]
        tok = "(*_%d)" % l
        base = self.rootbind.get(l)
        if base is not None and tok in key:
            return canon_key(key.replace(tok, base))
        return "%s:%s" % (self.frame, key)

    # ----- terms under a path environment
    def variant_discr(self, adt, variant):
        base = adt_base(adt)
        if base in STD_DISCR:
            return STD_DISCR[base].get(variant)
        a = self.facts.adts.get(adt) or self.facts.adts.get(base)     # an enum local to a generic fn keeps `<T>` in its path
        if a:
            for v in a["variants"]:
                if v["name"] == variant:
                    return v["discr"]
        return None

    def read_place(self, env, p):
        # longest stored prefix wins
        proj = p["proj"]
        for cut in range(len(proj), -1, -1):
            key = pp.place_s({"local": p["local"], "proj": proj[:cut]})
            if key in env:
                t = env[key]
                rest = proj[cut:]
                break
        else:
            l = p["local"]
            if 1 <= l <= self.fn.nargs:
                t = ("arg", l)
                v = env.get("@ver:_%d" % l, 0)
                if v and proj and proj[0]["k"] == "deref":
                    t = ("argv", l, v)
            else:
                t = ("var", ("%s:%d" % (self.frame, l)) if self.frame else l)
            rest = proj
        for e in rest:
            k = e["k"]
            if k == "deref":
                t = simplify(("deref", t))
            elif k == "field":
                if t[0] == "agg" :
                    try:
                        idx = e["idx"]
                        t = t[3][idx]
                        continue
                    except IndexError:
                        pass
                if t[0] == "closure":
                    try:
                        t = t[2][e["idx"]]      # a captured variable
                        continue
                    except (IndexError, KeyError):
                        pass
                if t[0] == "downcast" and t[1][0] == "agg" and t[1][2] == t[2]:
                    try:
                        t = t[1][3][e["idx"]]
                        continue
                    except IndexError:
                        pass
                t = simplify(("field", t, e.get("of"), e["name"]))
            elif k == "downcast":
                t = ("downcast", t, e["variant"])
            elif k == "index":
                t = ("index", t, self.read_place(env, {"local": e["local"], "proj": []}))
            elif k == "constidx":
                t = ("constidx", t, e["offset"], e["from_end"], e["min_len"])
            elif k == "subslice":
                t = ("subslice", t, e["from"], e["to"], e["from_end"])
            else:
                t = ("unknown", k)
        return t

    def operand(self, env, o):
        k = o["k"]
        if k in ("copy", "move"):
            return self.read_place(env, o["place"])
        if k == "const":
            v = o.get("val") or {}
            if v.get("k") == "fn":
                return ("fnconst", v["path"])
            cv = const_val(o)
            if cv is not None:
                return ("const", cv)
            if v.get("k") == "zst":
                return ("const", ())
            if v.get("k") == "static":
                return ("static", v["path"])
            if v.get("k") == "enum":
                return ("agg", v["adt"], v["variant"], ())
            return ("unknown", "const:" + str(v.get("k")))
        return ("unknown", k)

    def rvalue(self, env, rv):
        k = rv["k"]
        if k == "use":
            return self.operand(env, rv["op"])
        if k in ("ref", "rawptr"):
            return simplify(("ref", self.read_place(env, rv["place"]), rv["mut"]))
        if k == "binop":
            a = self.operand(env, rv["l"])
            b = self.operand(env, rv["r"])
            return fold_bin(rv["op"], a, b)
        if k == "unop":
            a = self.operand(env, rv["arg"])
            if rv["op"] == "Not" and a[0] == "const" and isinstance(a[1], bool):
                return ("const", not a[1])
            return ("un", rv["op"], a)
        if k == "cast":
            a = self.operand(env, rv["op"])
            if rv["kind"].startswith("PointerCoercion(Unsize"):
                return a  # &[u8; N] -> &[u8]: same bytes
            if a[0] == "const" and isinstance(a[1], int) and not isinstance(a[1], bool) and rv["kind"] == "IntToInt":
                return ("const", a[1])  # value-preserving for the small constants in this crate
            return ("cast", a, rv["ty"]["s"], rv["kind"], (rv.get("from") or {}).get("s"))
        if k == "discr":
            x = self.read_place(env, rv["place"])
            if x[0] == "agg":
                d = self.variant_discr(x[1], x[2])
                if d is not None:
                    return ("const", d)
            if x[0] == "call" and x[1] == "std::ops::FromResidual::from_residual" and x[2] and x[2][0][0] == "residual":
                return ("const", 1)     # the Err a `?` propagated (Option residuals are folded to None where they arise)
            return ("discr", x)
        if k == "aggregate":
            ops = tuple(self.operand(env, o) for o in rv["ops"])
            a = rv["agg"]
            if a == "adt":
                return ("agg", rv["adt"], rv["variant"], ops)
            if a == "closure":
                return ("closure", rv["path"], ops)
            if a == "tuple":
                return ("tuple", ops)
            return ("array", ops)
        if k == "repeat":
            return ("repeat", self.operand(env, rv["op"]), rv["n"])
        return ("unknown", k)

    # ----- exploration
    def run(self, start_bb=0):
        self.leaves = []
        env0 = dict(self.start_env)
        self._walk(start_bb, env0, [], [], [], frozenset())
        return self.leaves

    def _kill_prefix(self, env, key):
        for k in [k for k in env if k != key and (k.startswith(key + ".") or k.startswith("(" + key) or k.startswith("(*" + key))]:
            del env[k]

    def _assign(self, env, place, term):
        key = pp.place_s(place)
        self._kill_prefix(env, key)
        env[key] = term
        self._overlay_parent(env, key, term)

    def _set_component(self, cur, names, term):
        """The literal `cur` with the component reached by the field names `names` replaced by `term`; None if the
        path does not lead through literals."""
        name = names[0]
        if cur[0] == "tuple":
            if not name.isdigit() or int(name) >= len(cur[1]):
                return None
            idx = int(name)
            ops = list(cur[1])
        elif cur[0] == "agg":
            a = self.facts.adts.get(adt_base(cur[1]))
            idx = None
            if a is not None:
                for v in a["variants"]:
                    if v["name"] == cur[2] or a.get("kind") == "struct":
                        for i, f in enumerate(v["fields"]):
                            if f["name"] == name:
                                idx = i
                        break
            if idx is None or idx >= len(cur[3]):
                return None
            ops = list(cur[3])
        else:
            return None
        if len(names) > 1:
            sub = self._set_component(ops[idx], names[1:], term)
            if sub is None:
                return None
            ops[idx] = sub
        else:
            ops[idx] = term
        return ("tuple", tuple(ops)) if cur[0] == "tuple" else ("agg", cur[1], cur[2], tuple(ops))

    def _overlay_parent(self, env, key, term):
        """A write to one field of a local that holds a struct/tuple literal (possibly a field of a field: a grouping
        sub-struct): keep the literal up to date, so that a later read of the whole local sees the new component."""
        names = []
        while "." in key and not key.endswith(")"):
            parent, name = key.rsplit(".", 1)
            names.insert(0, name)
            cur = env.get(parent)
            if cur is not None and cur[0] in ("agg", "tuple"):
                new = self._set_component(cur, names, term)
                if new is None:
                    return
                env[parent] = new
                term, names = new, []
            key = parent

    def _walk(self, bb, env, conds, trace, events, onpath):
        fn = self.fn
        while True:
            if len(self.leaves) > self.max_paths:
                raise AnalysisError("more than %d paths in %s" % (self.max_paths, fn.name))
            ebb = FBB(bb, fn, self.frame) if self.frame else bb
            if bb in onpath:
                if self.unroll and ("again", bb) not in onpath:
                    onpath = onpath | {("again", bb)}
                else:
                    self.leaves.append(Leaf("loop", env, conds, trace + [ebb], events, ebb))
                    return
            onpath = onpath | {bb}
            trace = trace + [ebb]
            if self.mark_cycles and bb in self._cyclic:
                events = events + [("enter", ebb, None)]
            b = fn.blocks[bb]
            for si, s in enumerate(b["stmts"]):
                if s["k"] == "assign":
                    t = self.rvalue(env, s["rv"])
                    lv_term = self.read_place(env, s["place"]) if s["place"]["proj"] else None
                    self._assign(env, s["place"], t)
                    self._track_ref(env, s["place"], s["rv"])
                    ekey = self._evkey(s["place"])
                    if self.frame and lv_term is not None and ekey.startswith(self.frame + ":"):
                        # a write through a reference that is not a parameter (a closure's captured `&mut self.x`):
                        # name the location by what the reference points at, and let the caller see the new value
                        rkey = root_key_of_term(lv_term)
                        if rkey is not None:
                            ekey = rkey
                            env["@rootwrite:" + rkey] = t
                    events = events + [("assign", ebb, si, ekey, t, lv_term)]
                    from .core import EMBEDS, ALIASES, simplify as _simp
                    if EMBEDS:
                        # a write of a whole grouping sub-struct is a write of each frozen field it stands for
                        for (P_, g_), S_ in EMBEDS.items():
                            if ekey.endswith("." + g_):
                                for (S2_, f_), (P2_, role_) in ALIASES.items():
                                    if S2_ == S_:
                                        events = events + [("assign", ebb, si, ekey[: -len(g_)] + role_, _simp(("field", t, S_, f_)), None)]
                elif s["k"] == "setdiscr":
                    events = events + [("setdiscr", ebb, si, self._evkey(s["place"]), s["vidx"])]
            t = b["term"]
            k = t["k"]
            if k == "goto":
                bb = t["target"]
                continue
            if k == "return":
                if self.cont is not None:
                    self.cont(env, conds, trace, events)
                    return
                self.leaves.append(Leaf("return", env, conds, trace, events, ebb))
                return
            if k in ("unreachable", "resume", "terminate"):
                self.leaves.append(Leaf(k, env, conds, trace, events, ebb))
                return
            if k == "drop":
                events = events + [("drop", ebb, None, self._evkey(t["place"]), None)]
                bb = t["target"]
                continue
            if k == "assert":
                c = self.operand(env, t["cond"])
                m = t["msg"]
                ops = {}
                for key in ("len", "index", "l", "r", "arg"):
                    if key in m:
                        ops[key] = self.operand(env, m[key])
                events = events + [("assert", ebb, None, m["k"], c, {"op": m.get("op"), "ty": m.get("ty"), "ops": ops, "expected": t["expected"]})]
                bb = t["target"]
                continue
            if k == "call":
                args = tuple(self.operand(env, a) for a in t["args"])
                c = t["callee"]
                if c.get("how") == "fnptr":
                    path = "<fnptr>"
                elif callee_is_local(t):
                    path = callee_resolved(t)
                else:
                    path = callee_path(t)
                ct = ("call", path, args, ebb)
                if self.lower and path in LOWERABLE and t.get("target") is not None and self._lower(path, args, t, env, conds, trace, events, onpath, ebb):
                    return
                if self.lower and path in ("std::ops::Fn::call", "std::ops::FnMut::call_mut", "std::ops::FnOnce::call_once") and len(args) == 2 and t.get("target") is not None and self.depth < 6:
                    # a call of a local closure (`let is = |k: &str| name.eq_ignore_ascii_case(k); if is("a") ..`): its body is code of this function
                    c0 = args[0]
                    while c0[0] in ("ref", "deref"):
                        c0 = c0[1]
                    tup = args[1]
                    if c0[0] == "closure" and c0[1] in self.facts.fns and tup[0] == "tuple":
                        callee_ = self.facts.fns[c0[1]]
                        if callee_.nargs == 1 + len(tup[1]):
                            ty1 = callee_.locals[1]["ty"] if callee_.nargs >= 1 else {}
                            self_arg = ("ref", c0, bool(ty1.get("mut"))) if ty1.get("k") == "ref" else c0
                            LOWERED.add(c0[1])
                            self._inline(c0[1], tuple([self_arg] + list(tup[1])), t, dict(env), conds, trace, events + [("lowered", ebb, None, path, ct, t)], onpath, ebb, use_ops=False)
                            return
                if t.get("target") is not None and path in self.facts.fns and ((self.inline_new and self.depth < 3 and path not in known_fns()) or (self.inline_also is not None and self.depth < 6 and self.inline_also(path, args))):
                    if callee_path(t) in ("std::ops::Fn::call", "std::ops::FnMut::call_mut", "std::ops::FnOnce::call_once") and len(args) == 2 and args[1][0] == "tuple" and self.facts.fns[path].nargs == 1 + len(args[1][1]):
                        # a call of a local closure resolved to its body: the arguments travel as one tuple, the body takes them spread
                        self._inline(path, (args[0],) + tuple(args[1][1]), t, env, conds, trace, events, onpath, ebb, use_ops=False)
                        return
                    self._inline(path, args, t, env, conds, trace, events, onpath, ebb)
                    return
                if self.inline_new and path in self.facts.fns and path not in known_fns() and t.get("target") is not None:
                    NOT_FOLLOWED.add(path)    # a new helper beyond the inlining bound: reported by the runner (fail closed)
                events = events + [("call", ebb, None, path, ct, t)]
                # `?` on a literal Ok/Err folds
                if path == "std::ops::Try::branch" and args and args[0][0] == "agg" and args[0][2] in ("Ok", "Err") and adt_base(args[0][1]) == "std::result::Result":
                    if args[0][2] == "Ok":
                        ct = ("agg", "std::ops::ControlFlow", "Continue", args[0][3])
                    else:
                        ct = ("agg", "std::ops::ControlFlow", "Break", (args[0],))
                elif path == "std::ops::Try::branch" and args and args[0][0] == "agg" and args[0][2] in ("Some", "None") and adt_base(args[0][1]) == "std::option::Option":
                    # `?` on a literal Option (the value a helper or combinator traversed inline produced)
                    if args[0][2] == "Some":
                        ct = ("agg", "std::ops::ControlFlow", "Continue", args[0][3])
                    else:
                        ct = ("agg", "std::ops::ControlFlow", "Break", (("residual", args[0]),))
                elif path == "std::ops::Try::branch" and args and _under_map_err(args[0])[0] == "call" and _under_map_err(args[0])[1] == "std::ops::FromResidual::from_residual":
                    # `?` applied to a value that is itself a propagated residual: always breaks
                    ct = ("agg", "std::ops::ControlFlow", "Break", (("residual", args[0]),))
                elif path == "std::ops::Try::branch" and args and args[0][0] != "agg":
                    # `?` on a value whose variant an earlier match on this path already established
                    known = self._known_variant(conds, events, args[0], ((c.get("self_ty") or {}).get("path") or ""))
                    if known == "continue":
                        ct = ("agg", "std::ops::ControlFlow", "Continue", (("payload", args[0]),))
                    elif known == "break":
                        ct = ("agg", "std::ops::ControlFlow", "Break", (("residual", args[0]),))
                elif path in ("std::result::Result::<T, E>::is_ok", "std::result::Result::<T, E>::is_err", "std::option::Option::<T>::is_some", "std::option::Option::<T>::is_none") and len(args) == 1:
                    # a variant test of a value whose variant an earlier match on this path already established
                    x0 = args[0]
                    while x0[0] in ("ref", "deref"):
                        x0 = x0[1]
                    known = None
                    if x0[0] == "agg" and x0[2] in ("Ok", "Err", "Some", "None"):
                        known = "continue" if x0[2] in ("Ok", "Some") else "break"
                    elif x0[0] != "agg":
                        known = self._known_variant(conds, events, x0, "std::result::Result" if "Result" in path else "std::option::Option")
                    if known is not None:
                        ct = ("const", (known == "continue") == (path.rsplit("::", 1)[-1] in ("is_ok", "is_some")))
                elif path == "std::ops::FromResidual::from_residual" and args and args[0][0] == "agg" and args[0][2] == "Err":
                    ct = args[0]
                elif path == "std::result::Result::<T, E>::map_err" and len(args) == 2 and args[0][0] == "agg" and args[0][2] in ("Ok", "Err") and adt_base(args[0][1]) == "std::result::Result":
                    # map_err on a literal Result (the value a helper traversed inline returned)
                    if args[0][2] == "Ok":
                        ct = args[0]
                    elif args[1][0] == "fnconst" and "::" in args[1][1]:
                        adt, _, var = args[1][1].rpartition("::")
                        a = self.facts.adts.get(adt)
                        if a is not None and any(v["name"] == var for v in a["variants"]):
                            ct = _err(("agg", adt, var, tuple(args[0][3])))
                elif last_seg_(path) == "transpose" and path.startswith("std::option::Option") and len(args) == 1 and args[0][0] == "agg" and args[0][2] in ("Some", "None") and (args[0][2] == "None" or (args[0][3][0][0] == "agg" and args[0][3][0][2] in ("Ok", "Err")) or (_under_map_err(args[0][3][0])[0] == "call" and _under_map_err(args[0][3][0])[1] == "std::ops::FromResidual::from_residual")):
                    # Option<Result<T, E>>::transpose on a literal (the value `opt.map(|x| -> Result ..)` traversed inline produced)
                    if args[0][2] == "None":
                        ct = _ok(("agg", "std::option::Option", "None", ()))
                    elif args[0][3][0][0] != "agg":
                        ct = args[0][3][0]      # Some(a propagated residual): the Err itself
                    elif args[0][3][0][2] == "Ok":
                        ct = _ok(("agg", "std::option::Option", "Some", tuple(args[0][3][0][3])))
                    else:
                        ct = args[0][3][0]
                elif path in ("std::option::Option::<T>::ok_or",) and len(args) == 2 and args[0][0] == "agg" and args[0][2] in ("Some", "None"):
                    # ok_or on a literal Option (the result of a combinator traversed inline)
                    ct = _ok(args[0][3][0]) if args[0][2] == "Some" else _err(args[1])
                elif path == "std::ops::FromResidual::from_residual" and ((c.get("self_ty") or {}).get("path") == "std::option::Option"):
                    ct = ("agg", "std::option::Option", "None", ())  # `?` on an Option propagates None
                # a callee that receives &mut to a tracked place may change it
                for a in t["args"]:
                    self._havoc_mut(env, a, path)
                if path in ("std::option::Option::<T>::insert", "std::option::Option::<T>::replace") and len(args) == 2 and t["args"][0]["k"] in ("copy", "move"):
                    # `slot.insert(v)` / `slot.replace(v)` through a tracked `&mut slot`: the slot holds Some(v) afterwards
                    key_ = env.get("@ref:" + pp.place_s(t["args"][0]["place"]))
                    if key_ and not key_.startswith("@"):
                        for k_ in [k_ for k_ in env if k_.startswith(key_ + ".") or k_.startswith(key_ + "[")]:
                            del env[k_]
                        env[key_] = ("agg", "std::option::Option", "Some", (args[1],))
                self._assign(env, t["dest"], ct)
                # a `&mut` result of a callee that was handed `&mut local` aliases that local
                dk = "@ref:" + pp.place_s(t["dest"])
                env.pop(dk, None)
                if not t["dest"]["proj"]:
                    dty = fn.locals[t["dest"]["local"]]["ty"]
                    if dty.get("k") == "ref" and dty.get("mut"):
                        for a in t["args"]:
                            if a["k"] in ("copy", "move"):
                                src = env.get("@ref:" + pp.place_s(a["place"]))
                                if src:
                                    env[dk] = src
                                    break
                if t.get("target") is None:
                    self.leaves.append(Leaf("diverge", env, conds, trace, events, ebb))
                    return
                bb = t["target"]
                continue
            if k == "switch":
                d = self.operand(env, t["discr"])
                targets = t["targets"]
                if d[0] == "const" and isinstance(d[1], (int, bool)):
                    v = int(d[1])
                    nxt = t["otherwise"]
                    for tv, tb in targets:
                        if tv == v:
                            nxt = tb
                            break
                    bb = nxt
                    continue
                vals = [tv for tv, _ in targets]
                for tv, tb in targets:
                    if feasible(conds, d, ("eq", tv), events):
                        self._walk(tb, dict(env), conds + [(d, ("eq", tv), ebb)], trace, events + [("cond", ebb, None, d, ("eq", tv))], onpath)
                if feasible(conds, d, ("ne", tuple(vals)), events):
                    ob = t["otherwise"]
                    # an `otherwise` that is just `unreachable` is not a path
                    if fn.blocks[ob]["term"]["k"] == "unreachable" and not fn.blocks[ob]["stmts"]:
                        return
                    self._walk(ob, dict(env), conds + [(d, ("ne", tuple(vals)), ebb)], trace, events + [("cond", ebb, None, d, ("ne", tuple(vals)))], onpath)
                return
            raise AnalysisError("unsupported terminator %s in %s" % (k, fn.loc(bb)))

    def _base_of(self, env, actual):
        """The place key (in this function's env) that a `&mut` actual argument points at, if it is tracked."""
        if actual[0] in ("arg", "argv") and not self.frame and isinstance(actual[1], int) and 1 <= actual[1] <= self.fn.nargs:
            return "(*_%d)" % actual[1]
        if self.frame:
            for j in range(1, self.fn.nargs + 1):
                if env.get("_%d" % j) == actual:
                    return "(*_%d)" % j
        if actual[0] == "ref":
            x = actual[1]
            if x[0] == "var":
                if not self.frame and isinstance(x[1], int):
                    return "_%d" % x[1]
                if self.frame and isinstance(x[1], str) and x[1].startswith(self.frame + ":") and x[1][len(self.frame) + 1:].isdigit():
                    return "_%s" % x[1][len(self.frame) + 1:]
            if x[0] == "field" and x[1][0] == "deref":
                b = self._base_of(env, x[1][1])
                if b is not None and b.startswith("(*_"):
                    return "%s.%s" % (b, x[3])
        return None

    def _rootkey(self, base):
        if base is None:
            return None
        if not self.frame:
            return base
        if base.startswith("(*_"):
            num = base[3:].split(")")[0]
            rb = self.rootbind.get(int(num)) if num.isdigit() else None
            return None if rb is None else rb + base[len("(*_%s)" % num):]
        return None

    def _known_variant(self, conds, events, x, self_ty):
        """'continue' / 'break' / None: has this path already branched on the variant of the Result/Option x?"""
        if self_ty not in ("std::result::Result", "std::option::Option"):
            return None
        subj = _discr_subject(("discr", x))
        out = None
        for (t, c, _bb) in conds:
            if t[0] != "discr" or _discr_subject(t) != subj:
                continue
            if t[1] != x and _touched_between(events, t, subj):
                continue
            zero = c == ("eq", 0) or (c[0] == "ne" and 1 in c[1] and 0 not in c[1])
            one = c == ("eq", 1) or (c[0] == "ne" and 0 in c[1] and 1 not in c[1])
            if self_ty == "std::result::Result":
                out = "continue" if zero else "break" if one else out
            else:
                out = "continue" if one else "break" if zero else out
        return out

    def _lower(self, path, args, t, env, conds, trace, events, onpath, bb):
        """`opt.map(|x| ..)`, `opt.map_or_else(|| .., |x| ..)`, `res.and_then(|x| ..)` ... with closure literals:
        branch on the receiver's variant and walk the closure body, exactly what the combinator does."""
        spec = LOWERABLE[path]
        recv = args[0]
        if spec["on"] == "bool":
            # b.then_some(v) / b.then(|| v): Some exactly when b holds
            if spec["arms"]["true"][0] != "value":
                c0 = args[1]
                while c0[0] in ("ref", "deref"):
                    c0 = c0[1]
                if not (c0[0] == "closure" and c0[1] in self.facts.fns):
                    return False
            for tv, cnd in ((False, ("eq", 0)), (True, ("ne", (0,)))):
                if recv[0] == "const" and isinstance(recv[1], bool):
                    if recv[1] != tv:
                        continue
                    conds_b, events_b = conds, events
                else:
                    if not feasible(conds, recv, cnd, events):
                        continue
                    conds_b = conds + [(recv, cnd, bb)]
                    events_b = events + [("cond", bb, None, recv, cnd)]
                events_b = events_b + [("lowered", bb, None, path, ("call", path, args, bb), t)]
                how = spec["arms"]["true" if tv else "false"]
                if how[0] == "value":
                    env2 = dict(env)
                    self._assign(env2, t["dest"], how[1](None, args))
                    self._walk(t["target"], env2, conds_b, trace, events_b, onpath)
                else:
                    clo = args[how[1]]
                    while clo[0] in ("ref", "deref"):
                        clo = clo[1]
                    LOWERED.add(clo[1])
                    callee = self.facts.fns[clo[1]]
                    ty1 = callee.locals[1]["ty"] if callee.nargs >= 1 else {}
                    self_arg = ("ref", clo, bool(ty1.get("mut"))) if ty1.get("k") == "ref" else clo
                    self._inline(clo[1], (self_arg,), t, dict(env), conds_b, trace, events_b, onpath, bb, ret_wrap=how[2], use_ops=False)
            return True
        variants = ("None", "Some") if spec["on"] == "opt" else ("Ok", "Err")
        d = ("discr", recv)

        def closure_of(i):
            c = args[i]
            while c[0] in ("ref", "deref"):
                c = c[1]
            if c[0] == "closure" and c[1] in self.facts.fns:
                return c
            return None

        for how in spec["arms"].values():
            if how[0] in ("call", "wrapcall", "filtercall") and closure_of(how[1]) is None:
                return False
        taken = False
        for idx, vname in enumerate(variants):
            if recv[0] == "agg":
                if recv[2] != vname:
                    continue
                conds_b, events_b = conds, events
            else:
                if not feasible(conds, d, ("eq", idx), events):
                    continue
                conds_b = conds + [(d, ("eq", idx), bb)]
                events_b = events + [("cond", bb, None, d, ("eq", idx))]
            taken = True
            payload = recv[3][0] if recv[0] == "agg" and recv[3] else ("field", ("downcast", recv, vname), None, "0")
            if recv[0] == "call" and vname in ("Ok", "Some") and recv[1] in (_R + "map", _O + "map") and len(recv[2]) == 2 and recv[2][1][0] == "fnconst" and "::" in recv[2][1][1]:
                # `x.map(Enum::Variant)`: the Ok/Some payload is that variant around the payload of x
                from .core import ENUM_VARIANTS
                adt_, _, var_ = recv[2][1][1].rpartition("::")
                if var_ in ENUM_VARIANTS.get(adt_, ()):
                    payload = ("agg", adt_, var_, (("field", ("downcast", recv[2][0], vname), None, "0"),))
            how = spec["arms"][vname]
            events_b = events_b + [("lowered", bb, None, path, ("call", path, args, bb), t)]
            if how[0] == "value":
                v = how[1](payload, args)
                env2 = dict(env)
                self._assign(env2, t["dest"], v)
                self._walk(t["target"], env2, conds_b, trace, events_b, onpath)
            else:
                clo = closure_of(how[1])
                LOWERED.add(clo[1])
                callee = self.facts.fns[clo[1]]
                ty1 = callee.locals[1]["ty"] if callee.nargs >= 1 else {}
                self_arg = ("ref", clo, bool(ty1.get("mut"))) if ty1.get("k") == "ref" else clo
                cargs = [self_arg] + ([payload] if callee.nargs >= 2 else [])
                wrap = how[2] if how[0] == "wrapcall" else None
                fork = None
                if how[0] == "filtercall":
                    # the predicate gets a reference to the payload; the result keeps the payload or is None
                    cargs = [self_arg] + ([("ref", payload, False)] if callee.nargs >= 2 else [])
                    fork = (lambda pl: (lambda tv: _some(pl) if tv else _NONE))(payload)
                self._inline(clo[1], tuple(cargs), t, dict(env), conds_b, trace, events_b, onpath, bb, ret_wrap=wrap, use_ops=False, ret_fork=fork)
        return taken

    def _inline(self, path, args, t, env, conds, trace, events, onpath, bb, ret_wrap=None, use_ops=True, ret_fork=None):
        """A crate-local function that did not exist when the rules were written (a helper introduced by a
        refactoring) is traversed, not treated as an opaque call: its body is walked with its parameters
        bound to the actual argument terms and to what the caller knows about the places they point at;
        the walk resumes in the caller at each of its returns, with the callee's writes through `&mut`
        parameters (and its invalidations by opaque calls) carried back."""
        callee = self.facts.fns[path]
        child = PathEnum(callee, self.facts, self.max_paths, None, self.versioned, frame=(self.frame + "/" if self.frame else "") + "%s@%d" % (path.rsplit("::", 1)[-1], bb), depth=self.depth + 1, inline_new=self.inline_new, inline_also=self.inline_also, mark_cycles=self.mark_cycles, lower=self.lower, unroll=self.unroll)
        child.leaves = self.leaves
        cenv = {}
        bases = {}
        for i, a in enumerate(args):
            n = i + 1
            if a[0] == "arg" and not self.frame and env.get("@ver:_%d" % a[1], 0):
                a = ("argv", a[1], env["@ver:_%d" % a[1]])
            cenv["_%d" % n] = a
            base = None
            op = t["args"][i] if use_ops and i < len(t["args"]) else None
            if op is not None and op["k"] in ("copy", "move"):
                base = env.get("@ref:" + pp.place_s(op["place"]))    # `&mut local` taken earlier (two-phase borrow temp)
            if base is None:
                base = self._base_of(env, args[i])
            if base is None:
                continue
            bases[n] = base
            rk = self._rootkey(base)
            if rk is not None:
                child.rootbind[n] = rk
            tok = "(*_%d)" % n
            for k, v in env.items():
                if k == base:
                    cenv[tok] = v
                elif k.startswith(base + ".") or k.startswith(base + "["):
                    cenv[tok + k[len(base):]] = v
        caller = self
        target = t["target"]
        dest = t["dest"]

        def cont(cenv2, conds2, trace2, events2):
            env2 = dict(env)
            for n, base in bases.items():
                tok = "(*_%d)" % n
                # an opaque `&mut` call inside the callee invalidated what the parameter points at
                if cenv2.get("@ver:_%d" % n, 0):
                    caller._havoc_key(env2, base, path)
                for k, v in cenv2.items():
                    if k == tok or k.startswith(tok + ".") or k.startswith(tok + "["):
                        key = base + k[len(tok):]
                        if env2.get(key) is not v:
                            caller._kill_prefix(env2, key)
                            env2[key] = v
                            caller._overlay_parent(env2, key, v)
            for k, v in cenv2.items():
                if k.startswith("@rootwrite:"):
                    if caller.frame:
                        env2[k] = v
                    else:
                        rk = k[len("@rootwrite:"):]
                        caller._kill_prefix(env2, rk)
                        env2[rk] = v
            ret = cenv2.get("_0", ("unknown", "unset"))
            if ret_fork is not None:
                # the combinator branches on the closure's (boolean) result: `opt.filter(|x| p(x))` is Some(x) iff p(x)
                for tv, cnd in ((True, ("ne", (0,))), (False, ("eq", 0))):
                    if ret[0] == "const" and isinstance(ret[1], bool):
                        if ret[1] != tv:
                            continue
                        conds3, events3 = conds2, events2
                    else:
                        if not feasible(conds2, ret, cnd, events2):
                            continue
                        conds3 = conds2 + [(ret, cnd, bb)]
                        events3 = events2 + [("cond", bb, None, ret, cnd)]
                    env3 = dict(env2)
                    val = ret_fork(tv)
                    caller._assign(env3, dest, val)
                    caller._walk(target, env3, conds3, trace2, events3 + [("inlined-return", bb, None, path, val)], onpath)
                return
            if ret_wrap is not None:
                ret = ret_wrap(ret)
            caller._assign(env2, dest, ret)
            caller._walk(target, env2, conds2, trace2, events2 + [("inlined-return", bb, None, path, ret)], onpath)

        child.cont = cont
        child._walk(0, cenv, conds, trace, events + [("inlined-call", bb, None, path, ("call", path, args, bb), t)], frozenset())

    def _track_ref(self, env, dest, rv):
        """Remember which local a `&mut` temporary points at (side table inside env)."""
        dk = "@ref:" + pp.place_s(dest)
        env.pop(dk, None)
        if rv["k"] in ("ref", "rawptr") and rv["mut"]:
            p = rv["place"]
            if not any(e["k"] == "deref" for e in p["proj"]):
                env[dk] = pp.place_s(p)
            elif len(p["proj"]) == 1 and ("@ref:_%d" % p["local"]) in env:
                env[dk] = env["@ref:_%d" % p["local"]]  # reborrow &mut *r
            elif self.versioned and p["proj"][0]["k"] == "deref" and 1 <= p["local"] <= self.fn.nargs and not any(e["k"] == "deref" for e in p["proj"][1:]):
                env[dk] = pp.place_s(p)  # &mut (*arg) or &mut (*arg).field
                if self.frame:
                    env["@place:" + pp.place_s(p)] = p      # inside an inlined callee: remember the place itself (see _havoc_key)
        elif rv["k"] == "use" and rv["op"]["k"] in ("copy", "move"):
            sk = "@ref:" + pp.place_s(rv["op"]["place"])
            if sk in env:
                env[dk] = env[sk]

    def _havoc_mut(self, env, a, path):
        """A callee that receives `&mut local` may change it: wrap the stored term."""
        if a["k"] not in ("copy", "move"):
            return
        sk = "@ref:" + pp.place_s(a["place"])
        key = env.get(sk)
        if not key and self.versioned and a["k"] in ("copy", "move") and not a["place"]["proj"] and 1 <= a["place"]["local"] <= self.fn.nargs:
            ty = self.fn.locals[a["place"]["local"]]["ty"]
            if ty.get("k") == "ref" and ty.get("mut"):
                key = "(*_%d)" % a["place"]["local"]  # the &mut argument itself is handed on
        if not key:
            return
        self._havoc_key(env, key, path)

    def _havoc_key(self, env, key, path):
        if key.startswith("(*_"):
            root = key[3:].split(")")[0]
            if key == "(*_%s)" % root:
                env["@ver:_%s" % root] = env.get("@ver:_%s" % root, 0) + 1
                for k in [k for k in env if k.startswith("(*_%s)" % root)]:
                    del env[k]
                if self.frame and ("_%s" % root) in env:
                    # inside a frame the parameter is bound to the caller's term: rebind it to a fresh one
                    _FRESH[0] += 1
                    cur = env["_%s" % root]
                    env["_%s" % root] = ("argv", cur[1] if cur[0] in ("arg", "argv") else ("of", cur), "f%d" % _FRESH[0])
            else:
                cur = env.get(key)
                if cur is None and self.frame and ("@place:" + key) in env:
                    # inside an inlined callee the parameter is bound to the caller's term: name the object as the caller
                    # does (self.outbox.in_flight), not relative to this frame's `self`
                    cur = self.read_place(env, env["@place:" + key])
                for k in [k for k in env if k.startswith(key + ".") or k.startswith(key + "[")]:
                    del env[k]
                env[key] = ("mut", cur if cur is not None else ("place", key, env.get("@ver:_%s" % root, 0)), path)
            return
        hit = False
        for k in [k for k in env if not k.startswith("@") and (k == key or k.startswith(key + "."))]:
            env[k] = ("mut", env[k], path)
            hit = True
        if not hit:
            base = ("var", key)
            if key.startswith("_") and key[1:].isdigit():
                l = int(key[1:])
                base = ("arg", l) if 1 <= l <= self.fn.nargs and not self.frame else ("var", ("%s:%d" % (self.frame, l)) if self.frame else l)
            env[key] = ("mut", base, path)


_KNOWN = None


def known_fns():
    """Functions that existed when the rules were written (frozen list).  Rules name some of them as
    anchors; any crate-local function NOT in this list is a later addition and is traversed inline."""
    global _KNOWN
    if _KNOWN is None:
        import json
        import os
        with open(os.path.join(os.path.dirname(__file__), "known_fns.json")) as fh:
            _KNOWN = set(json.load(fh))
    return _KNOWN


def root_key_of_term(t):
    """Place key in the root function's namespace of the location a term denotes: (*_n).field.field ..., else None."""
    if t[0] == "deref" and t[1][0] in ("arg", "argv") and isinstance(t[1][1], int):
        return "(*_%d)" % t[1][1]
    if t[0] == "field" and t[3] is not None:
        b = root_key_of_term(t[1])
        return None if b is None else "%s.%s" % (b, t[3])
    return None


def term_place_key(t):
    if t[0] == "var":
        return "_%d" % t[1]
    if t[0] == "arg":
        return "_%d" % t[1]
    return None


def fold_bin(op, a, b):
    if a[0] == "const" and b[0] == "const" and isinstance(a[1], int) and isinstance(b[1], int):
        x, y = a[1], b[1]
        if op == "Eq":
            return ("const", x == y)
        if op == "Ne":
            return ("const", x != y)
        if op == "Lt":
            return ("const", x < y)
        if op == "Le":
            return ("const", x <= y)
        if op == "Gt":
            return ("const", x > y)
        if op == "Ge":
            return ("const", x >= y)
    if op in ("BitOr", "BitAnd") and a[0] == "const" and b[0] == "const" and isinstance(a[1], int) and isinstance(b[1], int):
        return ("const", (a[1] | b[1]) if op == "BitOr" else (a[1] & b[1]))
    return ("bin", op, a, b)


_VARIANT_KEEPING = (
    "std::option::Option::<T>::as_ref", "std::option::Option::<T>::as_mut", "std::option::Option::<T>::as_deref",
    "std::option::Option::<T>::as_deref_mut", "std::result::Result::<T, E>::as_ref", "std::result::Result::<T, E>::as_mut",
)


def _under_map_err(x):
    """x with `Result::map_err(.., f)` layers removed (they keep the variant)."""
    while x[0] == "call" and x[1] == "std::result::Result::<T, E>::map_err" and len(x[2]) == 2:
        x = x[2][0]
    return x


def _discr_subject(t):
    """For discr(as_ref(&X)) / discr(as_mut(&mut X)) / discr(X): X.  These adapters keep the variant."""
    if t[0] != "discr":
        return None
    x = t[1]
    while True:
        if x[0] in ("ref", "deref"):
            x = x[1]
        elif x[0] == "call" and x[1] in _VARIANT_KEEPING and len(x[2]) == 1:
            x = x[2][0]
        elif x[0] == "call" and x[1] == "std::result::Result::<T, E>::map_err" and len(x[2]) == 2:
            x = x[2][0]      # Ok stays Ok, Err stays Err
        else:
            return x


def _touched_between(events, cond_term, subj):
    """After the event that recorded the earlier condition on cond_term: is `&mut` to the subject (or to
    something containing it) handed to a callee that may change its variant?"""
    start = None
    for i, e in enumerate(events):
        if e[0] == "cond" and e[3] == cond_term:
            start = i
    if start is None:
        return True
    for e in events[start + 1:]:
        if e[0] not in ("call", "inlined-call") or e[3] in _VARIANT_KEEPING:
            continue
        for a in e[4][2]:
            x = a
            if x[0] == "ref" and x[2]:
                y = x[1]
                while y[0] in ("ref", "deref"):
                    y = y[1]
                if y == subj or any(s == y for s in subterms(subj) if isinstance(s, tuple)):
                    return True
            elif x[0] in ("arg", "argv") and any(s == x for s in subterms(subj) if isinstance(s, tuple)):
                return True
    return False


def feasible(conds, term, c, events=None):
    """Does condition c on `term` contradict an earlier condition on the *same* term -- or, for the
    discriminant of an Option/Result, on the same value seen through as_ref()/as_mut() with nothing in
    between that could have changed it?"""
    subj = _discr_subject(term) if events is not None else None
    for (t, c0, _bb) in conds:
        if t != term:
            if subj is None or t[0] != "discr" or _discr_subject(t) != subj or _touched_between(events, t, subj):
                continue
        if c0[0] == "eq" and c[0] == "eq" and c0[1] != c[1]:
            return False
        if c0[0] == "eq" and c[0] == "ne" and c0[1] in c[1]:
            return False
        if c0[0] == "ne" and c[0] == "eq" and c[1] in c0[1]:
            return False
    return True
