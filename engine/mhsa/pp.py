"""Pretty-printer for the fact file (debugging aid and report text)."""
import json, sys


def place_s(p):
    s = "_%d" % p["local"]
    for e in p["proj"]:
        k = e["k"]
        if k == "deref":
            s = "(*%s)" % s
        elif k == "field":
            s = "%s.%s" % (s, e["name"])
        elif k == "downcast":
            s = "(%s as %s)" % (s, e["variant"])
        elif k == "index":
            s = "%s[_%d]" % (s, e["local"])
        elif k == "constidx":
            s = "%s[%s%d of %d]" % (s, "-" if e["from_end"] else "", e["offset"], e["min_len"])
        elif k == "subslice":
            s = "%s[%d..%s%d]" % (s, e["from"], "-" if e["from_end"] else "", e["to"])
        else:
            s = "%s.<%s>" % (s, k)
    return s


def val_s(v):
    if v is None:
        return "?"
    k = v.get("k")
    if k in ("int", "bool", "char"):
        return str(v["v"])
    if k == "str":
        return json.dumps(v["v"])
    if k == "bytes":
        try:
            return "b" + json.dumps(bytes.fromhex(v["hex"]).decode("latin-1"))
        except Exception:
            return "bytes:" + v["hex"]
    if k == "fn":
        return "fn " + v["full"]
    if k == "zst":
        return "zst"
    if k == "enum":
        return "%s::%s" % (v["adt"], v["variant"])
    return "<%s>" % k


def op_s(o):
    k = o["k"]
    if k == "copy":
        return place_s(o["place"])
    if k == "move":
        return "move " + place_s(o["place"])
    if k == "const":
        s = "const " + val_s(o.get("val"))
        if "item" in o:
            s += " {%s}" % o["item"]
        return s
    return "<%s>" % k


def rv_s(rv):
    k = rv["k"]
    if k == "use":
        return op_s(rv["op"])
    if k == "ref":
        return ("&mut " if rv["mut"] else "&") + place_s(rv["place"])
    if k == "rawptr":
        return ("&raw mut " if rv["mut"] else "&raw const ") + place_s(rv["place"])
    if k == "binop":
        return "%s(%s, %s)" % (rv["op"], op_s(rv["l"]), op_s(rv["r"]))
    if k == "unop":
        return "%s(%s)" % (rv["op"], op_s(rv["arg"]))
    if k == "cast":
        return "%s as %s [%s]" % (op_s(rv["op"]), rv["ty"]["s"], rv["kind"])
    if k == "discr":
        return "discriminant(%s)" % place_s(rv["place"])
    if k == "aggregate":
        a = rv["agg"]
        ops = ", ".join(op_s(o) for o in rv["ops"])
        if a == "adt":
            return "%s::%s{%s}" % (rv["adt"], rv["variant"], ops)
        if a == "closure":
            return "closure %s{%s}" % (rv["path"], ops)
        return "%s(%s)" % (a, ops)
    if k == "repeat":
        return "[%s; %s]" % (op_s(rv["op"]), rv["n"])
    return "<%s %s>" % (k, rv.get("s", ""))


def callee_s(c):
    if c.get("how") == "fnptr":
        return "fnptr " + op_s(c["op"])
    s = c.get("full") or c.get("path") or "?"
    r = c.get("resolved")
    if r and r["path"] != c.get("path"):
        s += " => " + r["path"]
    return s


def term_s(t):
    k = t["k"]
    if k == "goto":
        return "goto bb%d" % t["target"]
    if k == "switch":
        return "switch %s [%s, otherwise bb%d]" % (
            op_s(t["discr"]),
            ", ".join("%d: bb%d" % (v, b) for v, b in t["targets"]),
            t["otherwise"],
        )
    if k == "call":
        return "%s = %s(%s) -> %s unwind %s" % (
            place_s(t["dest"]),
            callee_s(t["callee"]),
            ", ".join(op_s(a) for a in t["args"]),
            "bb%d" % t["target"] if t["target"] is not None else "!",
            t["unwind"],
        )
    if k == "assert":
        m = t["msg"]
        return "assert(%s == %s, %s) -> bb%d" % (op_s(t["cond"]), t["expected"], m["k"], t["target"])
    if k == "drop":
        return "drop(%s) -> bb%d" % (place_s(t["place"]), t["target"])
    return k


def fn_s(name, f):
    out = ["fn %s  [%s %s]  %s:%d-%d  args=%d" % (name, f["vis"], f["kind"], f["span"]["file"], f["span"]["lo"], f["span"]["hi"], f["arg_count"])]
    for i, l in enumerate(f["locals"]):
        out.append("    let _%d: %s%s" % (i, l["ty"]["s"], "  // " + l["name"] if l["name"] else ""))
    for bi, b in enumerate(f["blocks"]):
        out.append("  bb%d%s:" % (bi, " (cleanup)" if b["cleanup"] else ""))
        for s in b["stmts"]:
            if s["k"] == "assign":
                out.append("    %s = %s    // L%d%s" % (place_s(s["place"]), rv_s(s["rv"]), s["span"]["lo"], " " + s["span"]["exp"] if s["span"]["exp"] else ""))
            else:
                out.append("    %s %s" % (s["k"], place_s(s["place"]) if "place" in s else s.get("s", "")))
        t = b["term"]
        out.append("    %s    // L%d%s" % (term_s(t), t["span"]["lo"], " " + t["span"]["exp"] if t["span"]["exp"] else ""))
    return "\n".join(out)


if __name__ == "__main__":
    facts = json.load(open(sys.argv[1]))
    pats = sys.argv[2:]
    for name, f in facts["fns"].items():
        if not pats or any(p in name for p in pats):
            print(fn_s(name, f))
            print()
