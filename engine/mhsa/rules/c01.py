"""C01 -- delivered requests depend only on the byte stream, not on how reads split it."""
from ..core import AnalysisError, term_s, subterms
from . import conn
from .c06 import fifo
from .conn import leaves, ret_kind, self_field
from .util import as_sum, payload_of, const_of, is_call, last_seg, look, norm, truth, option_is_some

EXPLANATION = (
    "Static decision of the carry-over mechanism that makes parsing independent of segmentation: a "
    "read that fails (would-block / interrupted) reaches the caller without any write to the connection "
    "(only the receive window buffer[read_cursor..] is lent to the receive call); the parser loop returns "
    "Ok only when a sub-parser asked for more bytes, and every such path writes the carry-over cursor: to "
    "end - start together with a copy loop that moves buffer[start + i] to buffer[i] for i in 0..end-start "
    "(index terms reconstructed from MIR), or to 0 on the partial-body path after the bytes "
    "buffer[start..end] were appended to the body; the completing body path appends exactly "
    "buffer[start..start + remaining] and advances the line start by that amount; the next receive "
    "appends at the cursor; the parsed-request queue is mutated only by push_back / pop_front; the parser's fields are written only "
    "by code that runs under try_read and by constructors. "
    "Decides these clauses; equality of results across all segmentations is not decided."
)
TRUSTED = ["a failed recvmsg stores nothing", "for i in a..b iterates a, a+1, .., b-1"]
ASSUMPTIONS = []
NOT_DECIDED = "equality of delivered requests over all segmentations (relation over buffer contents and every cut position)"


def run(ctx):
    ctx.rule("R01.1", "a failed receive reaches the caller with no write to the connection")
    ctx.rule("R01.2", "Ok is returned only when a sub-parser wants more bytes, and every such path writes the carry-over cursor")
    ctx.rule("R01.3", "the cursor value is end - start (with the unconsumed bytes copied to the front) or 0 (partial body, bytes appended)")
    ctx.rule("R01.4", "the parsed-request queue is mutated only by push_back / pop_front")
    ctx.rule("R01.5", "body bytes: partial path appends buffer[start..end]; completing path appends buffer[start..start+remaining] and advances by it; the body is the first content_length accumulated bytes")
    ctx.rule("R01.6", "the receive appends at the cursor: window buffer[read_cursor..], new end = bytes_read + read_cursor")
    ctx.guarded("R01.1", "empty-read", lambda: empty_read(ctx))
    ctx.guarded("R01.2", "cursor-defined", lambda: cursor_defined(ctx))
    ctx.guarded("R01.3", "shift", lambda: shift(ctx))
    ctx.guarded("R01.4", "fifo", lambda: fifo(ctx, "R01.4", "parsed_requests", {"push_back", "pop_front"}, floor=2))
    ctx.guarded("R01.5", "body", lambda: body(ctx))
    ctx.guarded("R01.6", "window", lambda: window(ctx))
    ctx.rule("R01.7", "line ends are found with find(buffer[start..end], CRLF) = first occurrence, and the slices handed to the line parsers / the advance of the line start are exact (= C02 R02.5, C14 R14.1 find shape)")
    from .c06 import _Remap
    from . import c02, c14
    ctx.guarded("R01.7", "lines", lambda: c02.lines(_Remap(ctx, "R01.7")))
    ctx.guarded("R01.7", "find", lambda: c14.find_shape(_Remap(ctx, "R01.7")))
    ctx.rule("R01.10", "the parser's state (state, pending request, cursor, body accumulator and counter, received files, buffer) and Request.files are written only by the read side: try_read and what it calls, and the constructors")
    ctx.guarded("R01.10", "read-side-owns", lambda: read_side_owns(ctx, "R01.10"))
    ctx.rule("R01.9", "the too-long-line test does not depend on where a read ended inside the line: start == 0 && end == BUFFER_SIZE (= C04 R04.3)")
    from . import c04
    ctx.guarded("R01.9", "line-limit", lambda: c04.line_limit(_Remap(ctx, "R01.9")))
    ctx.rule("R01.8", "a completed request is queued at once (RequestReady arm pushes onto parsed_requests), so requests preceding an error are still delivered")
    ctx.guarded("R01.8", "queue-on-completion", lambda: queue_on_completion(ctx, "R01.8"))


def empty_read(ctx):
    n = 0
    fr, lr = conn.receive_leaves(ctx)
    for lf in lr:
        rc = conn.os_receive_calls(lf)
        if not rc:
            continue
        from .util import result_outcome
        failed = result_outcome(lf, rc[0][4]) == "err"
        if failed:
            n += 1
            eff = conn.self_effects(ctx, lf, allow=("recv_with_fds", "index_mut"))
            rk = ret_kind(lf)
            ctx.ob("R01.1", "read_bytes|failed|no-effect", not eff and rk is not None and rk[0] in ("prop", "Err"), "failed receive: read_bytes returns the error (not a made-up end index) without touching the connection (effects: %s, returns %s)" % (eff, rk[0] if rk else None), fr.loc(lf.bb))
    loopfn = conn.parse_loop_fn(ctx)
    fl, ll = leaves(ctx, loopfn)
    for lf in ll:
        rb = [e for e in lf.events if e[0] == "call" and e[3] == conn.READ_BYTES]
        if not rb:
            ctx.fail("R01.1", "loop|no-read", "a path of the parser loop does not start with read_bytes", fl.loc(lf.bb))
            continue
        failed = any(t[0] == "discr" and is_call(t[1], "branch") and norm(look(t[1][2][0])) == norm(rb[0][4]) and c == ("eq", 1) for (t, c, _b) in lf.conds)
        if failed:
            n += 1
            eff = conn.self_effects(ctx, lf, allow=("read_bytes",))
            ctx.ob("R01.1", "loop|failed|no-effect", not eff and ret_kind(lf)[0] == "prop", "failed receive: the parser loop returns at once (effects: %s)" % eff, fl.loc(lf.bb))
        first_mut = conn.self_effects(ctx, lf)
        ctx.ob("R01.1", "loop|read-first|bb%s" % lf.trace[-2], first_mut and first_mut[0][1] == conn.READ_BYTES, "the first thing the parser loop does to the connection is read_bytes", fl.loc(lf.bb))
    if loopfn != conn.TRY_READ:
        ft, lt = leaves(ctx, conn.TRY_READ, lower=True)   # closures given to map_err / or_else are code of try_read
        for lf in lt:
            calls_loop = [e for e in lf.events if e[0] == "call" and e[3] == loopfn]
            eff = conn.self_effects(ctx, lf, allow=(last_seg(loopfn),))
            from .c11 import refine_can_be_parse_error
            from ..shapes import Shapes
            can_pe = refine_can_be_parse_error(ctx.facts, Shapes(ctx.facts), ft, lf)
            if not can_pe:
                ctx.ob("R01.1", "try_read|non-parse-error|no-extra-effect", not eff and len(calls_loop) == 1, "unless a ParseError is returned, try_read adds no effect of its own (effects: %s)" % eff, ft.loc(lf.bb))
            elif eff:
                # an effect of try_read's own (the parser reset) needs the error to be *known* to be a ParseError on this path
                pe = [d for d, nm in ctx.facts.variant_discr("common::ConnectionError").items() if nm == "ParseError"][0]
                known_pe = False
                for (t, c, _b) in lf.conds:
                    if t[0] != "discr":
                        continue
                    x = look(t[1])
                    if x[0] == "field" and x[1][0] == "downcast" and x[1][2] == "Err" and calls_loop and norm(look(x[1][1])) == norm(calls_loop[0][4]) and c == ("eq", pe):
                        known_pe = True
                ctx.ob("R01.1", "try_read|effect-only-on-parse-error", known_pe, "try_read touches the connection itself (%s) only on a path where the error was tested to be a ParseError: a would-block read must leave the carried-over bytes alone" % [e[1].split("::")[-1] for e in eff], ft.loc(lf.bb))
    ctx.ob("R01.1", "floor", n >= 2, "%d failed-receive paths inspected (floor 2: in read_bytes and in the parser loop)" % n)


def cursor_defined(ctx):
    facts = ctx.facts
    loopfn = conn.parse_loop_fn(ctx)
    # one extra turn of the loop: `while more { more = match state {..} }` leaves at the loop head, after the iteration that said "no more"
    fl, ll = leaves(ctx, loopfn, unroll=True)
    n = 0
    for lf in ll:
        rk = ret_kind(lf)
        if rk is None or rk[0] != "Ok":
            continue
        n += 1
        # which sub-parser said "false"
        src = None
        for (t, c, _b) in lf.conds:
            x = look(t)
            if payload_of(x) is not None and is_call(payload_of(x), conn.PARSE_RL, conn.PARSE_H, conn.PARSE_B) and truth(c) is False:
                src = payload_of(x)[1]
        ctx.ob("R01.2", "ok-only-on-need-more|%s" % (src.split("::")[-1] if src else "?"), src is not None, "the parser loop returns Ok only when a sub-parser returned false (needs more bytes)", fl.loc(lf.bb))
    ctx.ob("R01.2", "floor", n >= 3, "%d Ok exits of the parser loop (floor 3)" % n)
    fs, ls = leaves(ctx, conn.SHIFT)
    shift_ok = True
    for lf in ls:
        rk = ret_kind(lf)
        if rk is not None and rk[0] == "Ok":
            a = conn.assigns_to(lf, "read_cursor")
            shift_ok = shift_ok and len(a) == 1
    ctx.ob("R01.2", "shift|writes-cursor-on-every-ok", shift_ok, "shift_buffer_left assigns the cursor on every Ok path", fs.loc(0))
    for name in (conn.PARSE_RL, conn.PARSE_H, conn.PARSE_B):
        fn, lv = leaves(ctx, name)
        m = 0
        for lf in lv:
            rk = ret_kind(lf)
            if rk is None or rk[0] != "Ok" or look(rk[1]) != ("const", False):
                continue
            m += 1
            a = conn.assigns_to(lf, "read_cursor")
            sh = [e for e in lf.events if e[0] == "call" and e[3] == conn.SHIFT]
            ok = bool(a) or (len(sh) == 1 and shift_ok)
            ctx.ob("R01.2", "%s|need-more-writes-cursor" % name.split("::")[-1], ok, "%s returning false writes the carry-over cursor (%s)" % (name.split("::")[-1], "directly" if a else "via shift_buffer_left" if sh else "NOT AT ALL"), fn.loc(lf.bb))
            for e in sh:
                args = e[4][2]
                ok2 = look(args[0]) == ("arg", 1) and look(args[1]) in (("deref", ("arg", 2)), ("arg", 2)) and look(args[2]) == ("arg", 3)
                ctx.ob("R01.3", "%s|shift-args" % name.split("::")[-1], ok2, "shift_buffer_left(self, line start, end) is called with this call's own start and end", fn.loc(e[1]))
        ctx.ob("R01.2", "%s|floor" % name.split("::")[-1], m >= 1, "%d need-more path(s) in %s" % (m, name.split("::")[-1]))


def shift(ctx):
    fn, lv = leaves(ctx, conn.SHIFT)

    def delta(t):
        cs = payload_of(t)
        return cs is not None and is_call(cs, "checked_sub") and look(cs[2][0]) == ("arg", 3) and look(cs[2][1]) == ("arg", 2)

    def range_item(t, lo_pred, hi_pred):
        """t = (next(&mut into_iter(Range{lo,hi})) as Some).0"""
        t = look(t)
        if not (payload_of(t) is not None and is_call(payload_of(t), "next")):
            return False
        it = look(payload_of(t)[2][0])
        while it[0] == "mut":
            it = look(it[1])
        if is_call(it, "into_iter"):
            it = look(it[2][0])
        return it[0] == "agg" and it[1].startswith("std::ops::Range") and len(it[3]) == 2 and lo_pred(it[3][0]) and hi_pred(it[3][1])

    seen = set()
    for lf in lv:
        rk = ret_kind(lf)
        if rk is not None and rk[0] == "Ok":
            a = conn.assigns_to(lf, "read_cursor")
            ok = len(a) == 1 and delta(a[0][4])
            ctx.ob("R01.3", "cursor=end-start", ok, "read_cursor := checked_sub(end, start) on every Ok path", fn.loc(lf.bb))
        # the same two block operations written with the slice methods of std
        for e in lf.events:
            if e[0] == "call" and last_seg(e[3]) == "copy_within" and self_field(e[4][2][0], "buffer"):
                seen.add("copy")
                r = look(e[4][2][1])
                okc = r[0] == "agg" and r[1].startswith("std::ops::Range") and len(r[3]) == 2 and look(r[3][0]) == ("arg", 2) and look(r[3][1]) == ("arg", 3) and const_of(e[4][2][2]) == 0
                ctx.ob("R01.3", "copy-loop", okc, "buffer.copy_within(start..end, 0): the unconsumed bytes are moved to the front", fn.loc(e[1]))
            elif e[0] == "call" and last_seg(e[3]) == "fill" and e[3].startswith("core::slice"):
                tgt = look(e[4][2][0])
                while tgt[0] == "mut":
                    tgt = look(tgt[1])
                if is_call(tgt, "index_mut") and self_field(tgt[2][0], "buffer"):
                    seen.add("zero")
                    r = look(tgt[2][1])
                    okz = r[0] == "agg" and r[1].startswith("std::ops::Range") and len(r[3]) == 2 and delta(r[3][0]) and look(r[3][1]) == ("arg", 3) and const_of(e[4][2][1]) == 0
                    ctx.ob("R01.3", "clear-loop", okz, "buffer[end-start..end].fill(0): only bytes after the carried prefix are cleared", fn.loc(e[1]))
            elif e[0] == "call" and last_seg(e[3]) in ("copy_from_slice", "clone_from_slice", "rotate_left", "rotate_right", "swap_with_slice", "fill_with", "reverse", "swap") and e[4][2] and any(isinstance(x, tuple) and x and x[0] == "field" and x[3] == "buffer" and x[2] == conn.HC for x in subterms(e[4][2][0])):
                ctx.fail("R01.3", "buffer-write|unrecognised", "shift_buffer_left changes the buffer with %s, which is neither the move to the front nor the clearing" % last_seg(e[3]), fn.loc(e[1]))
        if lf.kind == "loop":
            w = [e for e in lf.events if e[0] == "assign" and e[5] is not None and e[5][0] == "index" and self_field(e[5][1], "buffer")]
            for e in w[-1:]:
                dst = e[5][2]
                val = look(e[4])
                if val[0] == "index" and self_field(val[1], "buffer"):
                    seen.add("copy")
                    src = look(val[2])
                    ok_dst = range_item(dst, lambda x: const_of(x) == 0, delta)
                    sm = as_sum(src)
                    ok_src = sm is not None and ((look(sm[0]) == ("arg", 2) and norm(look(sm[1])) == norm(look(dst))) or (look(sm[1]) == ("arg", 2) and norm(look(sm[0])) == norm(look(dst))))
                    moved = conn.atom_truth(lf, lambda t: t[0] == "bin" and t[1] == "Ne" and look(t[2]) == ("arg", 2) and const_of(t[3]) == 0)
                    ctx.ob("R01.3", "copy-loop", ok_dst and ok_src and moved is True, "for i in 0..end-start: buffer[i] = buffer[start + i], only when start != 0 (dst %s, src %s, guard %s)" % (ok_dst, ok_src, moved), fn.loc(e[1]))
                elif val == ("const", 0):
                    seen.add("zero")
                    ok_dst = range_item(dst, delta, lambda x: look(x) == ("arg", 3))
                    ctx.ob("R01.3", "clear-loop", ok_dst, "for i in end-start..end: buffer[i] = 0 (only bytes after the carried prefix are cleared)", fn.loc(e[1]))
                else:
                    ctx.fail("R01.3", "buffer-write|unrecognised", "shift_buffer_left writes the buffer with something that is neither the copy nor the clearing loop", fn.loc(e[1]))
    ctx.ob("R01.3", "loops-found", seen == {"copy", "zero"}, "loops recognised in shift_buffer_left: %s" % sorted(seen), fn.loc(0))


def body(ctx):
    """R01.5, decided by the shape of today's code and, where that shape is not there, by linear arithmetic over the path's
    tests (body_lin): each is sufficient; a violation is reported when neither establishes the clauses."""
    from .c06 import _Rec
    a = _Rec(ctx)
    try:
        _body_shape(a)
    except AnalysisError as e:
        a.fail("R01.5", "cannot-establish|shape", str(e))
    if not a.failed():
        return a.replay(ctx)
    b = _Rec(ctx)
    try:
        body_lin(b)
    except AnalysisError as e:
        b.fail("R01.5", "cannot-establish|arithmetic", str(e))
    if not b.failed() or len(b.failed()) < len(a.failed()):
        b.replay(ctx)
        ctx.ob("R01.5", "decided-by-arithmetic", True, "parse_body does not have today's shape (%d clause(s) not matched); decided by linear arithmetic over the path's tests" % len(a.failed()))
        return
    a.replay(ctx)
    for (rule, key, ok, msg, loc, witness) in b.failed():
        ctx.ob(rule, "arithmetic|" + key, ok, "(arithmetic form) " + msg, loc, witness)


def read_side_owns(ctx, rule, fields=("state", "pending_request", "read_cursor", "body_vec", "body_bytes_to_be_read", "files", "buffer"), request_files=True):
    """Who may write the parser's state: only code that runs under try_read (and the constructor).  A buffer released when
    a request is popped, descriptors adopted by the request while its body is still arriving -- any writer elsewhere
    changes what a later read finds, whatever its intention."""
    from .fields import field_writers
    from .util import writer_roots
    facts = ctx.facts
    loopfn = conn.parse_loop_fn(ctx)
    read_side = {conn.P + "new", conn.P + "try_read", loopfn, conn.PARSE_RL, conn.PARSE_H, conn.PARSE_B, conn.READ_BYTES, conn.RECV, conn.SHIFT, conn.P + "reset_parser"}
    n = 0
    for f_ in fields:
        for w in field_writers(facts, conn.HC, f_):
            n += 1
            roots = writer_roots(facts, w[0])
            if w[3] == "construct":
                continue        # a literal builds a new connection (another constructor); it does not touch an existing one
            ctx.ob(rule, "read-side-owns|%s|%s" % (f_, w[0]), roots <= read_side, "HttpConnection.%s is written (%s) in %s, on behalf of %s: only the read side (try_read and what it calls) and the constructor may" % (f_, w[3], w[0], sorted(roots)), w[2])
    if request_files:
        allowed = {conn.PARSE_RL, loopfn, "request::Request::try_from", conn.P + "reset_parser"}    # the reset may move the files into the request it drops
        for w in field_writers(facts, "request::Request", "files"):
            n += 1
            roots = writer_roots(facts, w[0])
            ctx.ob(rule, "read-side-owns|Request.files|%s" % w[0], roots <= allowed, "Request.files is written (%s) in %s, on behalf of %s: only where a request is created and at the hand-over on completion" % (w[3], w[0], sorted(roots)), w[2])
    floor = 14 if len(fields) >= 7 else 4
    ctx.ob(rule, "read-side-owns|floor", n >= floor, "%d writers of the parser's fields inspected (floor %d)" % (n, floor))


def _body_taken(lf):
    """The request's body is the first content_length bytes of body_vec and body_vec keeps the rest:
    `body_vec.drain(..cl)` (collected), or `let rest = body_vec.split_off(cl); mem::replace(&mut body_vec, rest)`."""
    def is_cl(t):
        t = look(t)
        return t[0] == "cast" and is_call(look(t[1]), "common::headers::Headers::content_length")
    dr = [e for e in lf.events if e[0] == "call" and last_seg(e[3]) == "drain" and self_field(e[4][2][0], "body_vec")]
    if len(dr) == 1:
        r = look(dr[0][4][2][1])
        return r[0] == "agg" and r[1].startswith("std::ops::RangeTo") and not r[1].startswith("std::ops::RangeToInclusive") and is_cl(r[3][0])
    tk = [e for e in lf.events if e[0] == "call" and e[3] in ("std::mem::take", "core::mem::take") and self_field(e[4][2][0], "body_vec")]
    if not dr and len(tk) == 1:
        # the whole accumulator moved out: it is "the first content_length bytes, nothing left" exactly when the path
        # established len(body_vec) == content_length before
        for (t, c, _bb) in lf.conds:
            t = look(t)
            if t[0] == "bin" and t[1] in ("Eq", "Ne") and truth(c) is not None and (truth(c) == (t[1] == "Eq")):
                for a, b in ((t[2], t[3]), (t[3], t[2])):
                    la = look(a)
                    if is_call(la, "len") and self_field(la[2][0], "body_vec") and is_cl(b):
                        return True
        return False
    so = [e for e in lf.events if e[0] == "call" and last_seg(e[3]) == "split_off" and "Vec" in e[3] and self_field(e[4][2][0], "body_vec")]
    rp = [e for e in lf.events if e[0] == "call" and e[3] in ("std::mem::replace",) and self_field(e[4][2][0], "body_vec")]
    if not dr and len(so) == 1 and len(rp) == 1 and is_cl(so[0][4][2][1]):
        put = look(rp[0][4][2][1])
        while put[0] == "mut":
            put = look(put[1])
        return norm(put) == norm(so[0][4]) and lf.events.index(so[0]) < lf.events.index(rp[0])
    return False


def body_lin(ctx):
    """With REM = the remaining-bytes counter on entry, AVAIL = end - start:
    returning false (more needed): REM > AVAIL is established, buffer[start..end] is appended (or is empty), the counter
    becomes REM - AVAIL and the cursor 0;  returning true: REM <= AVAIL is established, buffer[start..start+REM] is
    appended and the line start advances to start + REM."""
    from ..lin import Lin, State
    from ..panics import Tr
    facts = ctx.facts
    fn, lv = leaves(ctx, conn.PARSE_B, lower=True)
    REMT = ("field", ("deref", ("arg", 1)), conn.HC, "body_bytes_to_be_read")
    seen = set()

    def bounds(tr, t):
        """(lo, hi) of a slice of self.buffer as linear expressions; nested slicings add up"""
        t = look(t)
        if not is_call(t, "index"):
            return None
        if self_field(t[2][0], "buffer"):
            lo, hi = Lin.const(0), None
        else:
            inner = bounds(tr, t[2][0])
            if inner is None:
                return None
            lo, hi = inner
        r = look(t[2][1])
        if r[0] != "agg":
            return None
        kind = r[1].split("<")[0]
        if kind == "std::ops::Range" and len(r[3]) == 2:
            return lo + tr.lin(r[3][0]), lo + tr.lin(r[3][1])
        if kind == "std::ops::RangeTo" and len(r[3]) == 1:
            return lo, lo + tr.lin(r[3][0])
        if kind == "std::ops::RangeFrom" and len(r[3]) == 1:
            return lo + tr.lin(r[3][0]), hi
        return None

    for lf in lv:
        rk = ret_kind(lf)
        if rk is None or rk[0] != "Ok":
            continue
        st = State()
        tr = Tr(facts, fn, st)
        for e in lf.events:
            if e[0] == "cond":
                tr.assume_cond(e[3], e[4])
        START, END, REM = tr.lin(("deref", ("arg", 2))), tr.lin(("arg", 3)), tr.lin(REMT)
        AVAIL = END - START
        st.sharpen()
        if st.inconsistent():
            continue
        ext = [e for e in lf.events if e[0] == "call" and last_seg(e[3]) == "extend_from_slice" and self_field(e[4][2][0], "body_vec")]
        sl = bounds(tr, ext[0][4][2][1]) if len(ext) == 1 else None
        loc = fn.loc(lf.bb)
        if look(rk[1]) == ("const", False):
            seen.add("partial")
            more = st.entails_le(AVAIL + Lin.const(1) - REM)
            ok = more and sl is not None and sl[1] is not None and st.entails_eq(sl[0] - START) and st.entails_eq(sl[1] - END)
            cur = conn.assigns_to(lf, "read_cursor")
            okc = len(cur) == 1 and cur[0][4] == ("const", 0)
            rem = conn.assigns_to(lf, "body_bytes_to_be_read")
            okr = len(rem) == 1 and st.entails_eq(tr.lin(rem[0][4]) - REM + AVAIL)
            if more and not ext and not rem and st.entails_eq(AVAIL):
                ok, okr = True, True        # nothing to append: the window is empty
            ctx.ob("R01.5", "partial|append-all-and-restart", ok and okc, "partial body (REM > end - start established: %s): buffer[start..end] is appended and the cursor restarts at 0 (append %s, cursor %s)" % (more, ok, okc), loc)
            ctx.ob("R01.5", "partial|remaining-decreased", okr, "the remaining-bytes counter becomes REM - (end - start)", loc)
        elif look(rk[1]) == ("const", True):
            seen.add("complete")
            fits = st.entails_le(REM - AVAIL)
            ok = fits and sl is not None and sl[1] is not None and st.entails_eq(sl[0] - START) and st.entails_eq(sl[1] - START - REM)
            adv = [e for e in lf.events if e[0] == "assign" and e[3] == "(*_2)"]
            oka = len(adv) == 1 and st.entails_eq(tr.lin(adv[0][4]) - START - REM)
            okd = _body_taken(lf)
            sta = conn.assigns_to(lf, "state")
            oks = len(sta) == 1 and sta[0][4][0] == "agg" and sta[0][4][2] == "RequestReady"
            ctx.ob("R01.5", "complete|append-exactly-remaining", ok and oka, "completing body (REM <= end - start established: %s): exactly buffer[start..start+REM] is appended and the line start advances to start+REM (append %s, advance %s)" % (fits, ok, oka), loc)
            ctx.ob("R01.5", "complete|body-is-first-content-length-bytes", okd and oks, "the body is the first content_length bytes of body_vec (drain(..n), or split_off(n) + replace), the rest stays, and the state becomes RequestReady", loc)
    ctx.ob("R01.5", "covered", seen == {"partial", "complete"}, "body paths: %s" % sorted(seen), fn.loc(0))


def _body_shape(ctx):
    fn, lv = leaves(ctx, conn.PARSE_B)

    def is_start(t):
        return look(t) in (("deref", ("arg", 2)), ("arg", 2))

    def buf_range(t):
        t = look(t)
        if is_call(t, "index") and self_field(t[2][0], "buffer"):
            r = look(t[2][1])
            if r[0] == "agg" and r[1].startswith("std::ops::Range") and len(r[3]) == 2:
                return r[3]
        return None

    def remaining(t):
        t = look(t)
        if t[0] == "cast" and t[2] == "usize":
            t = look(t[1])
        return self_field(t, "body_bytes_to_be_read")

    def start_plus_remaining(t):
        ca = payload_of(t)
        if ca is not None and is_call(ca, "checked_add"):
            return is_start(ca[2][0]) and remaining(ca[2][1])
        return False

    seen = set()
    for lf in lv:
        rk = ret_kind(lf)
        if rk is None or rk[0] != "Ok":
            continue
        ext = [e for e in lf.events if e[0] == "call" and last_seg(e[3]) == "extend_from_slice" and self_field(e[4][2][0], "body_vec")]
        def _needs_more(t):
            if not (t[0] == "bin" and t[1] == "Gt"):
                return False
            x = look(t[2])
            while x[0] == "cast":
                x = look(x[1])      # `remaining as usize > available` or `remaining > available as u32`
            return self_field(x, "body_bytes_to_be_read")
        more = conn.atom_truth(lf, _needs_more)
        if look(rk[1]) == ("const", False):
            seen.add("partial")
            ok = more is True and len(ext) == 1
            if ok:
                r = buf_range(ext[0][4][2][1])
                ok = r is not None and is_start(r[0]) and look(r[1]) == ("arg", 3)
            cur = conn.assigns_to(lf, "read_cursor")
            okc = len(cur) == 1 and cur[0][4] == ("const", 0)
            rem = conn.assigns_to(lf, "body_bytes_to_be_read")
            okr = len(rem) == 1 and look(rem[0][4])[0] in ("bin", "field")
            if more is True and not ext and not rem:
                # nothing to append: the path established that buffer[start..end] is empty
                def _empty_window(t):
                    if not is_call(t, "is_empty") or not t[2]:
                        return False
                    r_ = buf_range(t[2][0])
                    return r_ is not None and is_start(r_[0]) and look(r_[1]) == ("arg", 3)
                if conn.atom_truth(lf, _empty_window) is True:
                    ok, okr = True, True
            ctx.ob("R01.5", "partial|append-all-and-restart", ok and okc, "partial body: buffer[start..end] is appended and the cursor restarts at 0 (append %s, cursor %s)" % (ok, okc), fn.loc(lf.bb))
            ctx.ob("R01.5", "partial|remaining-decreased", okr, "the remaining-bytes counter is decreased by the appended amount", fn.loc(lf.bb))
        elif look(rk[1]) == ("const", True):
            seen.add("complete")
            ok = more is False and len(ext) == 1
            if ok:
                r = buf_range(ext[0][4][2][1])
                ok = r is not None and is_start(r[0]) and start_plus_remaining(r[1])
            adv = [e for e in lf.events if e[0] == "assign" and e[3] == "(*_2)"]
            oka = len(adv) == 1 and start_plus_remaining(adv[0][4])
            okd = _body_taken(lf)
            st = conn.assigns_to(lf, "state")
            oks = len(st) == 1 and st[0][4][0] == "agg" and st[0][4][2] == "RequestReady"
            ctx.ob("R01.5", "complete|append-exactly-remaining", ok and oka, "completing body: exactly buffer[start..start+remaining] is appended and the line start advances to start+remaining (append %s, advance %s)" % (ok, oka), fn.loc(lf.bb))
            ctx.ob("R01.5", "complete|body-is-first-content-length-bytes", okd and oks, "the body is the first content_length bytes of body_vec (drain(..n), or split_off(n) + replace), the rest stays, and the state becomes RequestReady", fn.loc(lf.bb))
    ctx.ob("R01.5", "covered", seen == {"partial", "complete"}, "body paths: %s" % sorted(seen), fn.loc(0))


def window(ctx):
    fn, lv = conn.receive_leaves(ctx)
    ok = False
    for lf in lv:
        for e in lf.events:
            if e[0] == "call" and last_seg(e[3]) == "index_mut" and self_field(e[4][2][0], "buffer"):
                r = look(e[4][2][1])
                if r[0] == "agg" and r[1].startswith("std::ops::RangeFrom") and self_field(r[3][0], "read_cursor"):
                    ok = True
    ctx.ob("R01.6", "window", ok, "new bytes are received into buffer[read_cursor..]", fn.loc(0))
    fr, lr = conn.receive_leaves(ctx)
    n_ok = 0
    for lf in lr:
        r = look(lf.ret())
        rk = ret_kind(lf)
        if is_call(r, "ok_or") and is_call(look(r[2][0]), "checked_add") and len(r[2]) == 2:
            n_ok += 1
            ca = look(r[2][0])
            a, b = look(ca[2][0]), look(ca[2][1])
            def received_count(t):
                # component 0 of what the OS receive call returned
                return t[0] == "field" and t[3] == "0" and payload_of(t[1]) is not None and last_seg(payload_of(t[1])[1]) == "recv_with_fds"
            okv = (self_field(b, "read_cursor") and received_count(a)) or (self_field(a, "read_cursor") and received_count(b))
            ctx.ob("R01.6", "end=read+cursor", okv, "the end of valid data is bytes_read + read_cursor", fr.loc(lf.bb))
        elif rk is not None and rk[0] == "Ok":
            v = look(rk[1])
            sm = None
            from .util import as_sum
            sm = as_sum(v)
            okv = sm is not None and ((self_field(sm[1], "read_cursor") and look(sm[0])[0] == "field") or (self_field(sm[0], "read_cursor") and look(sm[1])[0] == "field"))
            n_ok += 1 if okv else 0
            ctx.ob("R01.6", "end=read+cursor|other-ok-return", okv, "every Ok value of read_bytes is bytes_read + read_cursor (found %s)" % term_s(v)[:80], fr.loc(lf.bb))
    ctx.ob("R01.6", "end|floor", n_ok >= 1, "%d Ok return(s) of read_bytes carry bytes_read + read_cursor" % n_ok)
    loopfn = conn.parse_loop_fn(ctx)
    fl, ll = leaves(ctx, loopfn)
    okargs = True
    n = 0
    for lf in ll:
        for e in lf.events:
            if e[0] == "call" and e[3] in (conn.PARSE_RL, conn.PARSE_H, conn.PARSE_B):
                n += 1
                end = look(e[4][2][2])
                okargs = okargs and payload_of(end) is not None and is_call(payload_of(end), conn.READ_BYTES)
    ctx.ob("R01.6", "parsers-get-that-end", okargs and n >= 3, "every sub-parser is given the end computed by read_bytes (%d call paths)" % n, fl.loc(0))


def queue_on_completion(ctx, rule):
    facts = ctx.facts
    loopfn = conn.parse_loop_fn(ctx)
    fn, lv = leaves(ctx, loopfn)
    d = {n: k for k, n in facts.variant_discr("connection::ConnectionState").items()}
    n = 0
    for lf in lv:
        rr = False
        rr_bb = None
        for (t, c, _b) in lf.conds:
            if t[0] == "discr" and any(isinstance(s, tuple) and s and s[0] == "field" and s[3] == "state" and s[2] == conn.HC for s in subterms(t)) and c == ("eq", d["RequestReady"]):
                rr = True
                rr_bb = _b
        if not rr:
            continue
        if lf.kind == "loop" and rr_bb in lf.trace and lf.bb in lf.trace[:-1] and lf.trace.index(lf.bb) > lf.trace.index(rr_bb):
            continue        # cut at the back edge of a loop *inside* the arm (items moved one by one): the paths that leave that loop are the ones inspected
        n += 1
        pb = [e for e in lf.events if e[0] == "call" and "VecDeque" in e[3] and last_seg(e[3]) == "push_back" and self_field(e[4][2][0], "parsed_requests")]
        ctx.ob(rule, "request-ready-pushes", len(pb) == 1, "the RequestReady arm pushes the completed request onto self.parsed_requests in the same iteration (pushes: %d)" % len(pb), fn.loc(lf.bb))
    ctx.ob(rule, "floor", n >= 1, "%d RequestReady path(s) inspected" % n)
