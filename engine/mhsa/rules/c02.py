"""C02 -- accepted requests are exactly those of the documented grammar, fields verbatim."""
from ..core import AnalysisError, term_s, subterms
from ..paths import PathEnum
from ..shapes import Shapes, TOP
from . import conn
from .c15 import tolerated_set
from .c16 import token_roundtrip
from .conn import leaves, self_field, find_outcome, ret_kind
from .util import result_test, propagated_error, as_sum, ok_payload_source, strip_map_err, const_of, is_call, last_seg, look, norm, option_is_some, transforms, truth, payload_of

EXPLANATION = (
    "Static decision of the grammar's structural clauses: RequestLine::try_from evaluates split, "
    "method, URI, version in that order and returns at the first failure (error precedence inside a "
    "request line); the three parts are the bytes before the first SP, between the first and second "
    "SP, and after the second SP; Method/Version accept exactly GET/PUT/PATCH and HTTP/1.0|1.1 "
    "(decision tree of the matcher, all byte strings); the URI is rejected iff empty or not UTF-8 and "
    "stored verbatim; in the incremental parser the line handed to the line parsers is exactly the "
    "bytes between line starts and the CRLF found, the header faults after which parsing continues "
    "are exactly {Ok, UnsupportedValue}, every other fault is returned as ParseError(that fault). "
    "A completed request is queued at once and only pop_front removes it, so requests preceding a fault are delivered. "
    "The incremental parsers refuse a request only for a closed table of (error built, deciding test) pairs -- a line that cannot fit, "
    "a declared length above the limit, a header-line fault, internal guards -- and nothing outside them builds a ParseError; "
    "a line found is consumed only by parsing it (RequestLine::try_from / Headers::parse_header_line). "
    "Decides these clauses for all inputs; the whole-stream 'if and only if' is not decided."
)
TRUSTED = ["slice indexing, str::from_utf8, String::from", "request::find returns the first occurrence"]
ASSUMPTIONS = []
NOT_DECIDED = "the 'iff' over whole streams, error precedence across lines, exact body bytes (values of arbitrary inputs)"

ORDER = ["request::RequestLine::parse_request_line", "common::Method::try_from", "request::Uri::try_from", "common::Version::try_from"]


def run(ctx):
    ctx.rule("R02.1", "request line: split, then method, URI, version, each failure returned at once; parts are delimited by the first two SP")
    ctx.rule("R02.2", "Method and Version accept exactly their canonical spellings (all byte strings)")
    ctx.rule("R02.3", "incremental parser: header faults after which parsing continues are exactly {Ok, UnsupportedValue}; others become ParseError(fault)")
    ctx.rule("R02.4", "URI: empty or non-UTF-8 rejected with InvalidUri, otherwise stored verbatim")
    ctx.rule("R02.5", "the bytes handed to the line parsers are exactly buffer[line start .. CRLF found), and the next line starts after the CRLF")
    if ORDER[0] in ctx.facts.fns:
        ctx.guarded("R02.1", "order", lambda: order(ctx))
        ctx.guarded("R02.1", "parts", lambda: parts(ctx))
    else:
        # the splitting helper is gone: the same two obligations on the code of RequestLine::try_from itself
        ctx.guarded("R02.1", "inlined", lambda: inlined_line(ctx))
    ctx.guarded("R02.2", "Method", lambda: token_roundtrip(ctx, "R02.2", "common::Method", "common::Method::try_from", "common::Method::raw"))
    ctx.guarded("R02.2", "Version", lambda: token_roundtrip(ctx, "R02.2", "common::Version", "common::Version::try_from", "common::Version::raw"))
    ctx.guarded("R02.2", "errors", lambda: token_errors(ctx))
    ctx.guarded("R02.3", "incremental", lambda: incremental_tolerated(ctx, "R02.3"))
    ctx.guarded("R02.4", "uri", lambda: uri(ctx))
    ctx.guarded("R02.5", "lines", lambda: lines(ctx))
    ctx.rule("R02.6", "the body is exactly the Content-Length bytes after the header terminator: body accumulation and carry-over cursor rules (C01 R01.2/R01.5)")
    ctx.rule("R02.7", "Content-Length is an unsigned 32-bit decimal: parsed with parse::<u32> into a u32 field (C15 R15.5)")
    from .c06 import _Remap
    from . import c01
    ctx.guarded("R02.6", "body", lambda: c01.body(_Remap(ctx, "R02.6")))
    ctx.guarded("R02.6", "cursor", lambda: c01.cursor_defined(_Remap(ctx, "R02.6")))
    ctx.guarded("R02.7", "u32", lambda: content_length_u32(ctx, "R02.7"))
    from . import c14, c15
    ctx.guarded("R02.5", "find", lambda: c14.find_shape(_Remap(ctx, "R02.5")))
    ctx.rule("R02.8", "a completed request is queued at once and leaves the queue only through pop_front, so every request preceding an error is delivered (= C01 R01.8, R01.4)")
    ctx.guarded("R02.8", "queue-on-completion", lambda: c01.queue_on_completion(ctx, "R02.8"))
    # ... and stays queued: nothing but pop_front removes from the queue (an error path that clears it loses the requests that precede the fault)
    from .c06 import fifo
    ctx.guarded("R02.8", "fifo", lambda: fifo(ctx, "R02.8", "parsed_requests", {"push_back", "pop_front"}, floor=2))
    ctx.rule("R02.9", "recognised header values are interpreted through trim() and written as the header rules say (= C15 R15.2-R15.6)")
    ctx.guarded("R02.9", "header-line", lambda: c15.line(_Remap(ctx, "R02.9")))
    ctx.rule("R02.10", "the incremental parsers refuse a request only for the enumerated reasons: every path of parse_request_line / parse_headers / parse_body that builds a ParseError is (error, deciding test) in a closed table; propagated failures come from the known sources")
    ctx.guarded("R02.10", "rejections", lambda: rejections(ctx, "R02.10"))
    ctx.rule("R02.11", "the line parsers go on only by parsing: a line end found in parse_request_line leads on through RequestLine::try_from and WaitingForHeaders, a non-empty header line through Headers::parse_header_line")
    ctx.guarded("R02.11", "progress", lambda: progress(ctx, "R02.11"))


GUARD_ERRORS = {"Overflow", "Underflow", "HeadersWithoutPendingRequest", "BodyWithoutPendingRequest"}


def rejections(ctx, rule):
    """The incremental parsers reject for a closed set of reasons.  Every path of parse_request_line / parse_headers /
    parse_body (new helpers traversed inline) that *constructs* a ParseError is classified by the error built and by the
    test that led there; a pair that is not in the table is a new way to refuse a request (or to refuse it with another
    error), which the grammar does not have.  Propagated errors (`?`) must come from the known sources."""
    from .conn import _strip_casts
    facts = ctx.facts
    bs = facts.const_int("connection::BUFFER_SIZE")

    def cursor_operand(x, depth=0):
        """The term speaks only about the window the parser was given: its start (*arg2), its end (arg3), constants and the
        buffer's length -- through any std arithmetic / comparison / Option plumbing (tuple equality, checked_sub, min, ...)."""
        if depth > 40 or not isinstance(x, tuple) or not x:
            return False
        x = _strip_casts(look(x))
        k = x[0]
        if k in ("const", "inttuple", "optint", "static", "fnconst") or const_of(x) is not None or x in (("arg", 3), ("arg", 2)):
            return True
        if k == "call":
            if is_call(x, "len") and conn.self_field(look(x[2][0]), "buffer"):
                return True
            return x[1].split("::")[0] in ("std", "core") and "io::" not in x[1] and all(cursor_operand(a, depth + 1) for a in x[2])
        if k in ("bin", "checked"):
            return all(cursor_operand(a, depth + 1) for a in x[2:] if isinstance(a, tuple))
        if k in ("un", "cast"):
            return cursor_operand(x[2] if k == "un" else x[1], depth + 1)
        if k == "agg":
            return all(cursor_operand(a, depth + 1) for a in x[3])
        if k == "tuple":
            return all(cursor_operand(a, depth + 1) for a in x[1:] if isinstance(a, tuple)) or (len(x) > 1 and isinstance(x[1], tuple) and all(cursor_operand(a, depth + 1) for a in x[1]))
        if k in ("field", "downcast", "payload", "discr", "deref", "ref"):
            return cursor_operand(x[1], depth + 1)
        return False

    def strip_not(t):
        while t[0] == "un" and t[1] == "Not":
            t = look(t[2])
        return t

    def cause(lf):
        if not lf.conds:
            return "unconditional"
        t, c, _bb = lf.conds[-1]
        t = strip_not(look(t))
        if conn.is_size_cmp(t) or conn.size_exceeded_truth(lf) is True and any(conn._mentions_lim(x) for x in [t]):
            return "size"
        if cursor_operand(t) and any(isinstance(x, tuple) and x in (("arg", 3), ("arg", 2)) for x in subterms(t)):
            return "cursor"
        if is_call(t, "is_empty") and conn.self_field(look(t[2][0]), "body_vec"):
            return "body-leftover"
        if t[0] == "bin" and any(is_call(_strip_casts(look(x)), "len") and conn.self_field(look(_strip_casts(look(x))[2][0]), "body_vec") for x in (t[2], t[3])):
            return "body-leftover"
        d = look(t[1]) if t[0] == "discr" else t
        for x in subterms(d):
            if isinstance(x, tuple) and x and is_call(x, conn.PHL):
                return "header-line-fault"
        h = head(d)
        if h[0] == "call" and last_seg(h[1]) in ("checked_add", "checked_sub", "checked_mul") and h[1].split("::")[0] in ("std", "core"):
            return "arith-guard"
        if h[0] == "field" and h[3] == "pending_request" and h[2] == conn.HC:
            return "no-pending"
        return "other: " + term_s(t)[:90]

    def head(x):
        """The value whose outcome is tested / propagated, through the Result/Option adapters."""
        x = look(x)
        while True:
            if x[0] == "residual":
                x = look(x[1])
            elif x[0] == "call" and last_seg(x[1]) in ("map_err", "branch", "from_residual", "ok_or", "ok_or_else", "into", "from", "is_none", "is_some", "is_ok", "is_err", "and_then", "map", "copied", "cloned") and x[1].split("::")[0] in ("std", "core") and x[2]:
                x = look(x[2][0])
            else:
                return x

    def err_name(e):
        e = look(e)
        if e[0] == "agg" and e[2] == "ParseError":
            i = look(e[3][0])
            if i[0] == "agg" and i[2] == "HeaderError":
                j = look(i[3][0])
                return "HeaderError." + (j[2] if j[0] == "agg" else "?")
            if i[0] == "agg":
                return i[2]
            if any(isinstance(x, tuple) and x and is_call(x, conn.PHL) for x in subterms(i)):
                return "<header-line-error>"
            return "?"
        return "?" + term_s(e)[:40]

    ALLOWED = {
        ("InvalidRequest", "cursor"), ("HeaderError.SizeLimitExceeded", "cursor"),       # a line that cannot fit the buffer (R04.3)
        ("SizeLimitExceeded", "size"),                                                   # the declared length exceeds the limit (R04.1)
        ("<header-line-error>", "header-line-fault"),                                    # a header fault other than the tolerated ones (R02.3)
        ("InvalidRequest", "body-leftover"),                                             # internal guard of parse_body
    }
    PROP_SOURCES = ("checked_add", "checked_sub", "shift_buffer_left", "try_from", "parse_header_line", "as_mut", "as_ref", "ok_or", "take")
    n = 0
    for name in (conn.PARSE_RL, conn.PARSE_H, conn.PARSE_B):
        if not facts.has_fn(name):
            continue
        fn, lv = leaves(ctx, name)
        seen = set()
        for lf in lv:
            rk = ret_kind(lf)
            if rk is None or rk[0] == "Ok":
                continue
            if rk[0] == "Err":
                e_ = look(rk[1])
                i_ = look(e_[3][0]) if e_[0] == "agg" and e_[2] == "ParseError" and e_[3] else None
                if i_ is not None and i_[0] == "field" and i_[1][0] == "downcast" and i_[1][2] == "Err" and look(i_[1][1])[0] == "call" and not is_call(look(i_[1][1]), conn.PHL):
                    # `match f(..) { Err(e) => return Err(ParseError(e)), .. }`: the `?` written out -- f's failure handed on
                    x = head(i_[1][1])
                    ok = x[0] == "call" and last_seg(x[1]) in PROP_SOURCES
                    key = "rejections|%s|handed-on|%s" % (name.rsplit("::", 1)[-1], last_seg(x[1]) if x[0] == "call" else "?")
                    if not (key in seen and ok):
                        seen.add(key)
                        n += 1
                        ctx.ob(rule, key, ok, "%s hands on the failure of %s wrapped in ParseError" % (name.rsplit("::", 1)[-1], term_s(x)[:60]), fn.loc(lf.bb))
                    continue
                en = err_name(rk[1])
                cz = cause(lf)
                ok = (en, cz) in ALLOWED or (en in GUARD_ERRORS and (cz in ("cursor", "arith-guard", "no-pending")))
                key = "rejections|%s|%s|%s" % (name.rsplit("::", 1)[-1], en, cz[:40])
                if key in seen and ok:
                    continue
                seen.add(key)
                n += 1
                ctx.ob(rule, key, ok, "%s builds ParseError(%s) after the test `%s`: a request is refused only for a line that cannot fit, a declared length above the limit, a header-line fault, or an internal guard" % (name.rsplit("::", 1)[-1], en, cz), fn.loc(lf.bb))
            elif rk[0] == "prop":
                src = rk[1][2][0]
                x = head(src)
                inner = [x[1]] if x[0] == "call" else ["pending_request" if (x[0] == "field" and x[3] == "pending_request") else "?" + term_s(x)[:40]]
                ok = (x[0] == "call" and last_seg(x[1]) in PROP_SOURCES) or (x[0] == "field" and x[3] == "pending_request" and x[2] == conn.HC)
                key = "rejections|%s|propagated|%s" % (name.rsplit("::", 1)[-1], ",".join(sorted({last_seg(c_) for c_ in inner}))[:60])
                if key in seen and ok:
                    continue
                seen.add(key)
                n += 1
                ctx.ob(rule, key, ok, "%s propagates the failure of %s" % (name.rsplit("::", 1)[-1], sorted({last_seg(c_) for c_ in inner})), fn.loc(lf.bb))
    ctx.ob(rule, "rejections|floor", n >= 8, "%d kinds of rejecting path classified in the three parsers (floor 8)" % n)
    # ... and nowhere else on the read side: the loop around the parsers and try_read build no ParseError of their own
    # ("at most N requests per read" would be one); read_bytes only its full-buffer guard (R04.6)
    m = 0
    for name in (conn.parse_loop_fn(ctx), conn.P + "try_read", conn.READ_BYTES):
        if not facts.has_fn(name):
            continue
        fn, lv = leaves(ctx, name)
        for lf in lv:
            rk = ret_kind(lf)
            if rk is None or rk[0] != "Err":
                continue
            e = look(rk[1])
            if not (e[0] == "agg" and e[2] == "ParseError"):
                continue
            i = look(e[3][0])
            if i[0] != "agg":
                continue        # an error handed on from a parser
            m += 1
            guard = name == conn.READ_BYTES and i[2] == "Overflow" and lf.conds and any(isinstance(x, tuple) and x and x[0] == "field" and x[3] == "read_cursor" for x in subterms(lf.conds[-1][0]))
            ctx.ob(rule, "rejections|outside-the-parsers|%s|%s" % (name.rsplit("::", 1)[-1], i[2]), bool(guard), "%s builds ParseError(%s) itself: outside the three parsers only read_bytes' full-buffer guard refuses input" % (name.rsplit("::", 1)[-1], i[2]), fn.loc(lf.bb))
    ctx.ob(rule, "rejections|outside-the-parsers|floor", m >= 1, "%d ParseError construction(s) outside the three parsers inspected (read_bytes' guard)" % m)


def progress(ctx, rule):
    """The other half of the closed table: how the line parsers go on.  A path of parse_request_line on which a line end was
    found and that does not fail has handed the line to RequestLine::try_from and moved to WaitingForHeaders; a path of
    parse_headers on which a non-empty line was found and that does not fail has handed it to Headers::parse_header_line.
    Anything else consumes input without parsing it (an empty line skipped in front of a request line, a header line
    dropped)."""
    facts = ctx.facts
    n = 0
    if facts.has_fn(conn.PARSE_RL):
        fn, lv = leaves(ctx, conn.PARSE_RL)
        for lf in lv:
            rk = ret_kind(lf)
            fo = find_outcome(lf)
            if rk is None or rk[0] != "Ok" or fo in (None, "none"):
                continue
            n += 1
            parsed = any(e[0] == "call" and e[3] == "request::RequestLine::try_from" for e in lf.events)
            st = [e for e in lf.events if e[0] == "assign" and e[3] == "(*_1).state"]
            moved = bool(st) and look(st[-1][4])[0] == "agg" and look(st[-1][4])[2] == "WaitingForHeaders"
            ctx.ob(rule, "progress|request-line|bb%d" % lf.bb, parsed and moved, "a line end found in parse_request_line leads on only through RequestLine::try_from and state := WaitingForHeaders (parsed: %s, moved: %s)" % (parsed, moved), fn.loc(lf.bb))
    if facts.has_fn(conn.PARSE_H):
        fn, lv = leaves(ctx, conn.PARSE_H)
        for lf in lv:
            rk = ret_kind(lf)
            fo = find_outcome(lf)
            if rk is None or rk[0] != "Ok" or fo != "some_n":
                continue
            n += 1
            parsed = any(e[0] == "call" and e[3] == conn.PHL for e in lf.events)
            ctx.ob(rule, "progress|header-line|bb%d" % lf.bb, parsed, "a non-empty header line found in parse_headers leads on only through Headers::parse_header_line", fn.loc(lf.bb))
    ctx.ob(rule, "progress|floor", n >= 2, "%d continuing path(s) of the line parsers inspected (floor 2)" % n)


def order(ctx):
    fn, lv = leaves(ctx, "request::RequestLine::try_from", lower=True)
    full = 0
    for lf in lv:
        if lf.kind != "return":
            continue
        def uri_part(t):
            a = look(t)
            return a[0] == "field" and a[3] in ("1", "uri") and payload_of(a[1]) is not None and is_call(payload_of(a[1]), ORDER[0])

        # the URI element may be decoded here (from_utf8 of part 1) before Uri::try_from receives it: both belong to step 2
        seq = [e[3] for e in lf.events if e[0] == "call" and (e[3] in ORDER or (last_seg(e[3]) == "from_utf8" and uri_part(e[4][2][0])))]
        cls = [ORDER.index(x) if x in ORDER else 2 for x in seq]
        dedup = [c_ for i_, c_ in enumerate(cls) if i_ == 0 or cls[i_ - 1] != c_]
        ok_prefix = dedup == list(range(len(dedup))) and cls.count(0) <= 1 and cls.count(1) <= 1 and cls.count(3) <= 1 and seq.count(ORDER[2]) <= 1
        decoded_here = [x for x in seq if x not in ORDER]
        rk = ret_kind(lf)
        if rk[0] == "Ok":
            full += 1
            r = look(rk[1])
            names = [f["name"] for f in ctx.facts.struct_fields("request::RequestLine")]
            good = ok_prefix and len(dedup) == 4 and len(decoded_here) <= 1 and r[0] == "agg" and r[1] == "request::RequestLine"
            if good:
                for field, callee, idx in (("method", ORDER[1], "0"), ("uri", ORDER[2], "1"), ("http_version", ORDER[3], "2")):
                    v = r[3][names.index(field)]
                    good = good and payload_of(v) is not None and is_call(payload_of(v), callee)
                    if good:
                        a = look(payload_of(v)[2][0])
                        if callee == ORDER[2] and decoded_here and payload_of(a) is not None and is_call(strip_map_err(payload_of(a)), "from_utf8"):
                            a = look(strip_map_err(payload_of(a))[2][0])      # the text decoded from part 1
                        good = a[0] == "field" and a[3] in (idx, {"0": "method", "1": "uri", "2": "version"}[idx]) and payload_of(a[1]) is not None and is_call(payload_of(a[1]), ORDER[0]) and look(payload_of(a[1])[2][0]) == ("arg", 1)
            ctx.ob("R02.1", "order|accept", good, "accepting path: split, Method(part 0), Uri(part 1), Version(part 2), each result stored in its own field", fn.loc(lf.bb))
        elif rk[0] == "prop":
            # the error returned is that of the last call made
            res = rk[1][2][0]
            src = res[1] if res[0] == "residual" else None
            good = ok_prefix and src is not None and is_call(strip_map_err(src), seq[-1]) if seq else False
            ctx.ob("R02.1", "order|reject-after-%d" % len(seq), good, "a failure of step %d (%s) is returned immediately, before any later element is looked at" % (len(seq), seq[-1].split("::")[-2] if seq else "?"), fn.loc(lf.bb))
        elif rk[0] == "Err" and decoded_here and seq and seq[-1] not in ORDER and ok_prefix and look(rk[1])[0] == "agg" and look(rk[1])[2] == "InvalidUri" and any(result_test(t_, c_, lambda y: is_call(y, "from_utf8")) == "err" for (t_, c_, _b) in lf.conds):
            # the URI decoded here with the failure mapped by a closure (traversed): the decoding step's own error
            ctx.ob("R02.1", "order|reject-after-%d" % len(seq), True, "a failure of the URI decoding is returned immediately as InvalidUri", fn.loc(lf.bb))
        elif rk[0] == "Err" and seq == [ORDER[0]] and look(rk[1])[0] == "field" and look(rk[1])[1][0] == "downcast" and look(rk[1])[1][2] == "Err" and is_call(look(look(rk[1])[1][1]), ORDER[0]):
            # `split(..).and_then(|parts| ..)`: the failure of the split handed on as it is
            ctx.ob("R02.1", "order|reject-after-1", True, "a failure of step 1 (the split) is returned as it is, before any element is looked at", fn.loc(lf.bb))
        else:
            ctx.fail("R02.1", "order|other-return", "RequestLine::try_from has a return that is neither Ok nor a propagated step failure", fn.loc(lf.bb))
    extra = 1 if any(last_seg(t["callee"].get("path") or "") == "from_utf8" for _bb, t in fn.calls()) else 0
    ctx.ob("R02.1", "order|paths", full == 1 and len(lv) == 5 + extra, "%d paths, %d accepting (expected %d and 1)" % (len(lv), full, 5 + extra), fn.loc(0))


def _pieces(ctx):
    """Predicates on terms of a function whose argument 1 is the request line: which expression is which piece."""
    def is_find_sp(t, hay_pred):
        t = look(t)
        return is_call(t, "request::find") and conn.const_bytes(t[2][1]) == b" " and hay_pred(look(t[2][0]))

    def some_payload(t, pred):
        src = payload_of(t)
        return src is not None and pred(src)

    def plus1(t, pred):
        sm = as_sum(t)
        return sm is not None and const_of(sm[1]) == 1 and pred(sm[0])

    def rng(t, kind):
        t = look(t)
        if t[0] == "agg" and t[1].split("<")[0].split("::")[:3] == ["std", "ops", kind] and not t[1].startswith("std::ops::" + kind + "Inclusive"):
            return t[3]
        return None

    is_arg = lambda t: look(t) == ("arg", 1)
    first_sp = lambda t: is_find_sp(t, is_arg)
    m_end = lambda t: some_payload(t, first_sp)

    def rest(t):
        t = look(t)
        if not is_call(t, "index"):
            return False
        r = rng(t[2][1], "RangeFrom")
        return is_arg(t[2][0]) and r is not None and plus1(r[0], m_end)

    second_sp = lambda t: is_find_sp(t, rest)
    u_end = lambda t: some_payload(t, second_sp)

    def splitn_piece(t):
        """k if t is the k-th item (0-based) of  line.splitn(3, |b| b == SP):  the same three pieces as the two finds
        (method, URI, and everything after the second SP)."""
        src = payload_of(t)
        if src is None or not is_call(src, "next"):
            return None
        it = look(src[2][0])
        k = 0
        while it[0] == "mut":
            if last_seg(it[2]) != "next":
                return None
            it = look(it[1])
            k += 1
        if not (is_call(it, "splitn") and it[1].startswith("core::slice") and len(it[2]) == 3 and is_arg(it[2][0]) and const_of(it[2][1]) == 3):
            return None
        clo = look(it[2][2])
        if not (clo[0] == "closure" and clo[1] in ctx.facts.fns):
            return None
        for l2 in PathEnum(ctx.facts.fns[clo[1]], ctx.facts).run():
            r2 = look(l2.ret())
            if not (r2[0] == "bin" and r2[1] == "Eq" and 32 in (const_of(r2[2]), const_of(r2[3]))):
                return None
        return k

    import types
    return types.SimpleNamespace(**{k: v for k, v in locals().items() if callable(v)})


def parts(ctx):
    fn, lv = leaves(ctx, "request::RequestLine::parse_request_line")

    P_ = _pieces(ctx)
    is_find_sp, some_payload, plus1, rng, is_arg, first_sp, m_end, rest, second_sp, u_end, splitn_piece = P_.is_find_sp, P_.some_payload, P_.plus1, P_.rng, P_.is_arg, P_.first_sp, P_.m_end, P_.rest, P_.second_sp, P_.u_end, P_.splitn_piece

    n_ok = 0
    for lf in lv:
        rk = ret_kind(lf)
        if rk is None:
            continue
        if rk[0] == "Ok":
            n_ok += 1
            tup = look(rk[1])
            good = tup[0] == "tuple" and len(tup[1]) == 3
            if not good and tup[0] == "agg" and len(tup[3]) == 3 and tup[1] in ctx.facts.adts:
                # a private struct with named fields in place of the tuple
                nms = [f["name"] for f in ctx.facts.struct_fields(tup[1])]
                if sorted(nms) == ["method", "uri", "version"]:
                    tup = ("tuple", tuple(tup[3][nms.index(k)] for k in ("method", "uri", "version")))
                    good = True
            if good:
                m, u, v = [look(x) for x in tup[1]]
                if [splitn_piece(x) for x in (m, u, v)] == [0, 1, 2]:
                    for nm in ("method", "uri", "version"):
                        ctx.ob("R02.1", "parts|%s" % nm, True, "%s is piece %d of line.splitn(3, SP)" % (nm, ("method", "uri", "version").index(nm)), fn.loc(lf.bb))
                    continue
                gm = is_call(m, "index") and is_arg(m[2][0]) and rng(m[2][1], "RangeTo") is not None and m_end(rng(m[2][1], "RangeTo")[0])
                gu = is_call(u, "index") and rest(u[2][0]) and rng(u[2][1], "RangeTo") is not None and u_end(rng(u[2][1], "RangeTo")[0])
                gv = is_call(v, "index") and rest(v[2][0]) and rng(v[2][1], "RangeFrom") is not None and plus1(rng(v[2][1], "RangeFrom")[0], u_end)
                good = gm and gu and gv
                ctx.ob("R02.1", "parts|method", gm, "method = line[..first SP]", fn.loc(lf.bb))
                ctx.ob("R02.1", "parts|uri", gu, "uri = rest[..first SP of rest] where rest = line[first SP + 1..]", fn.loc(lf.bb))
                ctx.ob("R02.1", "parts|version", gv, "version = rest[second SP + 1..] (everything after the second SP)", fn.loc(lf.bb))
            else:
                ctx.fail("R02.1", "parts|shape", "parse_request_line does not return a 3-tuple literal", fn.loc(lf.bb))
        elif rk[0] == "Err" or (rk[0] == "prop" and propagated_error(rk[1])[1] is not None and is_call(propagated_error(rk[1])[0], "request::find", "next")):
            if rk[0] == "Err":
                e = look(rk[1])
                none1 = any(t[0] == "discr" and first_sp(t[1]) and option_is_some(c) is False for (t, c, _b) in lf.conds)
                none2 = any(t[0] == "discr" and second_sp(t[1]) and option_is_some(c) is False for (t, c, _b) in lf.conds)
                for (t, c, _b) in lf.conds:
                    # `match (it.next(), it.next(), it.next())`: a missing piece of splitn(3, SP)
                    if t[0] == "discr" and is_call(look(t[1]), "next") and option_is_some(c) is False:
                        k = splitn_piece(("payload", look(t[1])))
                        none1, none2 = none1 or k in (0, 1), none2 or k == 2
            else:
                src, e = propagated_error(rk[1])
                none1, none2 = first_sp(src), second_sp(src)
                if is_call(src, "next"):
                    # a missing piece of splitn(3, SP): fewer than two SP
                    k = splitn_piece(("payload", src))
                    none1, none2 = k in (0, 1), k == 2
            ctx.ob("R02.1", "parts|malformed|%s" % ("no-first-sp" if none1 else "no-second-sp" if none2 else "other"), (none1 or none2) and e[0] == "agg" and e[2] == "InvalidRequest", "a line without two SP is InvalidRequest (malformed shape)", fn.loc(lf.bb))
    ctx.ob("R02.1", "parts|one-accepting-path", n_ok == 1, "%d accepting path(s) in parse_request_line" % n_ok, fn.loc(0))


def inlined_line(ctx):
    """R02.1 when RequestLine::try_from cuts the line itself (no splitting helper).  Same content as order() + parts():
    the accepted value is built from Method(piece 0), Uri(piece 1), Version(piece 2); a failure of a conversion is returned
    only on a path on which both SP were found and every earlier conversion succeeded (shape, then method, URI, version);
    a missing SP is InvalidRequest."""
    P_ = _pieces(ctx)
    fn, lv = leaves(ctx, "request::RequestLine::try_from", lower=True)
    conv = ORDER[1:]
    n_ok = n_shape = 0
    rej = set()

    def piece(x, k):
        x = look(x)
        sp = P_.splitn_piece(x)
        if sp is not None:
            return sp == k
        if not is_call(x, "index"):
            return False
        if k == 0:
            return P_.is_arg(x[2][0]) and P_.rng(x[2][1], "RangeTo") is not None and P_.m_end(P_.rng(x[2][1], "RangeTo")[0])
        if k == 1:
            return P_.rest(x[2][0]) and P_.rng(x[2][1], "RangeTo") is not None and P_.u_end(P_.rng(x[2][1], "RangeTo")[0])
        return P_.rest(x[2][0]) and P_.rng(x[2][1], "RangeFrom") is not None and P_.plus1(P_.rng(x[2][1], "RangeFrom")[0], P_.u_end)

    def sp_test(t, c):
        """(which SP: 1 | 2, 'some' | 'none') when the condition tests one of the two searches (or a piece of splitn)"""
        from .util import option_test
        for which, pred in ((1, P_.first_sp), (2, P_.second_sp)):
            o = option_test(t, c, pred)
            if o is not None:
                return which, o
        o = option_test(t, c, lambda y: is_call(y, "next"))
        if o is not None:
            from .util import tested_call
            k = P_.splitn_piece(("payload", tested_call(t, c)[0]))
            if k is not None:
                # piece 0 always exists; piece 1 exists iff there is a first SP, piece 2 iff there is a second one
                return (k, o) if k in (1, 2) else (None, None)
        return None, None

    def found_on(lf, which):
        """the path has established that the first / second SP exists"""
        return any(sp_test(t, c) == (which, "some") for (t, c, _b) in lf.conds)

    for lf in lv:
        if lf.kind != "return":
            continue
        rk = ret_kind(lf)
        if rk is None:
            continue
        seq = [e[3] for e in lf.events if e[0] == "call" and e[3] in conv]
        if rk[0] == "Ok":
            n_ok += 1
            r = look(rk[1])
            names = [f["name"] for f in ctx.facts.struct_fields("request::RequestLine")]
            good = seq == conv and r[0] == "agg" and r[1] == "request::RequestLine"
            if good:
                for k, (field, callee) in enumerate(zip(("method", "uri", "http_version"), conv)):
                    v = r[3][names.index(field)]
                    good = good and payload_of(v) is not None and is_call(payload_of(v), callee) and piece(payload_of(v)[2][0], k)
            ctx.ob("R02.1", "inlined|accept", good, "accepting path: Method(line[..first SP]), Uri(between the first two SP), Version(everything after the second SP), each stored in its own field", fn.loc(lf.bb))
            continue
        if rk[0] == "prop":
            src, e = propagated_error(rk[1])
        else:
            src, e = None, look(rk[1])
        if src is not None and is_call(src, *conv):
            k = conv.index([c for c in conv if is_call(src, c)][0])
            shape = found_on(lf, 1) and found_on(lf, 2)
            good = shape and seq == conv[: k + 1]
            rej.add(k)
            ctx.ob("R02.1", "inlined|reject-%s" % conv[k].split("::")[-2], good, "the fault of the %s is reported only once both SP were found and every earlier element was accepted (malformed shape, then method, URI, version)" % conv[k].split("::")[-2], fn.loc(lf.bb))
        elif any(sp_test(t, c)[1] == "none" for (t, c, _b) in lf.conds):
            n_shape += 1
            ctx.ob("R02.1", "inlined|malformed", e is not None and e[0] == "agg" and e[2] == "InvalidRequest", "a line without two SP is InvalidRequest (malformed shape)", fn.loc(lf.bb))
        elif src is not None and is_call(src, "checked_add"):
            pass        # index arithmetic that cannot fail for a slice in memory
        else:
            ctx.fail("R02.1", "inlined|other-return", "RequestLine::try_from has a return that is neither Ok, nor a missing SP, nor the fault of an element", fn.loc(lf.bb))
    ctx.ob("R02.1", "inlined|paths", n_ok == 1 and n_shape >= 1 and rej == {0, 1, 2}, "%d accepting path(s), %d malformed-shape path(s), element faults returned for %s (expected 1, >= 1, all three)" % (n_ok, n_shape, sorted(conv[k].split("::")[-2] for k in rej)), fn.loc(0))


def token_errors(ctx):
    S = Shapes(ctx.facts)
    for name, want in (("common::Method::try_from", "InvalidHttpMethod"), ("common::Version::try_from", "InvalidHttpVersion")):
        fn = ctx.facts.fn(name)
        errs = {s[1][0] for s in S.return_set(fn) if s != TOP and s[0] == "Err" and s[1] != TOP}
        tops = [s for s in S.return_set(fn) if s == TOP or (s[0] == "Err" and s[1] == TOP)]
        ctx.ob("R02.2", "error-kind|%s" % name, errs == {want} and not tops, "%s rejects with %s only (found %s)" % (name, want, sorted(errs)), fn.loc(0))


def incremental_tolerated(ctx, rule):
    fn, lv = leaves(ctx, conn.PARSE_H)

    def is_phl(x):
        return is_call(x, conn.PHL)

    def continues(lf):
        rk = ret_kind(lf)
        if rk is None:
            return None
        if rk[0] == "Ok":
            return True
        if rk[0] == "prop":
            # a `?` on something other than the line parser's result (index arithmetic guard)
            src = rk[1][2][0]
            if src[0] == "residual" and not any(is_call(s, conn.PHL) for s in subterms(src) if isinstance(s, tuple)):
                return None
        if rk[0] == "Err":
            # the same guard written out (`let Some(i) = a.checked_add(b) else { return Err(ParseError(Overflow)) }`)
            e = look(rk[1])
            i = look(e[3][0]) if e[0] == "agg" and e[2] == "ParseError" and e[3] else None
            if i is not None and i[0] == "agg" and i[2] in GUARD_ERRORS and not i[3]:
                return None
        return False

    def returns_err_of(lf):
        rk = ret_kind(lf)
        if rk is not None and rk[0] == "prop":
            # `line_parser(..).map_err(ParseError)?` (possibly through a helper): the parser's own error, wrapped
            src, errv = propagated_error(rk[1])
            wrapped = any(is_call(x, "map_err") and len(x[2]) == 2 and look(x[2][1]) == ("fnconst", "common::ConnectionError::ParseError") for x in subterms(rk[1]) if isinstance(x, tuple))
            return errv is None and is_phl(src) and wrapped
        if rk is None or rk[0] != "Err":
            return False
        e = look(rk[1])
        if not (e[0] == "agg" and e[2] == "ParseError"):
            return False
        x = look(e[3][0])
        return x[0] == "field" and x[1][0] == "downcast" and x[1][2] == "Err" and is_phl(look(x[1][1]))

    sub = [lf for lf in lv if any(e[0] == "call" and e[3] == conn.PHL for e in lf.events)]
    tolerated_set(ctx, rule, "incremental", fn, sub, is_phl, continues, returns_err_of)
    # ... and nothing else writes them: a line that reaches the header map another way (a fast path that files it as a
    # custom entry by its first byte, say) is not judged by the header rules at all
    n_mut = 0
    for lf in lv:
        for e in lf.events:
            if e[0] != "call" or e[3] == conn.PHL or e[3].startswith(("std::mem::", "core::mem::")):
                continue
            for a in e[4][2]:
                while a[0] == "cast" or (a[0] == "deref" and a[1][0] == "ref"):
                    a = a[1][1] if a[0] == "deref" else a[1]
                if a[0] == "ref" and a[2]:
                    x = look(a[1])
                    while x[0] == "mut":
                        x = look(x[1])
                    hs = [s_ for s_ in subterms(x) if isinstance(s_, tuple) and s_ and s_[0] == "field" and s_[3] == "headers" and s_[2] == "request::Request"]
                    if hs and conn.pending_req(x) and last_seg(e[3]) not in ("as_mut", "as_ref", "deref", "deref_mut", "borrow_mut"):
                        n_mut += 1
                        ctx.fail(rule, "incremental|headers-written-only-by-line-parser|%s" % e[3], "the pending request's headers are handed mutably to %s in parse_headers: header lines must go through Headers::parse_header_line (and nothing else writes the map)" % e[3], fn.loc(e[1]))
    ctx.ob(rule, "incremental|headers-written-only-by-line-parser", n_mut == 0, "in parse_headers the pending request's headers are mutated only by Headers::parse_header_line (or taken out whole and put back)", fn.loc(0))
    # the Headers the line is parsed into are those of the pending request
    # ... in place: the receiver *is* that field (a copy taken out with mem::take / clone and parsed into must come back on
    # every path that goes on -- also the one that ignores the line -- or what was gathered before is lost)
    seen_sites = set()
    for lf in sub:
        ev = [e for e in lf.events if e[0] == "call" and e[3] == conn.PHL][0]
        if int(ev[1]) in seen_sites and lf.kind != "return":
            pass
        recv = look(ev[4][2][0])
        while recv[0] == "mut":
            recv = look(recv[1])
        in_place = recv[0] == "field" and recv[3] == "headers" and conn.pending_req(recv)
        ok = in_place
        if not in_place and any(isinstance(s, tuple) and s and s[0] == "field" and s[3] == "headers" for s in subterms(recv)) and conn.pending_req(recv):
            # parsed into a value taken out of the pending request: on a path that continues it must be put back
            rk = ret_kind(lf)
            goes_on = lf.kind == "loop" or (rk is not None and rk[0] == "Ok")
            back = [a for a in lf.events if a[0] == "assign" and a[3].endswith(".headers") and not a[3].startswith("(*_1).") and any(norm(x) == norm(recv) for x in subterms(a[4]) if isinstance(x, tuple))]
            ok = (not goes_on) or bool(back)
        key = "incremental|into-pending-headers" + ("" if int(ev[1]) not in seen_sites else "|bb%d" % lf.bb)
        seen_sites.add(int(ev[1]))
        ctx.ob(rule, key, ok, "header lines are parsed into pending_request.headers, in place (or into a value taken out of it that is put back on every path that goes on)", fn.loc(ev[1]))


def uri(ctx):
    fn, lv = leaves(ctx, "request::Uri::try_from", lower=True)
    seen = set()
    S = Shapes(ctx.facts)

    def is_from_utf8_of_input(x):
        x = strip_map_err(x)
        return is_call(x, "from_utf8") and look(x[2][0]) == ("arg", 1)

    # Uri::try_from may receive the URI already decoded (no from_utf8 inside): then every caller must hand it the Ok
    # payload of from_utf8(its bytes), with the decoding failure returned as InvalidUri
    text_form = not any(last_seg(t["callee"].get("path") or "") == "from_utf8" for _bb, t in fn.calls())
    for lf in lv:
        rk = ret_kind(lf)
        if rk is None:
            continue
        empty = conn.atom_truth(lf, lambda t: is_call(t, "is_empty") and look(t[2][0]) == ("arg", 1))
        if empty is None:
            # `Ok("") => ..`: the decoded text compared with the empty string (the bytes are empty iff the text is)
            def eq_empty(t):
                if not (is_call(t, "eq") and len(t[2]) == 2):
                    return False
                for a, b in ((t[2][0], t[2][1]), (t[2][1], t[2][0])):
                    if const_of(b) == "" and payload_of(a) is not None and is_from_utf8_of_input(payload_of(a)):
                        return True
                return False
            empty = conn.atom_truth(lf, eq_empty)
            if empty is None:
                empty = conn.atom_truth(lf, lambda t: is_call(t, "is_empty") and payload_of(t[2][0]) is not None and is_from_utf8_of_input(payload_of(t[2][0])))
        def decoding(y):
            # from_utf8(input), also seen through `.map(Uri::new)` (map keeps the failure as it is)
            if is_call(y, "map") and len(y[2]) == 2 and look(y[2][1]) == ("fnconst", "request::Uri::new"):
                y = look(y[2][0])
            return is_call(y, "from_utf8") and look(y[2][0]) == ("arg", 1)

        utf8_err = any(result_test(t, c, decoding) == "err" for (t, c, _b) in lf.conds)
        if empty:
            seen.add("empty")
            e = look(rk[1]) if rk[0] == "Err" else None
            ctx.ob("R02.4", "uri|empty", e is not None and e[0] == "agg" and e[2] == "InvalidUri", "an empty URI is InvalidUri", fn.loc(lf.bb))
        elif rk[0] == "prop" or (rk[0] == "Err" and utf8_err):
            seen.add("non-utf8")
            shapes = S.eval(lf.ret(), fn)
            names = {s[1][0] for s in shapes if s != TOP and s[0] == "Err" and s[1] != TOP}
            if rk[0] == "prop":
                src = rk[1][2][0][1]
                ok = is_from_utf8_of_input(src) and names == {"InvalidUri"}
            else:
                ok = names == {"InvalidUri"}
            ctx.ob("R02.4", "uri|non-utf8", ok, "a URI that is not UTF-8 is InvalidUri (error kinds %s)" % sorted(names), fn.loc(lf.bb))
        elif rk[0] == "Ok":
            seen.add("ok")
            v = look(rk[1])
            pm = payload_of(v)
            if pm is not None and is_call(pm, "map") and len(pm[2]) == 2 and look(pm[2][1]) == ("fnconst", "request::Uri::new"):
                # from_utf8(bytes).map(Uri::new): the Ok payload is Uri::new(the decoded text)
                v = ("call", "request::Uri::new", (("field", ("downcast", look(pm[2][0]), "Ok"), None, "0"),), pm[3] if len(pm) > 3 else 0)
            ok = is_call(v, "request::Uri::new") or (v[0] == "agg" and v[1] == "request::Uri")
            src = None
            if ok:
                inner = v[2][0] if v[0] == "call" else v[3][0]
                inner = look(inner)
                while is_call(inner, "from", "to_owned", "to_string", "into") and inner[1].split("::")[0] in ("std", "core", "alloc"):
                    inner = look(inner[2][0])
                src = ok_payload_source(inner)
                ok = src is not None and is_from_utf8_of_input(src)
                if text_form:
                    ok = inner == ("arg", 1)
            tr = [x for x in transforms(v) if x not in ("new", "map_err", "from_utf8", "from", "to_owned", "to_string", "into")]
            ctx.ob("R02.4", "uri|verbatim", ok and not tr, "the stored URI is from_utf8(the bytes) with no transformation (extra calls: %s)" % tr, fn.loc(lf.bb))
        else:
            ctx.fail("R02.4", "uri|other-return", "unexpected return in Uri::try_from", fn.loc(lf.bb))
    if text_form:
        callers = [f for f in ctx.facts.fns.values() if list(f.calls_to("request::Uri::try_from"))]
        for f in callers:
            f2, lv2 = leaves(ctx, f.name)
            for lf in lv2:
                for e in lf.events:
                    if e[0] == "call" and e[3] == "request::Uri::try_from":
                        a = look(e[4][2][0])
                        src = payload_of(a)
                        ctx.ob("R02.4", "uri|decoded-by-caller|" + f.name, src is not None and is_call(strip_map_err(src), "from_utf8"), "Uri::try_from takes text: %s hands it the Ok payload of from_utf8(the URI bytes)" % f.name, f2.loc(e[1]))
                rk = ret_kind(lf)
                if rk is not None and rk[0] == "prop":
                    src = rk[1][2][0][1]
                    if is_call(strip_map_err(src), "from_utf8"):
                        seen.add("non-utf8")
                        shapes = S.eval(lf.ret(), f2)
                        names = {s_[1][0] for s_ in shapes if s_ != TOP and s_[0] == "Err" and s_[1] != TOP}
                        ctx.ob("R02.4", "uri|non-utf8", names == {"InvalidUri"}, "a URI that is not UTF-8 is InvalidUri (error kinds %s)" % sorted(names), f2.loc(lf.bb))
    ctx.ob("R02.4", "uri|covered", seen == {"empty", "non-utf8", "ok"}, "paths: %s" % sorted(seen), fn.loc(0))
    fnew, ln = leaves(ctx, "request::Uri::new")
    for lf in ln:
        r = lf.ret()
        ok = r[0] == "agg" and r[1] == "request::Uri" and is_call(look(r[3][0]), "from", "to_owned", "to_string", "into") and look(look(r[3][0])[2][0]) == ("arg", 1)
        ctx.ob("R02.4", "uri|new-copies", ok, "Uri::new stores String::from(its argument)", fnew.loc(0))


def lines(ctx):
    """R02.5: what is handed to the line parsers and how the line start advances."""
    def flat(ts):
        out = []
        for t in ts:
            sm = as_sum(t)
            if sm is not None:
                out += flat(list(sm))
            elif const_of(t) != 0:
                out.append(t)
        return out

    def buf_slice(t):
        """t = a slice of self.buffer, possibly a slice of a slice (`let window = &buffer[a..b]; &window[..i]`)
        -> (lo, hi): the bounds inside the buffer as lists of summands (hi None = the end of the buffer)."""
        t = look(t)
        if not is_call(t, "index"):
            return None
        if self_field(t[2][0], "buffer"):
            lo, hi = [], None
        else:
            inner = buf_slice(t[2][0])
            if inner is None:
                return None
            lo, hi = inner
        r = look(t[2][1])
        if r[0] != "agg":
            return None
        kind = r[1].split("<")[0]
        if kind == "std::ops::Range" and len(r[3]) == 2:
            return flat(lo + [r[3][0]]), flat(lo + [r[3][1]])
        if kind == "std::ops::RangeTo" and len(r[3]) == 1:
            return lo, flat(lo + [r[3][0]])
        if kind == "std::ops::RangeFrom" and len(r[3]) == 1:
            return flat(lo + [r[3][0]]), hi
        if kind == "std::ops::RangeFull":
            return lo, hi
        return None

    def is_start(t):
        return look(t) == ("deref", ("arg", 2)) or look(t) == ("arg", 2)

    def find_payload(t):
        t = look(t)
        if payload_of(t) is not None and conn.is_find_crlf(payload_of(t)):
            hay = buf_slice(look(t[1][1])[2][0])
            return hay is not None and len(hay[0]) == 1 and is_start(hay[0][0]) and hay[1] is not None and len(hay[1]) == 1 and look(hay[1][0]) == ("arg", 3)
        return False

    def line_slice(t):
        """buffer[start .. start + found), however the two slicings are nested"""
        r = buf_slice(t)
        if r is None or r[1] is None or len(r[0]) != 1 or len(r[1]) != 2 or not is_start(r[0][0]):
            return False
        a, b = r[1]
        return (is_start(a) and find_payload(b)) or (is_start(b) and find_payload(a))

    def plus2(t, pred):
        sm = as_sum(t)
        return sm is not None and const_of(sm[1]) == 2 and pred(sm[0])

    def advance_ok(fnobj, lf, adv_term):
        """new line start == start + found + 2 under the path's conditions, `found` being the position find() returned for
        buffer[start..end] (linear arithmetic: the spelling of the sum, checked_add chains and `found == 0` do not matter)."""
        from ..lin import Lin, State
        from ..panics import Tr
        st = State()
        tr = Tr(ctx.facts, fnobj, st)
        found = None
        pool = [adv_term] + [t for (t, c, _b) in lf.conds]
        for t in pool:
            for x in subterms(t):
                if isinstance(x, tuple) and x and x[0] in ("payload", "field") and find_payload(x):
                    found = x
                    break
            if found is not None:
                break
        if found is None:
            return False
        for e in lf.events:
            if e[0] == "cond":
                tr.assume_cond(e[3], e[4])
        return st.entails_eq(tr.lin(adv_term) - tr.lin(("deref", ("arg", 2))) - tr.lin(found) - Lin.const(2))

    # request line
    fn, lv = leaves(ctx, conn.PARSE_RL, lower=True)
    n = 0
    for lf in lv:
        ev = [e for e in lf.events if e[0] == "call" and e[3] == "request::RequestLine::try_from"]
        for e in ev:
            n += 1
            ok = line_slice(e[4][2][0])
            ctx.ob("R02.5", "request-line|slice", ok, "RequestLine::try_from gets buffer[start .. start + find(buffer[start..end], CRLF))", fn.loc(e[1]))
            adv = [a for a in lf.events if a[0] == "assign" and a[3] == "(*_2)"]
            ok2 = len(adv) == 1 and advance_ok(fn, lf, adv[0][4])
            ctx.ob("R02.5", "request-line|advance", ok2, "the line start advances to just after the CRLF (start + found + 2)", fn.loc(e[1]))
    ctx.ob("R02.5", "request-line|sites", n >= 2, "%d path(s) hand a request line to RequestLine::try_from (floor 2)" % n, fn.loc(0))
    # header line
    fn, lv = leaves(ctx, conn.PARSE_H, lower=True)
    n = 0
    for lf in lv:
        ev = [e for e in lf.events if e[0] == "call" and e[3] == conn.PHL]
        for e in ev:
            n += 1
            ok = line_slice(e[4][2][1])
            ctx.ob("R02.5", "header-line|slice", ok, "parse_header_line gets buffer[start .. start + find(..))", fn.loc(e[1]))
            rk = ret_kind(lf)
            if rk and rk[0] == "Ok":
                adv = [a for a in lf.events if a[0] == "assign" and a[3] == "(*_2)"]
                ok2 = len(adv) == 1 and advance_ok(fn, lf, adv[0][4])
                ctx.ob("R02.5", "header-line|advance", ok2, "after a header line the line start is start + found + 2", fn.loc(e[1]))
        if find_outcome(lf) == "some0":
            rk = ret_kind(lf)
            if rk and rk[0] == "Ok":
                adv = [a for a in lf.events if a[0] == "assign" and a[3] == "(*_2)"]
                ok2 = len(adv) == 1 and advance_ok(fn, lf, adv[0][4])
                ctx.ob("R02.5", "end-of-headers|advance", ok2, "after the blank line the line start is start + 2", fn.loc(lf.bb))
    ctx.ob("R02.5", "header-line|sites", n >= 4, "%d path(s) hand a header line to parse_header_line (floor 4)" % n, fn.loc(0))
    # the pending request is created with default headers and no body
    fn, lv = leaves(ctx, conn.PARSE_RL)
    for lf in lv:
        a = conn.assigns_to(lf, "pending_request")
        for e in a:
            v = e[4]
            names = [f["name"] for f in ctx.facts.struct_fields("request::Request")]
            ok = v[0] == "agg" and v[2] == "Some" and v[3][0][0] == "agg" and v[3][0][1] == "request::Request"
            if ok:
                rq = v[3][0][3]
                rl = rq[names.index("request_line")]
                ok = payload_of(rl) is not None and is_call(payload_of(rl), "request::RequestLine::try_from") and is_call(rq[names.index("headers")], "default") and rq[names.index("body")][0] == "agg" and rq[names.index("body")][2] == "None"
            ctx.ob("R02.5", "pending-request|fresh", ok, "a new pending request holds the parsed request line, default headers, no body", fn.loc(e[1]))


def content_length_u32(ctx, rule):
    facts = ctx.facts
    fn = facts.fn(conn.PHL)
    n = 0
    from .util import calls_with_helpers
    for fn_, bb, t in calls_with_helpers(facts, fn, "parse"):
        targs = [x["s"] for x in t["callee"].get("targs", [])]
        n += 1
        ctx.ob(rule, "parse-u32", targs == ["u32"], "Content-Length parsed with str::parse::<%s>" % ",".join(targs), fn.loc(bb))
    ctx.ob(rule, "one-parse", n == 1, "%d parse call(s) in parse_header_line" % n, fn.loc(0))
    fty = [f for f in facts.struct_fields("common::headers::Headers") if f["name"] == "content_length"]
    ctx.ob(rule, "field-u32", fty and fty[0]["ty"]["s"] == "u32", "Headers.content_length is a %s" % (fty[0]["ty"]["s"] if fty else "?"))
    _, lv = leaves(ctx, conn.PHL, lower=True)
    for lf in lv:
        for e in lf.events:
            if e[0] == "assign" and e[3] == "(*_1).content_length":
                v = look(e[4])
                ok = payload_of(v) is not None and is_call(payload_of(v), "parse")
                ctx.ob(rule, "stored-unchanged", ok, "the parsed value is stored without conversion: %s" % term_s(v)[:90], fn.loc(e[1]))
