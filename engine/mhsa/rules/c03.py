"""C03 -- no input makes any parsing entry point panic, hang or block."""
import json
import re
import os

from ..core import AnalysisError, term_s, subterms
from ..igraph import IGraph
from ..lin import Lin, State
from ..panics import PANICKY, PanicAnalysis, Tr
from ..paths import PathEnum
from ..tables import enum_const_table
from . import conn
from .conn import leaves, ret_kind, self_field
from .fields import is_derive
from .util import writer_roots, const_of, is_call, last_seg, look, norm, truth, option_is_some, is_new_fn, has_callers, known_callers, reaches_via_new, block_reaches

EXPLANATION = (
    "Static proof obligations for every panic-capable construct of the crate, enumerated from MIR "
    "(bounds/overflow Assert terminators of the dev profile and calls of std functions that can panic: "
    "slice/Vec/str indexing, Vec::drain, slice::windows, unwrap, explicit panics) and discharged by "
    "abstract interpretation: one abstract state per path (trace partitioning) in a linear-inequality "
    "domain over program terms with Fourier-Motzkin entailment, fed by the path's guards, checked_add/sub "
    "results, passed asserts and a small set of stated axioms (find's result bound, Range iteration, "
    "splitn item count, Write::write's return bound) plus three string/needle lemmas whose side conditions "
    "are checked on the constants.  One receive (recv_with_fds) per try_read and one Write::write per "
    "try_write, neither on a cycle of the inlined call graph; every CFG cycle is iterator-driven, a "
    "queue-draining while-let, or the parser loop, for which a ranking is proved (every arm that returns "
    "`true` advances the line start by >= 2 within end <= 1024, or belongs to the acyclic zero-advance chain "
    "WaitingForBody -> RequestReady -> WaitingForRequestLine); the typestate invariant "
    "state == RequestReady => pending_request is Some is preserved by every method and discharges the "
    "unwrap in the parser loop for every call order; the call graph has no recursion. "
    "No path is executed and no solver is called."
)
TRUSTED = [
    "std semantics of the functions classified total in the inventory", "axioms listed under coverage.axioms_used",
    "a failed recvmsg stores nothing; ScmSocket::recv_with_fds performs one recvmsg",
]
ASSUMPTIONS = ["sub-parsers are entered only in their own state (checked by R03.3 ranking|dispatch)", "no buffer in memory is longer than 2^56 bytes (sums of a few lengths cannot overflow usize)"]
NOT_DECIDED = "allocation failure (abort on OOM)"
TECHNIQUE = "abstract interpretation over MIR: linear-inequality domain with trace partitioning (Fourier-Motzkin entailment), panic-site inventory, typestate and loop-ranking rules"
RELEASE_TOO = True

# callees whose last path segment also names some std function with a `# Panics` section, but which
# cannot panic as used here (reason given); anything else in that situation fails closed
TOTAL = {
    "std::clone::Clone::clone": "derived/standard Clone of plain data",
    "std::cmp::PartialEq::eq": "structural equality",
    "std::cmp::PartialEq::ne": "structural equality",
    "std::cmp::PartialOrd::partial_cmp": "derived ordering",
    "std::collections::HashMap::<K, V, S, A>::get": "lookup returns Option",
    "std::collections::HashMap::<K, V, S, A>::get_mut": "lookup returns Option",
    "std::collections::HashMap::<K, V, S, A>::insert": "allocation only",
    "std::collections::HashMap::<K, V>::new": "constructor",
    "std::collections::VecDeque::<T>::new": "constructor",
    "std::collections::hash_map::VacantEntry::<'a, K, V, A>::insert": "allocation only",
    "std::fmt::Arguments::<'a>::new": "format_args! plumbing",
    "std::io::Write::write": "I/O result, no panic",
    "std::iter::Iterator::enumerate": "overflow of the counter only after usize::MAX items",
    "std::iter::Iterator::map": "adapter",
    "std::iter::Iterator::next": "iterator step of std iterators",
    "std::iter::Iterator::position": "overflow only after usize::MAX items",
    "std::iter::Iterator::take": "adapter",
    "std::ops::Deref::deref": "String/Vec deref",
    "std::ops::DerefMut::deref_mut": "String/Vec deref",
    "std::option::Option::<T>::as_mut": "total",
    "std::option::Option::<T>::take": "total",
    "std::os::fd::FromRawFd::from_raw_fd": "unsafe constructor; debug assertion on -1 only inside std",
    "std::result::Result::<T, E>::map": "total apart from the closure",
    "std::vec::Vec::<T, A>::append": "allocation only",
    "std::vec::Vec::<T, A>::extend_from_slice": "allocation only",
    "std::vec::Vec::<T, A>::push": "allocation only",
    "std::vec::Vec::<T>::new": "constructor",
    "std::vec::Vec::<T>::with_capacity": "allocation only (capacity overflow is an allocation failure)",
    "std::vec::Vec::<T, A>::reserve": "allocation only (capacity overflow is an allocation failure)",
    "std::vec::Vec::<T, A>::reserve_exact": "allocation only (capacity overflow is an allocation failure)",
    "std::mem::take": "total (Default::default of a std collection)",
    "std::string::String::push": "allocation only",
    "std::string::String::with_capacity": "allocation only (capacity overflow is an allocation failure)",
    "std::slice::<impl [T]>::join": "allocation only",
    "std::slice::<impl [T]>::concat": "allocation only",
    "std::string::String::push_str": "allocation only",
    "std::collections::hash_map::OccupiedEntry::<'a, K, V, A>::key": "total",
    "std::collections::hash_map::OccupiedEntry::<'a, K, V, A>::get": "total",
    "std::collections::hash_map::VacantEntry::<'a, K, V, A>::insert": "allocation only",
    "std::option::Option::<T>::map": "total apart from the closure",
    "std::option::Option::<T>::map_or": "total apart from the closure",
    "std::option::Option::<T>::map_or_else": "total apart from the closures",
    "std::option::Option::<T>::unwrap_or_else": "total apart from the closure",
    "std::option::Option::<T>::unwrap_or": "total",
    "std::option::Option::<T>::unwrap_or_default": "total",
    "std::option::Option::<T>::and_then": "total apart from the closure",
    "std::option::Option::<T>::filter": "total apart from the closure",
    "std::option::Option::<T>::ok_or_else": "total apart from the closure",
    "std::option::Option::<T>::get_or_insert": "total",
    "std::option::Option::<T>::insert": "total",
    "std::option::Option::<T>::replace": "total",
    "std::option::Option::<&T>::copied": "total",
    "std::option::Option::<&T>::cloned": "total apart from Clone",
    "std::result::Result::<T, E>::map_err": "total apart from the closure",
    "std::result::Result::<T, E>::and_then": "total apart from the closure",
    "std::result::Result::<T, E>::unwrap_or_else": "total apart from the closure",
    "std::result::Result::<T, E>::or_else": "total apart from the closure",
    "std::result::Result::<T, E>::ok": "total",
    "std::iter::Iterator::find": "total apart from the closure",
    "std::iter::Iterator::copied": "adapter",
    "std::iter::Iterator::cloned": "adapter",
    "std::iter::Iterator::any": "total apart from the closure",
    "std::iter::Iterator::all": "total apart from the closure",
    "std::iter::Iterator::take_while": "adapter",
    "std::iter::Iterator::peekable": "adapter",
    "std::iter::Iterator::filter": "adapter",
    "std::iter::Iterator::skip": "adapter",
    "std::iter::Iterator::rev": "adapter",
    "std::iter::Iterator::last": "total",
    "std::iter::Iterator::count": "overflow only after usize::MAX items",
    "std::mem::replace": "total",
    "std::mem::swap": "total",
    "std::mem::drop": "total apart from the value's Drop",
    "core::slice::<impl [T]>::fill": "total",
    "core::slice::<impl [T]>::last": "returns Option",
    "core::slice::<impl [T]>::first": "returns Option",
    "std::ptr::eq": "address comparison",
    "std::ops::RangeInclusive::<Idx>::new": "constructor",
    "std::ops::RangeInclusive::<Idx>::contains": "two comparisons",
    "std::ops::Range::<Idx>::contains": "two comparisons",
    "std::fmt::DebugStruct::<'a, 'b>::finish": "formatting plumbing of a hand-written Debug",
    "std::fmt::DebugStruct::<'a, 'b>::field": "formatting plumbing of a hand-written Debug",
    "std::fmt::DebugStruct::<'a, 'b>::finish_non_exhaustive": "formatting plumbing of a hand-written Debug",
    "std::fmt::Formatter::<'a>::debug_struct": "formatting plumbing of a hand-written Debug",
    "std::fmt::DebugTuple::<'a, 'b>::finish": "formatting plumbing of a hand-written Debug",
    "std::fmt::DebugTuple::<'a, 'b>::field": "formatting plumbing of a hand-written Debug",
    "std::fmt::Formatter::<'a>::debug_tuple": "formatting plumbing of a hand-written Debug",
    "vmm_sys_util::epoll::Epoll::new": "syscall wrapper returning Result",
    "vmm_sys_util::epoll::Epoll::wait": "syscall wrapper returning Result",
    "vmm_sys_util::epoll::EpollEvent::new": "constructor",
    "std::collections::HashMap::<K, V, S, A>::retain": "total apart from the closure",
    "std::collections::HashMap::<K, V, S, A>::remove": "total",
    "std::collections::HashMap::<K, V, S, A>::insert": "allocation only",
    "std::collections::HashMap::<K, V, S, A>::get": "total",
    "std::collections::HashMap::<K, V, S, A>::contains_key": "total",
    "std::collections::HashMap::<K, V, S, A>::entry": "allocation only",
}

# unwraps justified by the environment (pairing rules of C09), not by the code: outside C03's scope
ENVIRONMENT = {
    ("server::HttpServer::", "get_mut"): "epoll reports only registered descriptors and every registered connection is in the map (C09 R09.3)",
    ("server::HttpServer::", "epoll_del"): "every entry of the map was registered with epoll_add (C09 R09.3)",
}
# sites whose obligation is an invariant across calls: discharged by R03.6, never assumed
ASSUMED = {
    (conn.PARSE_B, "at-most-len", "Headers::content_length"): "the same obligation when the body is cut off with split_off(content_length): discharged by R03.6 (split_off-in-range)",
    (conn.PARSE_B, "drain", "Headers::content_length"): "needs len(body_vec) + body_bytes_to_be_read == content_length while WaitingForBody: established when the state is entered (body_vec empty, counter = content_length), preserved by the partial path (both change by the same amount) and consumed here; an invariant across calls that the per-call analysis does not carry",
}
GEN = os.path.join(os.path.dirname(__file__), "..", "..", "gen", "std_panics.json")

POSITIVE_CONTROLS = [("R03.5", "recursion"), ("R03.2", "assert_macros")]


def run(ctx):
    ctx.rule("R03.1", "one receive per try_read, one write per try_write, neither on a cycle of the inlined call graph; nothing else touches the stream")
    ctx.rule("R03.2", "every panic-capable construct is enumerated and discharged (or classified environment/assumed by name with a reason)")
    ctx.rule("R03.3", "every CFG cycle is iterator-driven, a queue drain, or the parser loop with a proved ranking")
    ctx.rule("R03.4", "typestate: state == RequestReady implies pending_request is Some, preserved by every method; it discharges the unwrap in the parser loop")
    ctx.rule("R03.5", "no recursion in the crate's call graph")
    ctx.guarded("R03.1", "stream", lambda: stream(ctx))
    ts = {}
    ctx.guarded("R03.4", "typestate", lambda: ts.update(ok=typestate(ctx)))
    ctx.rule("R03.6", "object invariant, inductive over every &mut self method: state == WaitingForBody => len(body_vec) + body_bytes_to_be_read == content_length(pending); otherwise body_vec is empty -- it proves body_vec.drain(..content_length) in range")
    bi = {}
    ctx.guarded("R03.6", "body-invariant", lambda: bi.update(ok=body_invariant(ctx)))
    ctx.guarded("R03.2", "panics", lambda: panics(ctx, ts.get("ok", False), bi.get("ok", False)))
    ctx.guarded("R03.3", "loops", lambda: loops(ctx))
    ctx.guarded("R03.5", "recursion", lambda: recursion(ctx))


# ------------------------------------------------------------------------------------------ R03.1
def stream(ctx):
    facts = ctx.facts
    for entry, want in ((conn.TRY_READ, "vmm_sys_util::sock_ctrl_msg::ScmSocket::recv_with_fds"), (conn.TRY_WRITE, "std::io::Write::write")):
        g = IGraph(facts, entry)
        ctx.touched(entry)
        cyc = g.cyclic_nodes()
        sites = []
        for nid, n in g.nodes.items():
            t = n.fn.blocks[n.bb]["term"]
            if t["k"] != "call":
                continue
            c = t["callee"]
            p = c.get("path") or ""
            on_stream = False
            for a in t["args"][:1]:
                if a["k"] in ("copy", "move"):
                    lt = g.lifted_operand(n, a)
                    from .c06 import direct_subterms
                    on_stream = any(isinstance(s, tuple) and s and s[0] == "field" and s[3] == "stream" and s[2] == conn.HC for s in direct_subterms(lt))
            local = ((c.get("resolved") or {}).get("path") or p) in facts.fns
            if (on_stream and not local) or p == want:
                # a crate-local callee that is handed the stream is part of the inlined graph: what *it* does with the stream counts
                sites.append((nid, n, p))
        short = entry.split("::")[-1]
        ok = len(sites) == 1 and sites[0][2] == want
        ctx.ob("R03.1", "%s|one-stream-call" % short, ok, "%s: the calls that touch the stream in the inlined call graph: %s (exactly one %s expected)" % (short, [s[2] for s in sites], last_seg(want)), sites[0][1].fn.loc(sites[0][1].bb) if sites else None)
        for nid, n, p in sites:
            ctx.ob("R03.1", "%s|not-in-a-cycle|%s" % (short, last_seg(p)), nid not in cyc, "%s: the %s call is not on any cycle of the inlined call graph (at most one per call)" % (short, last_seg(p)), n.fn.loc(n.bb))
        ctx.ob("R03.1", "%s|no-recursion-cut" % short, not g.opaque_recursive, "inlining of %s met no recursive call" % short)
    users = set()
    for f in facts.fns.values():
        for bi, si, place, rv in f.assigns():
            if rv["k"] in ("ref", "rawptr") and any(e["k"] == "field" and e["name"] == "stream" and e.get("of") == conn.HC for e in rv["place"]["proj"]):
                users.add(f.name)
    roots = set()
    for u in users:
        roots |= (known_callers(facts, u) if is_new_fn(u) else {u})
    ctx.ob("R03.1", "stream-users", roots <= {conn.TRY_WRITE, conn.RECV, conn.READ_BYTES}, "functions that borrow HttpConnection.stream: %s (on behalf of %s)" % (sorted(users), sorted(roots)))


# ------------------------------------------------------------------------------------------ R03.4
def typestate(ctx):
    """state == RequestReady  =>  pending_request.is_some(), at every exit of every &mut self method."""
    facts = ctx.facts
    all_ok = True
    n = 0
    methods = _standalone_methods(facts)
    for fn in methods:
        if fn.nargs < 1:
            continue
        ty = fn.locals[1]["ty"]
        if not (ty.get("k") == "ref" and ty.get("mut")):
            continue
        _, lv = leaves(ctx, fn.name)
        for lf in lv:
            state = "entry"      # entry | RR | notRR
            pend = "entry"       # entry | some | none
            entry_state_known = None   # knowledge about the entry state from conditions
            observed_some = False
            took_entry = None
            bad = None
            for e in lf.events:
                if e[0] == "cond":
                    t, c = e[3], e[4]
                    if t[0] == "discr" and self_field(t[1], "state"):
                        d = facts.variant_discr("connection::ConnectionState")
                        poss = {d[c[1]]} if c[0] == "eq" else {nm for k, nm in d.items() if k not in c[1]}
                        if state == "entry":
                            entry_state_known = poss if entry_state_known is None else (entry_state_known & poss)
                    # pending observed Some: `?` on ok_or(as_mut(&mut self.pending_request)) continued
                    if t[0] == "discr" and is_call(t[1], "branch") and c == ("eq", 0):
                        x = look(t[1][2][0])
                        if is_call(x, "ok_or") and conn.pending_req(x):
                            observed_some = True
                    if t[0] == "discr" and self_field(t[1], "pending_request") and option_is_some(c):
                        observed_some = True
                    # the pending request taken out of a connection not touched before, and found None: it was None on entry, so
                    # (the invariant holds on entry) the state was not RequestReady
                    from .util import option_test
                    if took_entry is not None and state == "entry" and option_test(t, c, lambda y: norm(y) == took_entry) == "none":
                        allv = set(facts.variant_discr("connection::ConnectionState").values())
                        entry_state_known = (entry_state_known if entry_state_known is not None else allv) - {"RequestReady"}
                elif e[0] == "assign" and e[3] == "(*_1).state":
                    v = e[4]
                    if v[0] == "agg" and v[2] == "RequestReady":
                        state = "RR"        # whether the pending request is there is asked where the method is left (or hands self on)
                    else:
                        state = "notRR"
                elif e[0] == "assign" and e[3] == "(*_1).pending_request":
                    v = e[4]
                    pend = "some" if (v[0] == "agg" and v[2] == "Some") else "none"
                    observed_some = pend == "some"
                elif e[0] == "call":
                    path, args = e[3], e[4][2]
                    if args and last_seg(path) in ("take", "replace", "insert", "get_or_insert") and self_field(args[0], "pending_request"):
                        if last_seg(path) == "take" and pend == "entry":
                            took_entry = norm(e[4])
                        pend = "none" if last_seg(path) == "take" else "some"
                        observed_some = pend == "some"
                    elif path in facts.fns and args and look(args[0]) in (("arg", 1),) and path.startswith(conn.P):
                        if is_new_fn(path):
                            bad = "calls the helper %s, which is nested too deeply to be followed" % path.split("::")[-1]
                        callee = facts.fns[path]
                        cty = callee.locals[1]["ty"] if callee.nargs >= 1 else {}
                        if cty.get("k") == "ref" and cty.get("mut"):
                            # the callee preserves the invariant (checked on its own); our knowledge resets
                            if pend == "none" and state != "notRR" and not (state == "entry" and entry_state_known is not None and "RequestReady" not in entry_state_known):
                                bad = "calls %s while pending_request is None and state may be RequestReady" % path.split("::")[-1]
                            if state == "RR" and not (pend == "some" or (pend == "entry" and observed_some)):
                                bad = "calls %s in state RequestReady without pending_request known to be Some on this path" % path.split("::")[-1]
                            state, pend, observed_some, entry_state_known = "entry", "entry", False, None
            # at the exit
            if bad is None and pend == "none":
                may_rr = state == "RR" or (state == "entry" and not (entry_state_known is not None and "RequestReady" not in entry_state_known))
                if may_rr:
                    bad = "leaves with pending_request None while state may be RequestReady"
            if bad is None and state == "RR" and not (pend == "some" or (pend == "entry" and observed_some)):
                bad = "state := RequestReady without pending_request known to be Some where the method is left"
            n += 1
            if bad:
                all_ok = False
                ctx.fail("R03.4", "%s|%s" % (fn.name.split("::")[-1], bad.split(" ")[0] + "-" + bad.split(" ")[-1]), "%s: %s" % (fn.name.split("::")[-1], bad), fn.loc(lf.bb), witness="blocks %s" % lf.trace[-8:])
    # constructor
    fnew, ln = leaves(ctx, conn.P + "new")
    names = [f["name"] for f in facts.struct_fields(conn.HC)]
    for lf in ln:
        r = lf.ret()
        from .util import struct_field_value as _sfv
        st0 = look(_sfv(facts, r, "state")) if r[0] == "agg" and r[1] == conn.HC and _sfv(facts, r, "state") is not None else None
        ok = st0 is not None and st0[0] == "agg" and st0[2] != "RequestReady"
        all_ok = all_ok and ok
        ctx.ob("R03.4", "new|not-RequestReady", ok, "a new connection does not start in RequestReady", fnew.loc(0))
    # nobody outside the impl writes the two fields
    from .fields import field_writers
    for fld in ("state", "pending_request"):
        for w in field_writers(facts, conn.HC, fld):
            ok = all(r.startswith(conn.P) for r in writer_roots(facts, w[0]))
            if not ok and w[0].startswith(conn.P) and w[3] == "construct" and not _takes_self(facts, w[0]):
                # another constructor of the impl (called from outside, like new): what it builds must not be RequestReady either
                fc, lc = leaves(ctx, w[0])
                ok = bool(lc)
                for lf in lc:
                    r = look(lf.ret())
                    st1 = look(_sfv(facts, r, "state")) if r[0] == "agg" and r[1] == conn.HC and _sfv(facts, r, "state") is not None else None
                    ok = ok and st1 is not None and st1[0] == "agg" and st1[2] != "RequestReady"
                ctx.ob("R03.4", "constructor|%s|not-RequestReady" % w[0].split("::")[-1], ok, "%s, a constructor called from outside the impl, does not build a connection in RequestReady" % w[0], w[2])
            all_ok = all_ok and ok
            if not ok:
                ctx.fail("R03.4", "writers|%s|%s" % (fld, w[0]), "HttpConnection.%s is written outside the impl: %s" % (fld, w[0]), w[2])
    ctx.ob("R03.4", "invariant-preserved", all_ok, "state == RequestReady => pending_request.is_some() holds at every exit of every &mut self method (%d paths of %d methods)" % (n, len(methods)))
    return all_ok


# ------------------------------------------------------------------------------------------ R03.6
class _BodyTr(Tr):
    """Translator with two ghost quantities: the current length of self.body_vec (tracked through
    extend_from_slice / drain / clear) and the declared length of the pending request."""

    def __init__(self, facts, fn, st):
        Tr.__init__(self, facts, fn, st)
        self.L = None
        self.CL = None

    def is_body_vec(self, x):
        x = look(x)
        while x[0] == "mut":
            x = look(x[1])
        if x[0] == "place":
            return x[1].endswith(".body_vec")
        return x[0] == "field" and x[3] == "body_vec" and x[2] == conn.HC

    def length(self, x):
        if self.is_body_vec(x):
            return self.L
        return Tr.length(self, x)

    def lin(self, t):
        x = look(t)
        if is_call(x, "common::headers::Headers::content_length") and conn.pending_req(x):
            return self.CL
        return Tr.lin(self, t)


def body_invariant(ctx):
    facts = ctx.facts
    WFB = "WaitingForBody"
    sd = facts.variant_discr("connection::ConnectionState")
    all_states = set(sd.values())
    methods = []
    for f in _standalone_methods(facts):
        if f.nargs >= 1:
            ty = f.locals[1]["ty"]
            if ty.get("k") == "ref" and ty.get("mut") and (ty["inner"].get("path") == conn.HC):
                methods.append(f)
    all_ok = True
    n_paths = n_drains = 0
    bbr_field = ("field", ("deref", ("arg", 1)), conn.HC, "body_bytes_to_be_read")
    for fn in methods:
        lv = PathEnum(fn, facts, versioned=True, lower=True).run()
        ctx.touched(fn)
        for lf in lv:
            if lf.kind not in ("return", "loop"):
                continue
            touches = any((e[0] == "call" and e[4][2] and _bodytouch(e)) or (e[0] == "assign" and e[3] in ("(*_1).body_vec", "(*_1).body_bytes_to_be_read", "(*_1).state")) for e in lf.events)
            if not touches:
                continue
            # entry-state knowledge: state conditions seen before the first write of state
            entry = set(all_states)
            if fn.name == conn.PARSE_B:
                entry = {WFB}      # dispatched only in this state (R03.3 ranking|dispatch)
            elif fn.name == conn.PARSE_H:
                entry = {"WaitingForHeaders"}
            elif fn.name == conn.PARSE_RL:
                entry = {"WaitingForRequestLine"}
            for e in lf.events:
                if e[0] == "assign" and e[3] == "(*_1).state":
                    break
                if e[0] == "call" and e[3] in facts.fns and e[3].startswith(conn.P) and e[4][2] and look(e[4][2][0]) == ("arg", 1):
                    break
                if e[0] == "cond" and e[3][0] == "discr" and self_field(e[3][1], "state"):
                    c = e[4]
                    entry &= ({sd[c[1]]} if c[0] == "eq" else {n for k, n in sd.items() if k not in c[1]})
            cases = []
            if WFB in entry:
                cases.append(True)
            if entry - {WFB}:
                cases.append(False)
            for in_body in cases:
                n_paths += 1
                st = State()
                tr = _BodyTr(facts, fn, st)
                tr.L = tr.atom(("ghost", "len(body_vec) at entry"), 0, 2**40)
                tr.CL = tr.atom(("ghost", "content_length of the pending request"), 0, 2**32 - 1)
                b0 = tr.lin(bbr_field)
                if in_body:
                    st.add_eq(tr.L + b0 - tr.CL)
                else:
                    st.add_eq(tr.L)
                split_rest = {}
                state_now = WFB if in_body else None   # None = some state other than WFB
                known = True   # do we still know L / state (no opaque &mut self call since)?
                why = None
                for e in lf.events:
                    if e[0] == "cond":
                        if e[3][0] == "discr" and self_field(e[3][1], "state") and not known:
                            # state observed again after an opaque call: re-assume the invariant for that case
                            c = e[4]
                            poss = ({sd[c[1]]} if c[0] == "eq" else {n for k, n in sd.items() if k not in c[1]})
                            if WFB not in poss:
                                st.add_eq(tr.L)
                                state_now = None
                                known = True
                            elif poss == {WFB}:
                                st.add_eq(tr.L + tr.lin(bbr_field) - tr.CL)
                                state_now = WFB
                                known = True
                        tr.assume_cond(e[3], e[4])
                    elif e[0] == "assert":
                        pass
                    elif e[0] == "assign":
                        if e[3] == "(*_1).state":
                            v = e[4]
                            state_now = WFB if (v[0] == "agg" and v[2] == WFB) else None
                        elif e[3] == "(*_1).body_vec":
                            v = look(e[4])
                            if is_call(v, "new") or (v[0] == "call" and not v[2]):
                                tr.L = Lin.const(0)
                            else:
                                why = "body_vec is overwritten with something other than an empty vector"
                    elif e[0] == "call":
                        path, args = e[3], e[4][2]
                        if args and tr.is_body_vec(args[0]) and args[0][0] == "ref" and args[0][2]:
                            seg = last_seg(path)
                            if seg == "extend_from_slice" or seg == "extend":
                                tr.L = tr.L + Tr.length(tr, args[1])
                            elif seg == "clear":
                                tr.L = Lin.const(0)
                            elif seg == "drain":
                                r = look(args[1])
                                if r[0] == "agg" and "RangeFull" in r[1]:
                                    tr.L = Lin.const(0)
                                elif r[0] == "agg" and r[1].startswith("std::ops::RangeTo") and "Inclusive" not in r[1]:
                                    n = tr.lin(r[3][0])
                                    n_drains += 1
                                    okd = known and st.entails_le(n - tr.L)
                                    ctx.ob("R03.6", "%s|drain-in-range|%s" % (fn.name.split("::")[-1], "in-body" if in_body else "other"), okd, "%s: body_vec.drain(..n) with n <= len(body_vec) entailed by the invariant and the path" % fn.name.split("::")[-1], fn.loc(e[1]))
                                    all_ok = all_ok and okd
                                    tr.L = tr.L - n
                                else:
                                    why = "unsupported drain range on body_vec"
                            elif seg == "truncate" and const_of(args[1]) == 0:
                                tr.L = Lin.const(0)
                            elif seg == "truncate":
                                # shortens to at most n: the new length is some value between 0 and the old one
                                newl = tr.atom(("ghost", "len(body_vec) after truncate@%d" % e[1]), 0, 2**40)
                                st.add_le(newl - tr.L)
                                tr.L = newl
                            elif seg == "split_off" and len(args) == 2:
                                # v.split_off(n): needs n <= len; v keeps the first n, the call's result holds the other len - n
                                n = tr.lin(args[1])
                                n_drains += 1
                                okd = known and st.entails_le(n - tr.L)
                                ctx.ob("R03.6", "%s|split_off-in-range|%s" % (fn.name.split("::")[-1], "in-body" if in_body else "other"), okd, "%s: body_vec.split_off(n) with n <= len(body_vec) entailed by the invariant and the path" % fn.name.split("::")[-1], fn.loc(e[1]))
                                all_ok = all_ok and okd
                                split_rest[norm(e[4])] = tr.L - n
                                tr.L = n
                            elif seg == "replace" and path == "std::mem::replace" and len(args) == 2:
                                put = look(args[1])
                                while put[0] == "mut":
                                    put = look(put[1])
                                if norm(put) in split_rest:
                                    tr.L = split_rest[norm(put)]
                                elif is_call(put, "new"):
                                    tr.L = Lin.const(0)
                                else:
                                    why = "body_vec is replaced by something whose length the invariant proof does not know"
                            elif seg == "take" and path in ("std::mem::take", "core::mem::take"):
                                tr.L = Lin.const(0)         # the whole vector is moved out, an empty one stays
                            elif seg in ("push", "append", "insert", "resize", "retain", "split_off", "swap_remove", "remove", "pop", "replace", "take", "swap"):
                                why = "body_vec is modified by %s, which the invariant proof does not model" % seg
                        elif path in facts.fns and path.startswith(conn.P) and args and look(args[0]) == ("arg", 1) and _takes_mut_self(facts, path):
                            if is_new_fn(path):
                                why = "calls the helper %s, which is nested too deeply to be followed" % path.split("::")[-1]
                            # the callee keeps the invariant (proved for it separately); what we knew is gone
                            known = False
                            tr.L = tr.atom(("ghost", "len(body_vec) after %s@%d" % (path.split("::")[-1], e[1])), 0, 2**40)
                            state_now = "?"
                if why:
                    all_ok = False
                    ctx.fail("R03.6", "%s|unmodelled" % fn.name.split("::")[-1], "%s: %s" % (fn.name.split("::")[-1], why), fn.loc(lf.bb))
                    continue
                if st.inconsistent():
                    continue   # this path is infeasible under the invariant (e.g. `!body_vec.is_empty()` after the drain)
                if (lf.kind != "return" and not (lf.kind == "loop" and fn.name == conn.parse_loop_fn(ctx))) or not known or state_now == "?":
                    if not known and any(e[0] == "assign" and e[3] in ("(*_1).body_vec", "(*_1).body_bytes_to_be_read") for e in lf.events):
                        pass
                    continue
                b_exit = lf.env.get("(*_1).body_bytes_to_be_read")
                b1 = tr.lin(b_exit) if b_exit is not None else tr.lin(bbr_field)
                if state_now == WFB:
                    good = st.entails_eq(tr.L + b1 - tr.CL)
                    msg = "leaves in WaitingForBody with len(body_vec) + body_bytes_to_be_read == content_length"
                else:
                    good = st.entails_eq(tr.L)
                    msg = "leaves outside WaitingForBody with body_vec empty"
                all_ok = all_ok and good
                ctx.ob("R03.6", "%s|exit|%s->%s|bb%d" % (fn.name.split("::")[-1], "WFB" if in_body else "other", "WFB" if state_now == WFB else "other", lf.trace[-2] if len(lf.trace) > 1 else 0), good, "%s %s" % (fn.name.split("::")[-1], msg), fn.loc(lf.bb))
    # the declared length cannot change while a body is awaited
    callers = sorted({f.name for f in facts.fns.values() if list(f.calls_to(conn.PHL))})
    roots = set()
    for c in callers:
        roots |= known_callers(facts, c) if is_new_fn(c) else {c}
    okc = roots <= {conn.PARSE_H, "common::headers::Headers::try_from"}
    ctx.ob("R03.6", "content-length-stable", okc, "parse_header_line (the only writer of Headers.content_length) is called from %s: not while a body is awaited" % callers)
    new_ok = False
    fnew = facts.fn(conn.P + "new")
    names = [f["name"] for f in facts.struct_fields(conn.HC)]
    for lf in PathEnum(fnew, facts).run():
        r = lf.ret()
        if r[0] == "agg" and r[1] == conn.HC:
            v = look(r[3][names.index("body_vec")])
            new_ok = is_call(v, "new") or (v[0] == "call" and not v[2]) or v[0] in ("array",) or "vec" in str(v[1]).lower()
    ctx.ob("R03.6", "new|empty", new_ok, "a new connection starts with an empty body_vec")
    ctx.ob("R03.6", "floor", n_paths >= 8 and n_drains >= 1, "%d path/case combinations that touch the body accumulator checked, %d drain site(s) (floors 8, 1)" % (n_paths, n_drains))
    return all_ok and okc and new_ok and n_drains >= 1


def _standalone_methods(facts):
    """Non-closure functions of the HttpConnection impl that are analysed on their own: a helper that is not
    in the frozen list and has callers is traversed inline at each of its call sites instead."""
    out = []
    for f in facts.fns.values():
        if f.name.startswith(conn.P) and f.d["kind"] != "closure":
            if is_new_fn(f.name) and has_callers(facts, f.name):
                continue
            out.append(f)
    return out


def _takes_self(facts, path):
    fn = facts.fns[path]
    if fn.nargs < 1:
        return False
    ty = fn.locals[1]["ty"]
    inner = ty.get("inner", ty) if ty.get("k") == "ref" else ty
    return inner.get("path") == conn.HC


def _takes_mut_self(facts, path):
    fn = facts.fns[path]
    if fn.nargs < 1:
        return False
    ty = fn.locals[1]["ty"]
    return ty.get("k") == "ref" and ty.get("mut") and ty["inner"].get("path") == conn.HC


def _bodytouch(e):
    a = e[4][2][0]
    x = look(a)
    while x[0] == "mut":
        x = look(x[1])
    if x[0] == "place":
        return x[1].endswith(".body_vec")
    return x[0] == "field" and x[3] == "body_vec"


# ------------------------------------------------------------------------------------------ R03.2
def panics(ctx, typestate_ok, body_inv_ok=False, scope=None):
    """scope: only report sites in functions whose name starts with one of these prefixes (used by C09 for the server)."""
    facts = ctx.facts
    tables = {}
    for name, adt in (("common::Method::raw", "common::Method"), ("common::Version::raw", "common::Version")):
        try:
            tables[name] = enum_const_table(facts, facts.fn(name), adt)
        except AnalysisError:
            pass
    pa = PanicAnalysis(facts, tables)
    if typestate_ok:
        pa.path_filter = lambda fn, lf: pending_none_under_request_ready(facts, lf)
    nfn = 0
    from .. import paths as _paths
    _paths.LOWERED.clear()
    closures = []
    for fn in facts.fns.values():
        if is_derive(fn):
            continue
        if fn.d["kind"] != "closure" and is_new_fn(fn.name) and has_callers(facts, fn.name):
            ctx.touched(fn)
            continue    # traversed inline at its call sites
        if fn.d["kind"] == "closure":
            closures.append(fn)
            continue
        nfn += 1
        ctx.touched(fn)
        pa.analyse_fn(fn)
    for fn in closures:
        ctx.touched(fn)
        if fn.name in _paths.LOWERED:
            continue    # a closure literal handed to an Option/Result combinator: analysed in the context of that call
        if is_new_fn(fn.name) and has_callers(facts, fn.name):
            continue    # a new closure bound to a local and called directly: traversed inline at those calls
        nfn += 1
        pa.analyse_fn(fn)
    # helpers nested deeper than the inlining bound were met as opaque calls: analyse them on their own
    done = set()
    while pa.uninlined - done:
        name = sorted(pa.uninlined - done)[0]
        done.add(name)
        nfn += 1
        pa.analyse_fn(facts.fns[name])
    pa.lift_preconditions()
    lift_entry_preconditions(ctx, pa)
    loopfn = conn.parse_loop_fn(ctx)
    n_sites = n_ok = n_env = n_assumed = 0
    for k, s, ok, npaths, why in pa.verdicts():
        if scope is not None and not s.fn.startswith(tuple(scope)):
            continue
        n_sites += 1
        key = "%s|%s" % (s.fn.split("::")[-1] if not s.fn.endswith("}") else s.fn.split("::", 2)[-1], s.key)
        full_key = "%s|%s" % (s.fn, s.key)
        if ok:
            n_ok += 1
            ctx.ob("R03.2", "site|" + full_key, True, "proved on %d path(s): %s %s" % (npaths, s.desc, ("[" + why + "]") if why else ""), s.loc)
            continue
        # typestate-discharged unwrap
        if s.kind == "call" and s.key.startswith("unwrap|") and s.fn.startswith(conn.P) and "pending_request" in s.key and "take" in s.key:
            good = typestate_ok and unwrap_under_request_ready(ctx)
            n_ok += 1 if good else 0
            ctx.ob("R03.2", "site|" + full_key, good, "unwrap of pending_request.take(): discharged by the typestate invariant (R03.4) with state == RequestReady observed on the path", s.loc)
            continue
        env = [r for (f, what), r in ENVIRONMENT.items() if s.fn.startswith(f) and re.match(r"unwrap\|unwrap\((server::HttpServer|std::collections::HashMap::<[^()]*>)::%s\(" % what, s.key)]
        if env and s.kind == "call" and s.key.startswith("unwrap|"):
            n_env += 1
            ctx.ob("R03.2", "site|" + full_key, True, "environment-justified (outside the parsing entry points; see C09): %s" % env[0], s.loc)
            continue
        asm = [r for (f, a, b), r in ASSUMED.items() if (f == s.fn or (is_new_fn(s.fn) and s.fn.startswith(conn.P))) and a in s.key and b in s.desc]
        if asm and body_inv_ok:
            n_ok += 1
            ctx.ob("R03.2", "site|" + full_key, True, "proved by the inductive object invariant R03.6 (len(body_vec) + body_bytes_to_be_read == content_length while WaitingForBody)", s.loc)
            continue
        if asm:
            ctx.fail("R03.2", "site|" + full_key, "cannot prove that this cannot panic: %s -- it depends on the object invariant R03.6, which does not hold any more" % s.desc, s.loc)
            continue
        ctx.fail("R03.2", "site|" + full_key, "cannot prove that this cannot panic: %s (%s; %d path(s))" % (s.desc, why or "obligation not entailed", npaths), s.loc)
    floor = 32 if facts.raw.get("overflow_checks") else 24        # today: 43 / 31; a restatement with std helpers removes a handful of sites
    if scope is not None:
        ctx.ob("R03.2", "inventory|floor", n_sites >= 1, "%d panic-capable sites enumerated in the functions in scope %s (floor 1): %d proved, %d environment" % (n_sites, list(scope), n_ok, n_env))
        return
    ctx.ob("R03.2", "inventory|floor", n_sites >= floor, "%d panic-capable sites enumerated in %d functions (floor %d for this profile): %d proved, %d environment, %d assumed" % (n_sites, nfn, floor, n_ok, n_env, n_assumed))
    ctx.ob("R03.2", "assumed|none", n_assumed == 0, "%d site(s) assumed rather than proved" % n_assumed)
    # callee classification
    try:
        with open(GEN) as fh:
            std_panics = json.load(fh)
    except OSError:
        raise AnalysisError("engine/gen/std_panics.json missing: run setup")
    unknown = []
    total = 0
    for path, cnt in sorted(pa.callee_inventory.items()):
        if path in facts.fns:
            continue
        total += 1
        if path in PANICKY or path in TOTAL:
            continue
        if last_seg(path) in std_panics:
            unknown.append(path)
    for u in unknown:
        ctx.fail("R03.2", "callee|unclassified|%s" % u, "%s shares its name with a std function documented to panic and is not classified by the checker (fail closed)" % u)
    ctx.ob("R03.2", "callees|classified", total >= 80, "%d distinct external callees inspected (floor 80), %d unclassified-and-suspicious" % (total, len(unknown)))
    ctx.note("axioms used: %s" % sorted(pa.trusted))
    assert_macros(ctx)


def assert_macros(ctx):
    """assert!/assert_eq!/panic! written in non-test code (none expected)."""
    n = 0
    for fn in ctx.facts.fns.values():
        for bb, t in fn.calls():
            p = t["callee"].get("path") or ""
            sp = t["span"].get("exp") or ""
            if p.startswith("core::panicking::assert") or (p.startswith("core::panicking::panic") and sp in ("macro:assert", "macro:assert_eq", "macro:assert_ne", "macro:panic", "macro:debug_assert")):
                n += 1
                ctx.fail("R03.2", "assert-macro|%s" % fn.name, "%s contains an %s in non-test code: a reachable panic" % (fn.name, sp or p), fn.loc(bb))
    ctx.ob("R03.2", "no-assert-macros|scanned", True, "%d assert!/panic! macro sites in non-test code" % n)


def pending_none_under_request_ready(facts, lf):
    """A path that observes state == RequestReady and then finds pending_request (or what take() returned for it) to be
    None -- with no `&mut self` method call and no other take in between -- contradicts the typestate invariant R03.4.
    Such a path arises when the taken Option is passed through a combinator before it is unwrapped
    (`self.pending_request.take().map(..).unwrap()`): the combinator's None arm is enumerated, but cannot be taken."""
    d = {n: k for k, n in facts.variant_discr("connection::ConnectionState").items()}

    def sf(t, name):        # self.<name>, also in the versioned term language (`argv`)
        t = look(t)
        return t[0] == "field" and t[3] == name and look(t[1])[0] in ("arg", "argv") and look(t[1])[1] == 1

    rr = False
    takes = 0
    for ev in lf.events:
        if ev[0] == "cond" and ev[3][0] == "discr" and sf(ev[3][1], "state"):
            rr = ev[4] == ("eq", d["RequestReady"])
            takes = 0
        elif ev[0] == "call" and ev[3] in facts.fns and ev[3].startswith(conn.P) and ev[4][2] and look(ev[4][2][0])[0] in ("arg", "argv") and look(ev[4][2][0])[1] == 1:
            rr = False
        elif ev[0] == "call" and last_seg(ev[3]) == "take" and sf(ev[4][2][0], "pending_request"):
            takes += 1
        elif ev[0] == "assign" and ev[3] == "(*_1).pending_request" and takes == 0:
            rr = False      # written before the take: what was observed no longer describes the field
        elif ev[0] == "cond" and ev[3][0] == "discr" and rr and option_is_some(ev[4]) is False:
            x = look(ev[3][1])
            if takes == 0 and sf(x, "pending_request"):
                return True
            if takes == 1 and is_call(x, "take") and sf(x[2][0], "pending_request"):
                return True
        elif ev[0] == "cond" and ev[3][0] == "discr" and rr and takes == 1:
            # the same observation made with `?`: `self.pending_request.take()?` leaving through the None edge
            from .util import option_test
            if option_test(ev[3], ev[4], lambda y: is_call(y, "take") and sf(y[2][0], "pending_request")) == "none":
                return True
    return False


def unwrap_under_request_ready(ctx):
    """Every unwrap of pending_request.take() -- in whichever method (or helper traversed inline) it sits --
    is preceded on its path by the observation state == RequestReady."""
    d = {n: k for k, n in ctx.facts.variant_discr("connection::ConnectionState").items()}
    found = 0
    lvs = []
    for f in _standalone_methods(ctx.facts):
        lvs.extend(leaves(ctx, f.name)[1])
    for lf in lvs:
        for i, e in enumerate(lf.events):
            if e[0] == "call" and last_seg(e[3]) == "unwrap" and any(is_call(s, "take") for s in subterms(e[4]) if isinstance(s, tuple)):
                found += 1
                # the last state observation before it, with no &mut self call in between
                ok = False
                for ev in lf.events[:i]:
                    if ev[0] == "cond" and ev[3][0] == "discr" and self_field(ev[3][1], "state"):
                        ok = ev[4] == ("eq", d["RequestReady"])
                    elif ev[0] == "call" and ev[3] in ctx.facts.fns and ev[3].startswith(conn.P) and ev[4][2] and look(ev[4][2][0]) == ("arg", 1):
                        ok = False
                    elif ev[0] == "call" and last_seg(ev[3]) == "take" and self_field(ev[4][2][0], "pending_request") and ev is not lf.events[i - 1] and ev[4] != look(e[4][2][0]):
                        ok = False      # an earlier take (not the one whose result is unwrapped here) has emptied it
                if not ok:
                    return False
    return found >= 1


def lift_entry_preconditions(ctx, pa):
    """An obligation of a private helper that only mentions its entry state (fields of self, arguments)
    may be discharged at every call site instead."""
    facts = ctx.facts
    for k, s, ok, npaths, why in pa.verdicts():
        if ok or s.kind != "call" or not s.key.startswith("index|"):
            continue
        fn = facts.fns[s.fn]
        if fn.d["vis"] == "pub":
            continue
        callers = []
        for g in facts.fns.values():
            for bb, t in g.calls_to(fn.name):
                callers.append((g, bb))
        if not callers:
            continue
        # the obligation in callee terms
        obs = []
        for lf in PathEnum(fn, facts, versioned=True).run():
            for e in lf.events:
                if e[0] == "call" and e[1] == s.bb and e[3] in ("std::ops::Index::index", "std::ops::IndexMut::index_mut"):
                    obs.append(e)
        good = bool(obs)
        for e in obs:
            base, idx = e[4][2]
            for t in (base, idx):
                for st_ in subterms(t):
                    if isinstance(st_, tuple) and st_ and st_[0] in ("argv", "mut", "call", "var"):
                        good = False
        if not good:
            continue
        n = 0
        for (g, bb) in callers:
            for lf in PathEnum(g, facts, versioned=True).run():
                st = State()
                tr = Tr(facts, g, st, pa.tables)
                for ev in lf.events:
                    if ev[0] == "cond":
                        tr.assume_cond(ev[3], ev[4])
                    elif ev[0] == "call" and ev[1] == bb and ev[3] == fn.name:
                        actual = ev[4][2]
                        n += 1
                        for e in obs:
                            base = subst_args(e[4][2][0], actual)
                            idx = look(subst_args(e[4][2][1], actual))
                            L = tr.length(base)
                            if idx[0] == "agg" and idx[1].startswith("std::ops::RangeFrom"):
                                a = tr.lin(idx[3][0])
                                if not (st.entails_le(a - L) and st.entails_le(a.scale(-1))):
                                    good = False
                            else:
                                good = False
                        break
        if good and n:
            pa.proofs[k] = [(True, "entry-state precondition, holds at all %d call site path(s) of %s" % (n, fn.name.split("::")[-1]))]


def subst_args(t, actual):
    if not isinstance(t, tuple) or not t:
        return t
    if t[0] == "arg":
        i = t[1] - 1
        return actual[i] if 0 <= i < len(actual) else t
    out = []
    for x in t:
        if isinstance(x, tuple) and x and isinstance(x[0], str):
            out.append(subst_args(x, actual))
        elif isinstance(x, tuple):
            out.append(tuple(subst_args(y, actual) if isinstance(y, tuple) else y for y in x))
        else:
            out.append(x)
    from ..core import simplify
    r = tuple(out)
    if r[0] in ("deref", "ref", "field"):
        r = simplify(r)
    return r


# ------------------------------------------------------------------------------------------ R03.3
FINITE_ITER_SOURCES = ("iter", "iter_mut", "into_iter", "enumerate", "take", "split", "splitn", "bytes", "chars", "drain", "windows", "map", "collect")


def loops(ctx):
    facts = ctx.facts
    loopfn = conn.parse_loop_fn(ctx)
    n = 0
    for fn in facts.fns.values():
        if is_derive(fn):
            continue
        work = [c for c in fn.cycles()]
        while work:
            cyc = work.pop()
            n += 1
            kind = classify_cycle(ctx, fn, cyc)
            if kind[0] in ("iterator", "queue-drain") and len(kind) > 2:
                work.extend(kind[2])  # cycles nested inside, to be classified on their own
            key = "%s|cycle@%s" % (fn.name, kind[0])
            if kind[0] == "parser-loop":
                ok = ranking(ctx, facts.fn(loopfn))
                ctx.ob("R03.3", key, ok, "%s: the parser loop terminates by the ranking (end - line_start, state order)" % fn.name.split("::")[-1], fn.loc(cyc[0]))
            elif kind[0] in ("iterator", "queue-drain"):
                ctx.ob("R03.3", key + "|" + kind[1], True, "%s: cycle driven by %s" % (fn.name.split("::")[-1], kind[1]), fn.loc(cyc[0]))
            elif kind[0] == "flush-loop":
                ctx.ob("R03.3", key, True, "%s: while state == AwaitingOutgoing { write() } -- outside the parsing entry points (blocking flush by contract)" % fn.name.split("::")[-1], fn.loc(cyc[0]))
            else:
                ctx.fail("R03.3", key + "|unclassified", "%s has a cycle that is neither iterator-driven, a queue drain nor the parser loop: %s" % (fn.name, kind[1]), fn.loc(cyc[0]))
    ctx.ob("R03.3", "floor", n >= 8, "%d CFG cycles classified (floor 8)" % n)


def classify_cycle(ctx, fn, cyc):
    """('iterator', desc) if every way round the cycle passes a switch on Iterator::next()'s discriminant
    whose None edge leaves the cycle; ('queue-drain', ..) for while let Some(_) = pop(); ..."""
    cs = set(cyc)
    drivers = []
    for b in cyc:
        t = fn.blocks[b]["term"]
        if t["k"] == "call":
            p = t["callee"].get("path") or ""
            res = t["callee"].get("resolved") or {}
            if p == "std::iter::Iterator::next":
                drivers.append(("iterator", "Iterator::next on " + ((t["callee"].get("self_ty") or {}).get("s") or "?")[:60], b))
            elif last_seg(p) in ("pop_front", "pop", "pop_back") and ("VecDeque" in p or "Vec" in p):
                drivers.append(("queue-drain", last_seg(p), b))
            elif last_seg(p) in ("remove", "swap_remove") and "vec::Vec" in p and not any(fn.blocks[b2]["term"]["k"] == "call" and last_seg(fn.blocks[b2]["term"]["callee"].get("path") or "") in ("push", "insert", "extend", "append", "extend_from_slice", "resize") and "vec::Vec" in (fn.blocks[b2]["term"]["callee"].get("path") or "") for b2 in cyc):
                # `while !v.is_empty() { .. v.remove(0) .. }`: every round takes one element out and none is added (an index out of
                # range would be a panic site of its own, R03.2)
                drivers.append(("queue-drain", last_seg(p), b))
            elif p == conn.P + "pop_parsed_request":
                drivers.append(("queue-drain", "pop_parsed_request", b))
    loopfn = conn.parse_loop_fn(ctx)
    in_loop_fn = fn.name == loopfn or (is_new_fn(fn.name) and reaches_via_new(ctx.facts, ctx.facts.fn(loopfn), fn.name))
    if in_loop_fn and any(block_reaches(ctx.facts, fn, b, conn.PARSE_RL) for b in cyc):
        return ("parser-loop", "")
    if fn.name == "server::HttpServer::flush_outgoing_writes":
        inner = [b for b in cyc if fn.blocks[b]["term"]["k"] == "call" and (fn.blocks[b]["term"]["callee"].get("path") or "").endswith("ClientConnection::<T>::write")]
        its = [d for d in drivers if d[0] == "iterator"]
        if inner and not its:
            return ("flush-loop", "")
    for d in drivers:
        # removing the driver block must break the cycle (every round passes through it);
        # cycles that remain are nested loops and are classified separately
        inner = sub_cycles(fn, cs - {d[2]})
        if inner and d[0] == "iterator":
            return (d[0], d[1], inner)
        if breaks_cycle(fn, cs, d[2]):
            # nothing in the cycle pushes onto the drained queue
            if d[0] == "queue-drain":
                pushes = [b for b in cyc if fn.blocks[b]["term"]["k"] == "call" and last_seg(fn.blocks[b]["term"]["callee"].get("path") or "") in ("push_back", "push_front", "enqueue_response") and "Request" in json.dumps(fn.blocks[b]["term"]["callee"].get("targs", []))[:400]]
                if pushes:
                    continue
            return (d[0], d[1])
    if _capacity_bounded(ctx, fn, cs):
        return ("queue-drain", "growth of the connection map up to MAX_CONNECTIONS")
    return ("unknown", "blocks %s" % sorted(cs)[:12])


def _capacity_bounded(ctx, fn, cs):
    """`loop { if connections.len() == MAX_CONNECTIONS { leave } accept; insert }`: every round passes the test, an accept and
    an insertion under the descriptor just accepted (open, hence not a key of the map: trusted, as in C09), nothing is removed
    in the cycle, and the test leaves the cycle at the constant: at most MAX_CONNECTIONS rounds."""
    mc = ctx.facts.const_int("server::MAX_CONNECTIONS")

    def call(b):
        t = fn.blocks[b]["term"]
        return t if t["k"] == "call" else None

    def on_map(t):
        return "HashMap" in (t["callee"].get("path") or "") and "ClientConnection" in (t["callee"].get("full") or "")

    tests, inserts, accepts = [], [], []
    for b in cs:
        t = call(b)
        if t is None:
            continue
        p = t["callee"].get("path") or ""
        if on_map(t) and last_seg(p) in ("remove", "retain", "clear", "drain", "remove_entry", "extract_if"):
            return False
        if on_map(t) and last_seg(p) == "insert":
            inserts.append(b)
        if last_seg(p) == "accept" and "UnixListener" in p:
            accepts.append(b)
        if on_map(t) and last_seg(p) == "len" and t.get("target") is not None:
            nb = fn.blocks[t["target"]]
            sw = nb["term"]
            dest = t.get("dest") or {}
            for st_ in nb["stmts"]:
                rv = st_.get("rv") or {}
                if st_.get("k") == "assign" and rv.get("k") == "binop" and rv.get("op") in ("Eq", "Ge", "Ne", "Lt"):
                    l, r_ = rv.get("l") or {}, rv.get("r") or {}
                    if (l.get("place") or {}).get("local") == dest.get("local") and r_.get("k") == "const" and (r_.get("val") or {}).get("v") == mc:
                        if sw["k"] == "switch" and (sw["discr"].get("place") or {}).get("local") == st_["place"]["local"] and len(sw["targets"]) == 1 and sw["targets"][0][0] == 0:
                            when_false, when_true = sw["targets"][0][1], sw["otherwise"]
                            leaves_at_cap = when_true if rv["op"] in ("Eq", "Ge") else when_false
                            if leaves_at_cap not in cs:
                                tests.append(b)
    if len(tests) != 1 or len(inserts) != 1 or len(accepts) != 1:
        return False
    return all(breaks_cycle(fn, cs, b) for b in (tests[0], inserts[0], accepts[0]))


def sub_cycles(fn, nodes):
    """SCCs with a cycle inside the sub-graph induced by `nodes`."""
    nodes = set(nodes)
    index, low, on, stack, out = {}, {}, set(), [], []
    counter = [0]
    def strong(v):
        work = [(v, 0)]
        while work:
            v, i = work.pop()
            if i == 0:
                index[v] = low[v] = counter[0]
                counter[0] += 1
                stack.append(v)
                on.add(v)
            ss = [x for x in fn.succ[v] if x in nodes]
            rec = False
            while i < len(ss):
                w = ss[i]
                i += 1
                if w not in index:
                    work.append((v, i))
                    work.append((w, 0))
                    rec = True
                    break
                elif w in on:
                    low[v] = min(low[v], index[w])
            if rec:
                continue
            if low[v] == index[v]:
                comp = []
                while True:
                    w = stack.pop()
                    on.discard(w)
                    comp.append(w)
                    if w == v:
                        break
                if len(comp) > 1 or v in fn.succ[v]:
                    out.append(sorted(comp))
            if work:
                u = work[-1][0]
                low[u] = min(low[u], low[v])
    for v in sorted(nodes):
        if v not in index:
            strong(v)
    return out


def breaks_cycle(fn, cs, b):
    rest = cs - {b}
    # any cycle left inside rest?
    color = {}
    def dfs(u):
        stack = [(u, iter([s for s in fn.succ[u] if s in rest]))]
        color[u] = 1
        while stack:
            node, it = stack[-1]
            adv = False
            for s in it:
                if color.get(s) == 1:
                    return True
                if s not in color:
                    color[s] = 1
                    stack.append((s, iter([x for x in fn.succ[s] if x in rest])))
                    adv = True
                    break
            if not adv:
                color[node] = 2
                stack.pop()
        return False
    for u in rest:
        if u not in color:
            if dfs(u):
                return False
    return True


def ranking(ctx, fn):
    """Each arm of the parser loop that continues either advances the line start by >= 2 (and keeps it
    <= end <= 1024) or belongs to the acyclic zero-advance chain WaitingForBody -> RequestReady -> WaitingForRequestLine."""
    facts = ctx.facts
    ok_all = True
    succ_zero = {}   # state before -> state after for zero-advance arms
    arm_of = {conn.PARSE_RL: "WaitingForRequestLine", conn.PARSE_H: "WaitingForHeaders", conn.PARSE_B: "WaitingForBody"}
    for name, st_name in arm_of.items():
        f = facts.fn(name)
        lv = PathEnum(f, facts, versioned=True, lower=True).run()
        for lf in lv:
            rk = ret_kind(lf)
            if rk is None or rk[0] != "Ok" or look(rk[1]) != ("const", True):
                continue
            st = State()
            tr = Tr(facts, f, st)
            new_start = None
            new_state = None
            for e in lf.events:
                if e[0] == "cond":
                    tr.assume_cond(e[3], e[4])
                elif e[0] == "assign" and e[3] == "(*_2)":
                    new_start = e[4]
                elif e[0] == "assign" and e[3] == "(*_1).state":
                    new_state = e[4][2] if e[4][0] == "agg" else "?"
            s0 = tr.lin(("deref", ("arg", 2)))
            end = tr.lin(("arg", 3))
            if new_start is None:
                adv2 = adv0 = False
                within = True
            else:
                s1 = tr.lin(new_start)
                adv2 = st.entails_le(s0 + Lin.const(2) - s1)
                adv0 = st.entails_le(s0 - s1)
                within = st.entails_le(s1 - end) and st.entails_le(end - Lin.const(1024))
            after = new_state or st_name
            short = name.split("::")[-1]
            if adv2 and within:
                ctx.ob("R03.3", "ranking|%s|advances|->%s" % (short, after), True, "%s returning true advances the line start by >= 2 and keeps it <= end <= 1024" % short, f.loc(lf.bb))
            elif adv0 and within:
                succ_zero.setdefault(st_name, set()).add(after)
                ctx.ob("R03.3", "ranking|%s|zero-advance|->%s" % (short, after), after != st_name, "%s returning true may not advance but moves the state %s -> %s" % (short, st_name, after), f.loc(lf.bb))
                ok_all = ok_all and after != st_name
            else:
                ok_all = False
                ctx.fail("R03.3", "ranking|%s|no-progress" % short, "%s can return true without provable progress (advance >= 0: %s, within bounds: %s)" % (short, adv0, within), f.loc(lf.bb))
    # the RequestReady arm of the loop function itself
    d = {n: k for k, n in facts.variant_discr("connection::ConnectionState").items()}
    _, lv = leaves(ctx, fn.name)
    for lf in lv:
        if lf.kind != "loop":
            continue
        sel = None
        for (t, c, _b) in lf.conds:
            if t[0] == "discr" and any(isinstance(s, tuple) and s and s[0] == "field" and s[3] == "state" for s in subterms(t)) and c[0] == "eq":
                sel = [n for n, k in d.items() if k == c[1]][0]
        calls_p = [e for e in lf.events if e[0] == "call" and e[3] in arm_of]
        if sel == "RequestReady":
            st_assign = [e for e in lf.events if e[0] == "assign" and e[3].endswith(".state")]
            after = st_assign[-1][4][2] if st_assign and st_assign[-1][4][0] == "agg" else "RequestReady"
            succ_zero.setdefault("RequestReady", set()).add(after)
            ctx.ob("R03.3", "ranking|RequestReady-arm|->%s" % after, after != "RequestReady" and not calls_p, "the RequestReady arm moves the state to %s without consuming input" % after, fn.loc(lf.bb))
            ok_all = ok_all and after != "RequestReady"
        elif calls_p:
            want = [k for k, v in arm_of.items() if v == sel]
            ctx.ob("R03.3", "ranking|dispatch|%s" % sel, want and calls_p[0][3] == want[0], "state %s dispatches to %s" % (sel, calls_p[0][3].split("::")[-1]), fn.loc(lf.bb))
            ok_all = ok_all and bool(want) and calls_p[0][3] == want[0]
    # zero-advance successor graph must be acyclic
    def cyclic(g):
        seen, stack = set(), set()
        def go(u):
            if u in stack:
                return True
            if u in seen:
                return False
            seen.add(u)
            stack.add(u)
            for v in g.get(u, ()):
                if go(v):
                    return True
            stack.discard(u)
            return False
        return any(go(u) for u in list(g))
    acyc = not cyclic(succ_zero)
    ctx.ob("R03.3", "ranking|zero-advance-acyclic", acyc, "zero-advance transitions %s form no cycle" % {k: sorted(v) for k, v in succ_zero.items()})
    return ok_all and acyc


# ------------------------------------------------------------------------------------------ R03.5
def recursion(ctx):
    facts = ctx.facts
    g = {}
    for f in facts.fns.values():
        out = set()
        for bb, t in f.calls():
            c = t["callee"]
            r = c.get("resolved")
            p = r["path"] if r and r.get("local") else (c.get("path") if c.get("local") and not c.get("trait") else None)
            if p and p in facts.fns:
                out.add(p)
        for cl in facts.closures_of(f.name):
            out.add(cl.name)
        g[f.name] = out
    # Tarjan-free: DFS cycle detection
    color = {}
    cyc = []
    def dfs(u, path):
        color[u] = 1
        for v in g.get(u, ()):
            if color.get(v) == 1:
                cyc.append(path + [u, v])
            elif v not in color:
                dfs(v, path + [u])
        color[u] = 2
    import sys
    sys.setrecursionlimit(10000)
    for u in g:
        if u not in color:
            dfs(u, [])
    for c in cyc[:3]:
        ctx.fail("R03.5", "recursion|%s" % c[-1], "recursive call chain: %s" % " -> ".join(x.split("::")[-1] for x in c[-4:]))
    ctx.ob("R03.5", "acyclic", not cyc, "call graph of %d functions has no cycle" % len(g))
