"""C04 -- payload and line-length limits are enforced exactly and before buffering."""
from ..core import AnalysisError, term_s, subterms
from ..fmtdecode import format_pieces
from ..paths import PathEnum
from . import conn
from .conn import leaves, ret_kind, self_field, find_outcome, pushes, assigns_to
from .fields import field_writers
from .util import writer_roots, const_of, is_call, last_seg, look, norm, truth, option_is_some

EXPLANATION = (
    "Static decision of the limit checks: the SizeLimitExceeded error of the incremental parser is "
    "returned exactly on the paths where `content_length as usize > self.payload_max_size` holds "
    "(operator and both operands reconstructed from MIR), carries (limit, declared length) in that "
    "order, sits in the end-of-headers step and precedes every write of the body state, of the "
    "remaining-bytes counter and the enqueue of `100 Continue`; both line parsers report a too-long "
    "line exactly under find == None (of the whole window buffer[start..end]) and end == BUFFER_SIZE and start == 0, no path leaves "
    "the end of the headers with a declared length without having asked the limit, with BUFFER_SIZE = 1024 = "
    "length of the buffer array; the server passes its configured limit to every new connection before "
    "it is stored; the error's Display prints both numbers and the server's 400 body is built from it. "
    "Decides these clauses; 'wherever it falls in the stream' over all alignments is not decided."
)
TRUSTED = ["usize/u32 comparison and `as usize` widening on a 64-bit target"]
ASSUMPTIONS = ["target pointer width >= 32"]
NOT_DECIDED = "the iff over all alignments/segmentations; that a delivered body never exceeds L follows from R04.1 + C03's body accounting, not decided here"

SRV = "server::HttpServer"


def run(ctx):
    ctx.rule("R04.1", "SizeLimitExceeded(limit, n) is returned exactly when n as usize > self.payload_max_size")
    ctx.rule("R04.2", "the size check happens at end of headers, before any body state is written or Continue queued")
    ctx.rule("R04.3", "line too long <=> find == None and end == BUFFER_SIZE and start == 0, in both line parsers; BUFFER_SIZE = 1024 = buffer length")
    ctx.rule("R04.4", "the server hands its payload limit to each new connection before storing it; setters store their argument")
    ctx.rule("R04.5", "the size error prints both numbers and the server's 400 carries that text")
    ctx.guarded("R04.1", "comparison", lambda: comparison(ctx))
    ctx.guarded("R04.3", "line-limit", lambda: line_limit(ctx))
    from .c06 import _Remap
    from . import c14
    ctx.guarded("R04.3", "find", lambda: c14.find_shape(_Remap(ctx, "R04.3")))
    ctx.guarded("R04.4", "handover", lambda: handover(ctx))
    ctx.guarded("R04.5", "reporting", lambda: reporting(ctx))
    ctx.rule("R04.6", "a receive is attempted whenever the buffer has room: read_bytes rejects up front only when read_cursor >= BUFFER_SIZE")
    ctx.guarded("R04.6", "read-guard", lambda: read_guard(ctx))


def is_size_err(t):
    t = look(t)
    if t[0] == "agg" and t[2] == "ParseError":
        e = look(t[3][0])
        return e if e[0] == "agg" and e[2] == "SizeLimitExceeded" else None
    return None


def comparison(ctx):
    fn, lv = leaves(ctx, conn.PARSE_H)
    n_err = n_cmp = 0
    for lf in lv:
        rk = ret_kind(lf)
        if rk is None:
            continue
        big = conn.size_exceeded_truth(lf)
        if isinstance(big, tuple):
            ctx.fail("R04.1", "operator", "the size comparison uses %s between the declared length and the limit; the property needs strict `length > limit`" % big[1], fn.loc(lf.bb))
            continue
        err = is_size_err(rk[1]) if rk[0] == "Err" else None
        if big is None and find_outcome(lf) == "some0" and conn.cl_zero_truth(lf) is False:
            # the end of the headers was found, a length is declared, and the path leaves without having asked the limit
            ctx.fail("R04.1", "limit-asked-whenever-a-length-is-declared|bb%d" % lf.bb, "a path that finds the end of the headers with Content-Length != 0 ends (%s) without comparing the length with the limit: for those requests n > L is not answered with SizeLimitExceeded(L, n)" % rk[0], fn.loc(lf.bb))
        if big is not None:
            n_cmp += 1
            # operands
            for (t, c, _b) in lf.conds:
                if conn.is_size_cmp(t):
                    a, b = look(t[2]), look(t[3])
                    # `min(length, limit) < length`: the operands are those of the min
                    for m_, o_ in ((a, b), (b, a)):
                        m0 = m_
                        while m0[0] == "cast":
                            m0 = look(m0[1])
                        if is_call(m0, "min") and len(m0[2]) == 2 and conn.is_len_term(o_):
                            a, b = look(m0[2][0]), look(m0[2][1])
                            break
                    if any(isinstance(s, tuple) and s and s[0] == "field" and s[3] == "payload_max_size" for s in subterms(a)):
                        a, b = b, a
                    ok_a = a[0] == "cast" and a[2] == "usize" and is_call(look(a[1]), "common::headers::Headers::content_length") and conn.pending_req(a)
                    ok_b = self_field(conn.lim_field(b), "payload_max_size")
                    ctx.ob("R04.1", "operands", ok_a and ok_b, "compares `pending.headers.content_length() as usize` (%s) with `self.payload_max_size` (%s)" % (ok_a, ok_b), fn.loc(_b))
        if big is True:
            ctx.ob("R04.1", "exceeds->error", err is not None, "length > limit returns ParseError(SizeLimitExceeded)", fn.loc(lf.bb))
            if err is not None:
                n_err += 1
                lim, size = look(err[3][0]), look(err[3][1])
                ok = self_field(conn.lim_field(lim), "payload_max_size") and size[0] == "cast" and is_call(look(size[1]), "common::headers::Headers::content_length")
                ctx.ob("R04.1", "error-fields", ok, "SizeLimitExceeded(limit = self.payload_max_size, size = declared length): (%s, %s)" % (term_s(lim)[:50], term_s(size)[:70]), fn.loc(lf.bb))
            # R04.2: nothing buffered before
            st = [e for e in lf.events if e[0] == "assign" and e[3] in ("(*_1).state", "(*_1).body_bytes_to_be_read", "(*_1).body_vec")]
            ctx.ob("R04.2", "reject-before-buffering", not st, "on the rejecting path no body state is written (writes %s)" % [e[3] for e in st], fn.loc(lf.bb))
            ctx.ob("R04.2", "at-end-of-headers", find_outcome(lf) == "some0", "the size check is made when the blank line is found", fn.loc(lf.bb))
        else:
            ctx.ob("R04.1", "error-only-when-exceeds|bb%s" % (lf.trace[-2] if len(lf.trace) > 1 else 0), err is None, "SizeLimitExceeded is returned only under length > limit", fn.loc(lf.bb))
            # body state is entered only after the check said "fits"
            wb = [e for e in lf.events if e[0] == "assign" and e[3] == "(*_1).state" and e[4][0] == "agg" and e[4][2] == "WaitingForBody"]
            if wb:
                ctx.ob("R04.2", "body-state-after-check", big is False and conn.cl_zero_truth(lf) is False, "WaitingForBody is entered only with length != 0 and length <= limit established (len0=%s, too-big=%s)" % (conn.cl_zero_truth(lf), big), fn.loc(wb[0][1]))
                br = [e for e in lf.events if e[0] == "assign" and e[3] == "(*_1).body_bytes_to_be_read"]
                ok = len(br) == 1 and is_call(look(br[0][4]), "common::headers::Headers::content_length") and conn.pending_req(br[0][4])
                ctx.ob("R04.2", "remaining-bytes-is-declared-length", ok, "body_bytes_to_be_read is initialised with the declared length", fn.loc(wb[0][1]))
    ctx.ob("R04.1", "floor", n_err >= 1 and n_cmp >= 2, "%d rejecting path(s), %d paths through the comparison (floors 1, 2)" % (n_err, n_cmp), fn.loc(0))
    # no other function of the parser constructs the error
    sites = []
    for f in ctx.facts.fns.values():
        for bi, si, place, rv in f.assigns():
            if rv["k"] == "aggregate" and rv.get("agg") == "adt" and rv["adt"] == "common::RequestError" and rv["variant"] == "SizeLimitExceeded":
                sites.append(f.name)
    from .util import roots_of
    roots = set()
    for f in sites:
        roots |= roots_of(ctx.facts, f) or {f}
    ctx.ob("R04.1", "single-site", len(sites) == 1 and roots == {conn.PARSE_H}, "RequestError::SizeLimitExceeded is constructed in: %s (on behalf of %s)" % (sites, sorted(roots)))


def line_limit(ctx):
    facts = ctx.facts
    bs = facts.const_int("connection::BUFFER_SIZE")
    ctx.ob("R04.3", "BUFFER_SIZE", bs == 1024, "BUFFER_SIZE evaluates to %d" % bs)
    bty = [f for f in facts.struct_fields(conn.HC) if f["name"] == "buffer"][0]["ty"]
    ctx.ob("R04.3", "buffer-length", bty.get("k") == "array" and bty.get("len") == bs, "HttpConnection.buffer is %s (length must equal BUFFER_SIZE)" % bty["s"])
    for name, errpred, label in (
        (conn.PARSE_RL, lambda e: e[0] == "agg" and e[2] == "InvalidRequest", "request line"),
        (conn.PARSE_H, lambda e: e[0] == "agg" and e[2] == "HeaderError" and look(e[3][0])[0] == "agg" and look(e[3][0])[2] == "SizeLimitExceeded", "header line"),
    ):
        fn, lv = leaves(ctx, name)
        seen = 0
        for lf in lv:
            if find_outcome(lf) != "none":
                # ... and the reverse: a path that treats the line as unfinished (carries it over, or refuses it as too long) has
                # asked find(buffer[start..end], CRLF) and was told None -- a short cut that answers "no line end" from anything
                # less than a search of the whole window refuses lines that do fit
                rk0 = ret_kind(lf)
                e0 = look(rk0[1]) if rk0 is not None and rk0[0] == "Err" else None
                gives_up = any(e[0] == "call" and e[3] == conn.SHIFT for e in lf.events) or (e0 is not None and e0[0] == "agg" and e0[2] == "ParseError" and errpred(look(e0[3][0])))
                if gives_up:
                    ctx.fail("R04.3", "unfinished-only-after-full-search|%s|bb%d" % (label, lf.bb), "a path of the %s parser carries the line over / refuses it as too long without find(buffer[start..end], CRLF) having answered None on it" % label, fn.loc(lf.bb))
                continue
            rk = ret_kind(lf)
            if rk is None:
                continue
            # what the path's conditions say about start == 0 and end == BUFFER_SIZE, by linear arithmetic over them (so
            # `end - start == BUFFER_SIZE` under `start == 0`, a helper, or `>=` given end <= BUFFER_SIZE all read the same)
            from ..lin import Lin, State
            from ..panics import Tr
            st = State()
            tr = Tr(facts, fn, st)
            for e in lf.events:
                if e[0] == "cond":
                    tr.assume_cond(e[3], e[4])
            START, END = tr.lin(("deref", ("arg", 2))), tr.lin(("arg", 3))
            st.add_le(END - Lin.const(bs))          # the receive window (checked below) keeps end <= BUFFER_SIZE
            st.add_le(START.scale(-1))
            if any(e[0] == "call" and last_seg(e[3]) == "index" and self_field(e[4][2][0], "buffer") for e in lf.events):
                st.add_le(START - END)      # buffer[start..end] was sliced on this path (it is what was searched): start <= end

            def decided(expr):
                if st.entails_eq(expr):
                    return True
                s2 = st.copy()
                s2.add_eq(expr)
                s2.sharpen()
                return False if s2.inconsistent() else None
            s0, e1024 = decided(START), decided(END - Lin.const(bs))
            toolong = (s0 is True and e1024 is True)
            both = st.copy()
            both.add_eq(START)
            both.add_eq(END - Lin.const(bs))
            both.sharpen()
            # undetermined atoms are fine when the conditions already exclude "start == 0 and end == BUFFER_SIZE"
            excluded = both.inconsistent()
            if not excluded:
                # ... also as a refuted conjunction: `(start, end) == (0, BUFFER_SIZE)` / `end.checked_sub(start) == Some(BUFFER_SIZE)`
                # found false, while start == 0 and end == BUFFER_SIZE would make every one of its equalities true
                for e in lf.events:
                    if e[0] != "cond" or truth(e[4]) is None:
                        continue
                    x = look(e[3])
                    pe = tr.pair_equalities(x)
                    if pe is not None and truth(e[4]) != (last_seg(x[1]) == "eq") and all(both.entails_eq(a_ - b_) for a_, b_ in pe):
                        excluded = True
            undecided = not toolong and not excluded
            is_err = False
            if rk[0] == "Err":
                e = look(rk[1])
                is_err = e[0] == "agg" and e[2] == "ParseError" and errpred(look(e[3][0]))
            seen += 1
            key = "%s|start0=%s,end=%s" % (label, s0, e1024)
            if is_err:
                ctx.ob("R04.3", "too-long-only-when|%s" % key, toolong, "%s rejected as too long only when no CRLF was found, end == %d and start == 0" % (label, bs), fn.loc(lf.bb))
            elif undecided and rk[0] != "prop":
                ctx.fail("R04.3", "undecided|%s" % key, "a no-CRLF path of the %s parser does not test both start == 0 and end == %d" % (label, bs), fn.loc(lf.bb))
            elif toolong:
                ctx.ob("R04.3", "too-long-rejected|%s" % key, False, "%s longer than the buffer is not rejected on this path" % label, fn.loc(lf.bb))
            else:
                shifted = any(e[0] == "call" and e[3] == conn.SHIFT for e in lf.events)
                if not shifted and s0 is True:
                    # a line that already sits at the front needs no move: recording `read_cursor = end` is all shift_buffer_left(0, end) does
                    cur = [e for e in lf.events if e[0] == "assign" and e[3] == "(*_1).read_cursor"]
                    shifted = len(cur) == 1 and st.entails_eq(tr.lin(cur[0][4]) - END)
                ctx.ob("R04.3", "partial-line-kept|%s" % key, shifted, "an incomplete %s that still fits is carried over (shift_buffer_left)" % label, fn.loc(lf.bb))
        ctx.ob("R04.3", "floor|%s" % label, seen >= 3, "%d no-CRLF paths classified in the %s parser (floor 3)" % (seen, label), fn.loc(0))
    # read_bytes hands the window buffer[read_cursor..] to the receive call
    fr, lr = conn.receive_leaves(ctx)
    okw = False
    for lf in lr:
        for e in lf.events:
            if e[0] == "call" and last_seg(e[3]) == "index_mut" and self_field(e[4][2][0], "buffer"):
                r = look(e[4][2][1])
                if r[0] == "agg" and r[1].startswith("std::ops::RangeFrom") and self_field(r[3][0], "read_cursor"):
                    okw = True
    ctx.ob("R04.3", "receive-window", okw, "the receive window is buffer[read_cursor..] (so end <= BUFFER_SIZE)", fr.loc(0))


def handover(ctx):
    facts = ctx.facts
    # closure that builds the connection
    cands = [f for f in facts.fns.values() if f.d.get("parent") == "server::HttpServer::handle_new_connection" or f.name == "server::HttpServer::handle_new_connection"]
    found = 0
    INL = {conn.P + "new", conn.P + "set_payload_max_size", "server::ClientConnection::<T>::new"}
    hc_names = [x["name"] for x in facts.struct_fields(conn.HC)]
    for f in cands:
        # constructors and the setter traversed inline: the value stored in the map is a literal whose fields can be read off
        lv = PathEnum(f, facts, inline_also=lambda p_, a_: p_ in INL).run()
        ctx.touched(f)
        for lf in lv:
            ins = [e for e in lf.events if e[0] == "call" and last_seg(e[3]) == "insert" and "HashMap" in e[3]]
            if not ins:
                continue
            found += 1
            v = look(ins[0][4][2][2])
            hcs = [x for x in subterms(v) if isinstance(x, tuple) and x and x[0] == "agg" and x[1] == conn.HC]
            ok = len(hcs) == 1
            if ok:
                from .util import struct_field_value
                a0 = struct_field_value(facts, hcs[0], "payload_max_size")
                a = look(a0) if a0 is not None else ("unknown", "payload_max_size not readable from the literal")
                if a[0] == "agg" and a[2] == "Some" and "Option" in a[1] and len(a[3]) == 1:
                    a = look(a[3][0])       # the limit kept as an Option: Some(the server's value)
                    if a[0] == "deref":
                        a = look(a[1])
                if a[0] == "field" and look(a[1]) == ("arg", 1) and a[3].isdigit() and f.d["kind"] == "closure":
                    caps = closure_captures(ctx, f.name)
                    a = look(caps[int(a[3])]) if caps and int(a[3]) < len(caps) else a
                ok = a[0] == "field" and a[3] == "payload_max_size" and a[2] == SRV
            ctx.ob("R04.4", "handover|%s" % f.name.split("::")[-1], ok, "the connection stored in the map has payload_max_size == the server's payload_max_size at that moment (constructor argument or setter call, evaluated)", f.loc(lf.bb))
    ctx.ob("R04.4", "handover|floor", found >= 1, "%d path(s) insert a new connection (floor 1)" % found)
    for name, adt in ((conn.P + "set_payload_max_size", conn.HC), ("server::HttpServer::set_payload_max_size", SRV)):
        fn, lv = leaves(ctx, name)
        for lf in lv:
            a = [e for e in lf.events if e[0] == "assign" and e[3] == "(*_1).payload_max_size"]
            v = look(a[0][4]) if len(a) == 1 else None
            if v is not None and v[0] == "agg" and v[2] == "Some" and "Option" in v[1] and len(v[3]) == 1:
                v = look(v[3][0])
            ctx.ob("R04.4", "setter|%s" % name, len(a) == 1 and v == ("arg", 2), "%s stores its argument (as it is, or as Some(argument) when the field is an Option)" % name, fn.loc(0))
    callers = sorted({f.name for f in facts.fns.values() if list(f.calls_to(conn.P + "set_payload_max_size"))})
    ctx.ob("R04.4", "connection-limit-set-only-at-accept", all(r.startswith("server::HttpServer::handle_new_connection") for c in callers for r in writer_roots(facts, c)), "HttpConnection::set_payload_max_size is called only while accepting a connection (callers: %s): an open connection keeps the limit it was given" % callers)
    allowed = {conn.HC: {conn.P + "new", conn.P + "set_payload_max_size"}, SRV: {"server::HttpServer::new", "server::HttpServer::new_from_fd", "server::HttpServer::set_payload_max_size"}}
    for adt, ok_fns in allowed.items():
        for w in field_writers(facts, adt, "payload_max_size"):
            good = writer_roots(facts, w[0]) <= ok_fns
            if not good and w[3] == "construct" and adt == conn.HC and w[0].startswith(conn.P):
                # another constructor of HttpConnection: used only while accepting (the value it stores is checked at the insertion above)
                from .util import caller_fns
                ccn = "server::ClientConnection::<T>::new"
                at_accept = lambda r: r.startswith("server::HttpServer::handle_new_connection") or r in ok_fns or (r == ccn and caller_fns(facts, ccn) <= {"server::HttpServer::handle_new_connection"})
                good = all(at_accept(r) for r in writer_roots(facts, w[0]))
            ctx.ob("R04.4", "writers|%s|%s" % (adt.split("::")[-1], w[0]), good, "writer of %s.payload_max_size: %s (%s)" % (adt, w[0], w[3]), w[2])


def read_guard(ctx):
    from ..lin import Lin, State
    from ..panics import Tr
    from ..paths import PathEnum
    facts = ctx.facts
    bs = facts.const_int("connection::BUFFER_SIZE")
    fn = facts.fn(conn.READ_BYTES)
    ctx.touched(fn)
    n = 0
    for lf in PathEnum(fn, facts, versioned=True).run():
        rk = ret_kind(lf)
        recv = [e for e in lf.events if e[0] == "call" and (e[3] == conn.RECV or (last_seg(e[3]) == "recv_with_fds"))]
        if recv or rk is None:
            continue
        # a path that gives up before receiving
        n += 1
        st = State()
        tr = Tr(facts, fn, st)
        for e in lf.events:
            if e[0] == "cond":
                tr.assume_cond(e[3], e[4])
        cur = tr.lin(("field", ("deref", ("arg", 1)), conn.HC, "read_cursor"))
        full = st.entails_le(Lin.const(bs) - cur)
        ctx.ob("R04.6", "gives-up-only-when-full", full, "read_bytes returns without receiving only when read_cursor >= %d is established (a line of exactly %d bytes can still be completed)" % (bs, bs), fn.loc(lf.bb))
    ctx.ob("R04.6", "floor", n >= 1, "%d path(s) of read_bytes return before the receive" % n)


def closure_captures(ctx, cname):
    """Capture operands of closure `cname` as written where its parent creates it."""
    parent = ctx.facts.fns[cname].d.get("parent")
    for pf in [f for f in ctx.facts.fns.values() if f.name == parent or f.d.get("parent") == parent]:
        if pf.name == cname:
            continue
        _, lv = leaves(ctx, pf.name)
        for lf in lv:
            for e in lf.events:
                if e[0] == "call":
                    for a in e[4][2]:
                        x = look(a)
                        if x[0] == "closure" and x[1] == cname:
                            return x[2]
                if e[0] == "assign" and e[4][0] == "closure" and e[4][1] == cname:
                    return e[4][2]
    return None


def reporting(ctx):
    facts = ctx.facts
    fn, lv = leaves(ctx, "<common::RequestError as std::fmt::Display>::fmt")
    discr = {n: d for d, n in facts.variant_discr("common::RequestError").items()}
    hit = 0
    for lf in lv:
        sel = [c for (t, c, _b) in lf.conds if t[0] == "discr" and look(t[1]) == ("arg", 1)]
        if not sel or sel[-1] != ("eq", discr["SizeLimitExceeded"]):
            continue
        hit += 1
        ev = [e for e in lf.events if e[0] == "call" and e[3].startswith("std::fmt::Arguments") and last_seg(e[3]) == "new"]
        ok = len(ev) == 1
        fields = set()
        if ok:
            ps = format_pieces(ev[0][4])
            for p in ps:
                if p[0] == "arg":
                    a = look(p[1])
                    if a[0] == "field" and a[1][0] == "downcast" and a[1][2] == "SizeLimitExceeded":
                        fields.add(a[3])
        ctx.ob("R04.5", "display|both-numbers", fields == {"0", "1"}, "Display of SizeLimitExceeded prints both fields (found %s)" % sorted(fields), fn.loc(lf.bb))
    ctx.ob("R04.5", "display|floor", hit == 1, "%d Display path(s) for SizeLimitExceeded" % hit, fn.loc(0))
    from .c11 import server_400_arm
    server_400_arm(ctx, "R04.5")
