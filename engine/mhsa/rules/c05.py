"""C05 -- serialized responses are well-formed and self-delimiting."""
from ..core import AnalysisError, term_s, subterms
from ..paths import PathEnum
from ..seqshape import pieces_of, success_leaf, is_try_cond
from ..tables import enum_const_table
from .util import option_is_some, cond_holds, const_of, is_call, look, norm, truth, transforms, last_seg
from .c16 import status_table
from .fields import field_writers

EXPLANATION = (
    "Static decision of the serializer: the ordered sequence of pieces handed to Write::write_all on "
    "the sink is extracted from the MIR of Response::write_all and its helpers on every error-free "
    "path (path-sensitive dataflow, adjacent literals concatenated, enum->bytes tables folded) and "
    "compared with the documented wire format under every valuation of the branch atoms "
    "(length present, encoding flag, deprecation flag, allow list empty); only write_all may touch "
    "a sink in response.rs; set_body couples Content-Length to the stored body; Response::new omits "
    "the length exactly for Continue and NoContent; StatusCode::raw is the injective 3-digit table. "
    "Decides these clauses for all responses; it does not execute the serializer."
)
TRUSTED = ["io::Write::write_all writes its whole argument or fails", "i32::to_string is the decimal rendering", "Vec::len/as_slice"]
ASSUMPTIONS = ["bodies shorter than 2^31 bytes (as i32 does not wrap)", "server identity string without CR/LF"]
NOT_DECIDED = "bodies >= 2^31 bytes; hostile server strings; the independent re-reader of the property statement"

RH = "response::ResponseHeaders"


def self_field(t, name, adt=None):
    t = look(t)
    return t[0] == "field" and t[3] == name and (adt is None or t[2] == adt) and look(t[1]) == ("arg", 1)


def run(ctx):
    facts = ctx.facts
    ctx.rule("R05.1", "the sequence written to the sink equals the documented wire format on every path")
    ctx.rule("R05.2", "sinks in response.rs receive write_all only")
    ctx.rule("R05.3", "Content-Length follows the body: set_body stores Some(len(body) as i32) of the body it stores; writers of both fields enumerated")
    ctx.rule("R05.4", "Response::new: content length None exactly for Continue and NoContent, Some(0) otherwise")
    ctx.rule("R05.5", "StatusCode::raw maps every variant to its own distinct 3-digit HTTP code")
    folds = {}

    def tables():
        folds["common::headers::Header::raw"] = enum_const_table(facts, facts.fn("common::headers::Header::raw"), "common::headers::Header")

    ctx.guarded("R05.1", "tables", tables)
    ctx.guarded("R05.1", "status-line", lambda: status_line(ctx, folds))
    ctx.guarded("R05.1", "headers", lambda: headers(ctx, folds))
    ctx.guarded("R05.1", "allow", lambda: allow_header(ctx, folds))
    ctx.guarded("R05.1", "deprecation", lambda: deprecation_header(ctx, folds))
    ctx.guarded("R05.1", "response", lambda: response(ctx, folds))
    ctx.guarded("R05.2", "write_all-only", lambda: write_all_only(ctx))
    ctx.guarded("R05.3", "set_body", lambda: set_body(ctx))
    ctx.guarded("R05.4", "new", lambda: new_rule(ctx))
    ctx.guarded("R05.5", "StatusCode", lambda: status_table(ctx, "R05.5"))
    ctx.rule("R05.6", "on a connection the serialized bytes reach the stream unmodified under short/interrupted writes (C06's writer bookkeeping R06.1-R06.5)")
    from .c06 import paths as writer_paths
    ctx.guarded("R05.6", "writer", lambda: writer_paths(ctx, "R05.6"))


def leaves_of(ctx, name):
    fn = ctx.facts.fn(name)
    ctx.touched(fn)
    lv = PathEnum(fn, ctx.facts).run()
    return fn, lv


def require_all_paths_end_ok_or_propagate(ctx, rule, fn, leaves):
    """Every `?` Break path must return the error (from_residual), not swallow it."""
    for lf in leaves:
        if lf.kind == "return" and not success_leaf(lf):
            r = look(lf.ret())
            ok = is_call(r, "from_residual") or (r[0] == "call" and r[1] == "std::io::Write::write_all")
            ctx.ob(rule, "%s|error-propagated|bb%d" % (fn.name, lf.bb), ok, "a failed write is propagated to the caller", fn.loc(lf.bb))


def show(pieces):
    out = []
    for p in pieces:
        if p[0] == "C":
            out.append(repr(p[1])[1:])
        elif p[0] == "T":
            out.append("<%s>" % term_s(p[1])[:60])
        else:
            out.append("%s(..)" % p[1].split("::")[-1] if len(p) > 1 else p[0])
    return " ".join(out)


def status_line(ctx, folds):
    fn, leaves = leaves_of(ctx, "response::StatusLine::write_all")
    good = [lf for lf in leaves if lf.kind == "return" and success_leaf(lf)]
    ctx.ob("R05.1", "status-line|one-success-path", len(good) == 1, "%d error-free path(s) through StatusLine::write_all" % len(good), fn.loc(0))
    for lf in good:
        ps = pieces_of(lf, ctx.facts, ("arg", 2), folds)
        ok = (
            len(ps) == 4
            and ps[0][0] == "T" and is_call(ps[0][1], "common::Version::raw") and self_field(ps[0][1][2][0], "http_version")
            and ps[1] == ("C", b" ")
            and ps[2][0] == "T" and is_call(ps[2][1], "response::StatusCode::raw") and self_field(ps[2][1][2][0], "status_code")
            and ps[3] == ("C", b" \r\n")
        )
        ctx.ob("R05.1", "status-line|shape", ok, "status line is: Version::raw(self.http_version) SP StatusCode::raw(self.status_code) SP CRLF; found: %s" % show(ps), fn.loc(0))
    require_all_paths_end_ok_or_propagate(ctx, "R05.1", fn, leaves)


def headers(ctx, folds):
    fn, leaves = leaves_of(ctx, "response::ResponseHeaders::write_all")
    good = [lf for lf in leaves if lf.kind == "return" and success_leaf(lf)]
    ctx.ob("R05.1", "headers|success-paths", len(good) >= 2, "%d error-free paths through ResponseHeaders::write_all (floor 2)" % len(good), fn.loc(0))

    def atoms(lf):
        length = enc = None
        for (t, c, _bb) in lf.conds:
            if t[0] == "discr" and self_field(t[1], "content_length", RH):
                length = option_is_some(c)
            elif self_field(t, "accept_encoding", RH):
                enc = truth(c)
        return length, enc

    def expected(length, enc):
        e = [("C", b"Server: "), ("S",), ("C", b"\r\nConnection: keep-alive\r\n"), ("CALL", "response::ResponseHeaders::write_allow_header"), ("CALL", "response::ResponseHeaders::write_deprecation_header")]
        if length:
            e += [("C", b"Content-Type: "), ("CT",), ("C", b"\r\nContent-Length: "), ("CL",), ("C", b"\r\n" + (b"Accept-Encoding: identity\r\n" if enc else b"") + b"\r\n")]
        else:
            e += [("C", b"\r\n")]
        return e

    def match(ps, exp):
        if len(ps) != len(exp):
            return False
        for p, e in zip(ps, exp):
            if e[0] == "C":
                if p != e:
                    return False
            elif e[0] == "CALL":
                if not (p[0] == "CALL" and p[1] == e[1] and look(p[2][0]) == ("arg", 1)):
                    return False
            elif e[0] == "S":
                if not (p[0] == "T" and self_field(p[1], "server", RH) and not [x for x in transforms(p[1]) if x not in ("as_bytes", "as_str", "deref")]):
                    return False
            elif e[0] == "CT":
                if not (p[0] == "T" and is_call(look_through_bytes(p[1]), "common::headers::MediaType::as_str") and self_field(look_through_bytes(p[1])[2][0], "content_type", RH)):
                    return False
            elif e[0] == "CL":
                v = look_through_bytes(p[1])
                if not (p[0] == "T" and is_call(v, "to_string") and is_len_payload(v[2][0])):
                    return False
        return True

    def look_through_bytes(t):
        return look(t)

    def is_len_payload(t):
        t = look(t)
        # ((*self).content_length as Some).0
        return t[0] == "field" and t[1][0] == "downcast" and t[1][2] == "Some" and self_field(t[1][1], "content_length", RH)

    seen = set()
    for lf in good:
        length, enc = atoms(lf)
        ps = pieces_of(lf, ctx.facts, ("arg", 2), folds)
        vals_len = [length] if length is not None else [True, False]
        for L in vals_len:
            vals_enc = [enc] if enc is not None else ([True, False] if L else [False])
            for E in vals_enc:
                seen.add((L, bool(E) if L else False))
                ok = match(ps, expected(L, E))
                ctx.ob("R05.1", "headers|shape|len=%s,enc=%s" % (L, bool(E) if L else "-"), ok,
                       "header block for (length present=%s, encoding=%s): %s" % (L, E, show(ps)), fn.loc(lf.bb))
    for combo in [(True, True), (True, False), (False, False)]:
        ctx.ob("R05.1", "headers|covered|%s" % (combo,), combo in seen, "a path exists for (length present, encoding) = %s" % (combo,), fn.loc(0))
    require_all_paths_end_ok_or_propagate(ctx, "R05.1", fn, leaves)


def allow_header(ctx, folds):
    fn, leaves = leaves_of(ctx, "response::ResponseHeaders::write_allow_header")

    def is_empty_cond(t):
        return is_call(t, "is_empty") and self_field(t[2][0], "allow", RH)

    good = [lf for lf in leaves if lf.kind in ("return", "loop") and success_leaf(lf)]
    n_empty = n_exit = n_body = 0
    for lf in good:
        ps = pieces_of(lf, ctx.facts, ("arg", 2), folds)
        if cond_holds(lf.conds, is_empty_cond, True):
            n_empty += 1
            ctx.ob("R05.1", "allow|empty-writes-nothing", ps == [] and lf.kind == "return", "no Allow line when the list is empty; found: %s" % show(ps), fn.loc(lf.bb))
            continue
        if not cond_holds(lf.conds, is_empty_cond, False):
            ctx.fail("R05.1", "allow|unguarded", "Allow header written on a path that does not test allow.is_empty()", fn.loc(lf.bb))
            continue
        if lf.kind == "return":
            n_exit += 1
            ctx.ob("R05.1", "allow|frame", ps == [("C", b"Allow: "), ("C", b"\r\n")] or ps == [("C", b"Allow: \r\n")], "loop-exit path writes 'Allow: ' ... CRLF; found: %s" % show(ps), fn.loc(lf.bb))
            continue
        # loop leaf: prefix + one iteration
        n_body += 1
        delim = None
        for (t, c, _bb) in lf.conds:
            if t[0] == "bin" and t[1] == "Lt":
                delim = (t, truth(c))
        ok = len(ps) >= 2 and ps[0] == ("C", b"Allow: ") and ps[1][0] == "T" and is_call(ps[1][1], "common::Method::raw")
        item_ok = False
        if ok:
            tr = transforms(ps[1][1])
            item = ps[1][1]
            item_ok = any(self_field(s, "allow", RH) for s in subterms(item) if isinstance(s, tuple) and s and s[0] == "field") and "next" in tr and not [x for x in tr if x in ("rev", "skip", "take", "filter", "step_by", "skip_while", "take_while", "peekable", "chain", "cycle")]
        rest = ps[2:]
        if delim is None:
            ctx.fail("R05.1", "allow|delimiter-condition", "cannot find the idx < len-1 test that guards the ', ' delimiter", fn.loc(lf.bb))
            continue
        t, tv = delim
        idx, bound = look(t[2]), look(t[3])
        idx_ok = idx[0] == "field" and idx[3] == "0" and "enumerate" in transforms(idx)
        bound_ok = any(is_call(s, "len") and self_field(s[2][0], "allow", RH) for s in subterms(bound) if isinstance(s, tuple)) and any(s == ("const", 1) for s in subterms(bound)) and any(isinstance(s, tuple) and s and s[0] == "bin" and s[1].startswith("Sub") for s in subterms(bound))
        want_rest = [("C", b", ")] if tv else []
        ctx.ob("R05.1", "allow|iteration|delim=%s" % tv, ok and item_ok and idx_ok and bound_ok and rest == want_rest,
               "each iteration writes Method::raw(item of self.allow in order) then ', ' iff idx < len-1 (item %s, idx %s, bound %s); found: %s" % (item_ok, idx_ok, bound_ok, show(ps)), fn.loc(lf.bb))
    ctx.ob("R05.1", "allow|paths", n_empty >= 1 and n_exit >= 1 and n_body >= 2, "paths classified: empty=%d exit=%d iteration=%d" % (n_empty, n_exit, n_body), fn.loc(0))
    require_all_paths_end_ok_or_propagate(ctx, "R05.1", fn, leaves)


def deprecation_header(ctx, folds):
    fn, leaves = leaves_of(ctx, "response::ResponseHeaders::write_deprecation_header")
    good = [lf for lf in leaves if lf.kind == "return" and success_leaf(lf)]
    seen = set()
    for lf in good:
        ps = pieces_of(lf, ctx.facts, ("arg", 2), folds)
        flag = None
        for (t, c, _bb) in lf.conds:
            if self_field(t, "deprecation", RH):
                flag = truth(c)
        for F in ([flag] if flag is not None else [True, False]):
            seen.add(F)
            want = [("C", b"Deprecation: true\r\n")] if F else []
            ctx.ob("R05.1", "deprecation|flag=%s" % F, ps == want, "deprecation=%s writes %s; found: %s" % (F, show(want) or "nothing", show(ps) or "nothing"), fn.loc(lf.bb))
    ctx.ob("R05.1", "deprecation|covered", seen == {True, False}, "both values of the flag have a path", fn.loc(0))
    require_all_paths_end_ok_or_propagate(ctx, "R05.1", fn, leaves)


def response(ctx, folds):
    fn, leaves = leaves_of(ctx, "response::Response::write_all")
    good = [lf for lf in leaves if lf.kind == "return" and success_leaf(lf)]
    ctx.ob("R05.1", "response|one-success-path", len(good) == 1, "%d error-free path(s) through Response::write_all" % len(good), fn.loc(0))
    for lf in good:
        ps = pieces_of(lf, ctx.facts, ("arg", 2), folds)
        ok = (
            len(ps) == 3
            and ps[0][0] == "CALL" and ps[0][1] == "response::StatusLine::write_all" and self_field(ps[0][2][0], "status_line")
            and ps[1][0] == "CALL" and ps[1][1] == "response::ResponseHeaders::write_all" and self_field(ps[1][2][0], "headers")
            and ps[2][0] == "CALL" and ps[2][1] == "response::Response::write_body" and look(ps[2][2][0]) == ("arg", 1)
        )
        ctx.ob("R05.1", "response|order", ok, "status line, then headers, then body, all to the caller's sink; found: %s" % show(ps), fn.loc(0))
    require_all_paths_end_ok_or_propagate(ctx, "R05.1", fn, leaves)
    fb, lb = leaves_of(ctx, "response::Response::write_body")
    seen = set()
    for lf in [l for l in lb if l.kind == "return" and success_leaf(l)]:
        ps = pieces_of(lf, ctx.facts, ("arg", 2), folds)
        some = None
        for (t, c, _bb) in lf.conds:
            if t[0] == "discr" and self_field(t[1], "body"):
                some = option_is_some(c)
        seen.add(some)
        if some:
            ok = len(ps) == 1 and ps[0][0] == "T" and is_call(ps[0][1], "common::Body::raw")
            if ok:
                a = look(ps[0][1][2][0])
                ok = a[0] == "field" and a[1][0] == "downcast" and a[1][2] == "Some" and self_field(a[1][1], "body")
            ctx.ob("R05.1", "body|some", ok, "a present body is written as Body::raw(body) and nothing else; found: %s" % show(ps), fb.loc(lf.bb))
        elif some is False:
            ctx.ob("R05.1", "body|none", ps == [], "nothing is written when there is no body; found: %s" % show(ps), fb.loc(lf.bb))
        else:
            ctx.fail("R05.1", "body|unguarded", "write_body has a path not decided by body being Some/None", fb.loc(lf.bb))
    ctx.ob("R05.1", "body|covered", seen == {True, False}, "both Some and None paths exist", fb.loc(0))
    # Body accessors are the identity on the stored bytes
    fr = ctx.facts.fn("common::Body::raw")
    ctx.touched(fr)
    for lf in PathEnum(fr, ctx.facts).run():
        r = lf.ret()
        v = look(r)
        ctx.ob("R05.1", "Body::raw|identity", v[0] == "field" and v[3] == "body" and look(v[1]) == ("arg", 1) and not [x for x in transforms(r) if x not in ("as_slice", "deref", "as_ref")], "Body::raw returns the stored bytes unchanged: %s" % term_s(r), fr.loc(0))


def write_all_only(ctx):
    n = 0
    for fn in ctx.facts.fns.values():
        if fn.d["span"]["file"] != "src/response.rs":
            continue
        for bb, t in fn.calls():
            p = t["callee"].get("path") or ""
            if p.startswith("std::io::Write::"):
                n += 1
                ctx.touched(fn)
                ctx.ob("R05.2", "%s|%s" % (fn.name, last_seg(p)), p == "std::io::Write::write_all", "sink call %s in %s" % (p, fn.name), fn.loc(bb))
    ctx.ob("R05.2", "floor", n >= 20, "%d Write calls inspected in response.rs (floor 20)" % n)


def set_body(ctx):
    facts = ctx.facts
    fn, leaves = leaves_of(ctx, "response::Response::set_body")
    for lf in leaves:
        if lf.kind != "return":
            continue
        stored = None
        length = None
        for e in lf.events:
            if e[0] == "assign" and e[3].endswith(".body") and "(*_1)" in e[3]:
                stored = e[4]
            if e[0] == "call" and e[3] == "response::ResponseHeaders::set_content_length":
                if self_field(e[4][2][0], "headers"):
                    length = e[4][2][1]
            if e[0] == "assign" and e[3].endswith(".content_length") and "(*_1)" in e[3]:
                length = e[4]
        ok_store = stored is not None and stored[0] == "agg" and stored[2] == "Some" and look(stored[3][0]) == ("arg", 2)
        ok_len = False
        if length is not None and length[0] == "agg" and length[2] == "Some":
            v = length[3][0]
            if v[0] == "cast" and v[2] == "i32":
                v = v[1]
                ok_len = is_call(v, "common::Body::len") and look(v[2][0]) == ("arg", 2)
        ctx.ob("R05.3", "set_body|stores-body", ok_store, "set_body stores Some(the body passed in)", fn.loc(lf.bb))
        ctx.ob("R05.3", "set_body|length-of-same-body", ok_len, "set_body sets the length to Some(Body::len(that body) as i32): %s" % (term_s(length) if length else None), fn.loc(lf.bb))
    fl = facts.fn("common::Body::len")
    ctx.touched(fl)
    for lf in PathEnum(fl, facts).run():
        r = look(lf.ret())
        ok = is_call(r, "len") and look(r[2][0])[0] == "field" and look(r[2][0])[3] == "body"
        ctx.ob("R05.3", "Body::len|is-vec-len", ok, "Body::len is Vec::len of the stored bytes: %s" % term_s(lf.ret()), fl.loc(0))
    # writers
    allowed_len = {"response::ResponseHeaders::set_content_length", "<response::ResponseHeaders as std::default::Default>::default", "response::Response::new"}
    for w in field_writers(facts, RH, "content_length"):
        ctx.ob("R05.3", "writers|content_length|%s" % w[0], w[0] in allowed_len, "writer of ResponseHeaders.content_length: %s (%s)" % (w[0], w[3]), w[2])
    allowed_body = {"response::Response::new", "response::Response::set_body"}
    for w in field_writers(facts, "response::Response", "body"):
        ctx.ob("R05.3", "writers|body|%s" % w[0], w[0] in allowed_body, "writer of Response.body: %s (%s)" % (w[0], w[3]), w[2])
    # callers of set_content_length: only the public pass-through and set_body
    callers = set()
    for g in facts.fns.values():
        for bb, t in g.calls_to("response::ResponseHeaders::set_content_length"):
            callers.add(g.name)
    ctx.ob("R05.3", "callers|set_content_length", callers <= {"response::Response::set_body", "response::Response::set_content_length"}, "callers of ResponseHeaders::set_content_length: %s" % sorted(callers))


def new_rule(ctx):
    facts = ctx.facts
    fn, leaves = leaves_of(ctx, "response::Response::new")
    discr = facts.variant_discr("response::StatusCode")
    names = [v["name"] for v in facts.struct_fields("response::Response")]
    hnames = [v["name"] for v in facts.struct_fields(RH)]
    none_set, some0_set, other = set(), set(), []
    for lf in leaves:
        if lf.kind != "return":
            continue
        r = lf.ret()
        if not (r[0] == "agg" and r[1] == "response::Response"):
            raise AnalysisError("Response::new does not return a Response literal")
        h = r[3][names.index("headers")]
        if not (h[0] == "agg" and h[1] == RH):
            raise AnalysisError("Response::new: headers is not a ResponseHeaders literal")
        cl = h[3][hnames.index("content_length")]
        sel = None
        for (t, c, _bb) in lf.conds:
            if t[0] == "discr" and look(t[1]) == ("arg", 2):
                sel = c
        if sel is None:
            vs = set(discr.values())
        elif sel[0] == "eq":
            vs = {discr[sel[1]]}
        else:
            vs = {n for d, n in discr.items() if d not in sel[1]}
        if cl[0] == "agg" and cl[2] == "None":
            none_set |= vs
        elif cl[0] == "agg" and cl[2] == "Some" and cl[3][0] == ("const", 0):
            some0_set |= vs
        else:
            other.append((vs, term_s(cl)))
        b = r[3][names.index("body")]
        bv = look(b)
        ctx.ob("R05.4", "new|body-none|bb%d" % lf.bb, (bv[0] == "agg" and bv[2] == "None") or is_call(bv, "default"), "a new response has no body", fn.loc(lf.bb))
        sl = r[3][names.index("status_line")]
        ctx.ob("R05.4", "new|status-line|bb%d" % lf.bb, is_call(sl, "response::StatusLine::new") and sl[2] == (("arg", 1), ("arg", 2)), "status line built from the given version and status", fn.loc(lf.bb))
    ctx.ob("R05.4", "new|none-set", none_set == {"Continue", "NoContent"}, "statuses created without Content-Length: %s (must be exactly Continue, NoContent)" % sorted(none_set), fn.loc(0))
    rest = set(discr.values()) - {"Continue", "NoContent"}
    ctx.ob("R05.4", "new|some0-set", some0_set == rest and not other, "statuses created with Content-Length 0: %s; other: %s" % (sorted(some0_set), other), fn.loc(0))
    fs = facts.fn("response::StatusLine::new")
    ctx.touched(fs)
    for lf in PathEnum(fs, facts).run():
        r = lf.ret()
        ctx.ob("R05.4", "StatusLine::new|fields", r[0] == "agg" and r[3] == (("arg", 1), ("arg", 2)), "StatusLine::new stores (version, status) as given", fs.loc(0))
