"""C05 -- serialized responses are well-formed and self-delimiting."""
from ..core import AnalysisError, term_s, subterms
from ..paths import PathEnum
from ..seqshape import pieces_of, success_leaf, is_try_cond
from ..tables import enum_const_table
from .util import writer_roots, payload_of, propagated_error, option_is_some, cond_holds, const_of, is_call, look, norm, truth, transforms, last_seg
from .c16 import status_table
from .fields import field_writers

EXPLANATION = (
    "Static decision of the serializer: the ordered sequence of pieces handed to Write::write_all on "
    "the sink is extracted from the MIR of Response::write_all and its helpers on every error-free "
    "path (path-sensitive dataflow, adjacent literals concatenated, enum->bytes tables folded) and "
    "compared with the documented wire format under every valuation of the branch atoms "
    "(length present, encoding flag, deprecation flag, allow list empty); only write_all may touch "
    "a sink in response.rs; set_body couples Content-Length to the stored body; Response::new omits "
    "the length exactly for Continue and NoContent; StatusCode::raw is the injective 3-digit table. "
    "Decides these clauses for all responses; it does not execute the serializer."
)
TRUSTED = ["io::Write::write_all writes its whole argument or fails", "i32::to_string is the decimal rendering", "Vec::len/as_slice"]
ASSUMPTIONS = ["bodies shorter than 2^31 bytes (as i32 does not wrap)", "server identity string without CR/LF"]
NOT_DECIDED = "bodies >= 2^31 bytes; hostile server strings; the independent re-reader of the property statement"

RH = "response::ResponseHeaders"


def self_field(t, name, adt=None):
    t = look(t)
    return t[0] == "field" and t[3] == name and (adt is None or t[2] == adt) and look(t[1]) == ("arg", 1)


def run(ctx):
    facts = ctx.facts
    ctx.rule("R05.1", "the sequence written to the sink equals the documented wire format on every path")
    ctx.rule("R05.2", "sinks in response.rs receive write_all only")
    ctx.rule("R05.3", "Content-Length follows the body: set_body stores Some(len(body) as i32) of the body it stores; writers of both fields enumerated")
    ctx.rule("R05.4", "Response::new: content length None exactly for Continue and NoContent, Some(0) otherwise")
    ctx.rule("R05.5", "StatusCode::raw maps every variant to its own distinct 3-digit HTTP code")
    folds = {}

    def tables():
        folds["common::headers::Header::raw"] = enum_const_table(facts, facts.fn("common::headers::Header::raw"), "common::headers::Header")

    ctx.guarded("R05.1", "tables", tables)
    ctx.guarded("R05.1", "sequence", lambda: whole_sequence(ctx, folds))
    ctx.guarded("R05.2", "write_all-only", lambda: write_all_only(ctx))
    ctx.guarded("R05.3", "set_body", lambda: set_body(ctx))
    ctx.guarded("R05.4", "new", lambda: new_rule(ctx))
    ctx.guarded("R05.5", "StatusCode", lambda: status_table(ctx, "R05.5"))
    ctx.rule("R05.6", "on a connection the serialized bytes reach the stream unmodified under short/interrupted writes (C06's writer bookkeeping R06.1-R06.5)")
    from .c06 import paths as writer_paths
    ctx.guarded("R05.6", "writer", lambda: writer_paths(ctx, "R05.6"))


def leaves_of(ctx, name):
    fn = ctx.facts.fn(name)
    ctx.touched(fn)
    lv = PathEnum(fn, ctx.facts).run()
    return fn, lv


def show(pieces):
    out = []
    for p in pieces:
        if p[0] == "C":
            out.append(repr(p[1])[1:])
        elif p[0] == "T":
            out.append("<%s>" % term_s(p[1])[:60])
        elif p[0] in ("ALLOW", "LOOP"):
            out.append("<%s>" % p[0])
        else:
            out.append("%s(..)" % p[1].split("::")[-1] if len(p) > 1 else p[0])
    return " ".join(out)


WRITE_ALL = "std::io::Write::write_all"
SINK = ("arg", 2)


def resp_field(t, *path):
    """t is self.<path...> of the Response being written (arg 1 of Response::write_all)."""
    t = look(t)
    for name in reversed(path):
        if not (t[0] == "field" and t[3] == name):
            return False
        t = look(t[1])
    return t == ("arg", 1)


def _join(ps):
    out = []
    for p in ps:
        if p[0] == "C" and out and out[-1][0] == "C":
            out[-1] = ("C", out[-1][1] + p[1])
        elif p[0] == "C" and not p[1]:
            continue
        else:
            out.append(p)
    return out


def _piece(facts, v, folds):
    """One argument of write_all as a piece: ('C', bytes) or ('T', term)."""
    v = look(v)
    if folds and v[0] == "call" and v[1] in folds and len(v[2]) == 1:
        a = look(v[2][0])
        if a[0] == "agg" and a[2] in folds[v[1]]:
            v = ("const", folds[v[1]][a[2]])
    if v[0] == "const" and isinstance(v[1], (bytes, str)):
        return ("C", v[1] if isinstance(v[1], bytes) else v[1].encode())
    if v[0] == "array" and all(x[0] == "const" and isinstance(x[1], int) for x in v[1]):
        return ("C", bytes(x[1] for x in v[1]))
    return ("T", norm(v))


def _pieces(facts, events, folds):
    """Pieces written to the sink by a run of events; a loop head met for the first time leaves a marker."""
    out = []
    seen_heads = set()
    for e in events:
        if e[0] == "enter":
            if e[1] not in seen_heads:
                seen_heads.add(e[1])
                out.append(("HEAD", e[1]))
            continue
        if e[0] != "call":
            continue
        path, args = e[3], e[4][2]
        if path == WRITE_ALL and any(x == SINK for x in subterms(args[0])):
            out.append(_piece(facts, args[1], folds))
        elif path.startswith("std::io::Write::") and args and any(x == SINK for x in subterms(args[0])):
            out.append(("OTHERWRITE", path))
        elif path in facts.fns and any(any(x == SINK for x in subterms(a)) for a in args):
            out.append(("CALL", path))
    return out


def _iter_source(it):
    """Strip &mut / into_iter wrappers from an iterator term."""
    it = look(it)
    while it[0] == "mut" or is_call(it, "into_iter"):
        it = look(it[1]) if it[0] == "mut" else look(it[2][0])
    return it


def whole_sequence(ctx, folds):
    """The complete ordered output of Response::write_all with every helper that receives the sink traversed
    inline, per error-free path, compared with the wire format under the path's own conditions.  Independent
    of how the serializer is divided into functions."""
    facts = ctx.facts
    fn = facts.fn("response::Response::write_all")
    ctx.touched(fn)

    def takes_sink(path, args):
        return any(any(x == SINK for x in subterms(a)) for a in args)

    lv = PathEnum(fn, facts, inline_also=takes_sink, mark_cycles=True, max_paths=60000, lower=True).run()
    for f in facts.fns.values():
        if f.d["span"]["file"] == "src/response.rs" and any(last_seg(t["callee"].get("path") or "") == "write_all" for bb, t in f.calls()):
            ctx.touched(f)
    good = [lf for lf in lv if success_leaf(lf) and lf.kind in ("return", "loop")]
    # error paths: the failure of a write is what the serializer returns
    n_err = 0
    for lf in lv:
        if lf.kind == "return" and not success_leaf(lf):
            n_err += 1
            r = look(lf.ret())
            src = propagated_error(r)[0] if is_call(r, "from_residual") else r
            ctx.ob("R05.1", "error-propagated|%s" % (src[1].split("::")[-1] if src[0] == "call" else "?"), src[0] == "call" and src[1] == WRITE_ALL, "a failed write is returned to the caller as it is", fn.loc(lf.bb))
        elif lf.kind not in ("return", "loop"):
            ctx.fail("R05.1", "path|%s" % lf.kind, "the serializer has a path that ends in %s" % lf.kind, fn.loc(lf.bb))
    ctx.ob("R05.1", "error-paths|floor", n_err >= 10, "%d failing-write paths inspected (floor 10)" % n_err, fn.loc(0))
    # ---- loops: classify each loop head by its iteration bodies
    heads = {}
    for lf in good:
        if lf.kind == "loop":
            heads.setdefault(lf.bb, []).append(lf)
    expansion = {}
    for H, lfs in heads.items():
        bodies = []
        for lf in lfs:
            i1 = [i for i, e in enumerate(lf.events) if e[0] == "enter" and e[1] == H][0]
            body = [p for p in _pieces(facts, lf.events[i1:], folds) if p[0] != "HEAD"]
            item_src = None
            for (t, c, _b) in lf.conds:
                pass
            bodies.append((lf, i1, body))
        kind = classify_loop(ctx, fn, H, bodies, folds)
        expansion[H] = kind
    # ---- whole sequences
    seen = set()
    for lf in good:
        if lf.kind != "return":
            continue
        ps = _pieces(facts, lf.events, folds)
        bad = [p for p in ps if p[0] in ("CALL", "OTHERWRITE")]
        if bad:
            ctx.fail("R05.1", "sink-escapes|%s" % bad[0][1], "the sink is handed to %s, which the analysis could not follow" % bad[0][1], fn.loc(lf.bb))
            continue
        seq = []
        ok_loops = True
        for p in ps:
            if p[0] == "HEAD":
                ex = expansion.get(p[1])
                if ex is None:
                    continue     # a block on a cycle that is not a loop head of a writing loop
                if ex[0] == "bad":
                    ok_loops = False
                elif ex[0] == "template":
                    # the elements of the literal table on this very path: the iterator whose next() answered None at this head
                    els = None
                    seen_head = False
                    for e2 in lf.events:
                        if e2[0] == "enter" and e2[1] == p[1]:
                            seen_head = True
                        elif seen_head and e2[0] == "cond" and e2[3][0] == "discr" and is_call(look(e2[3][1]), "next") and option_is_some(e2[4]) is False:
                            els = literal_elements(look(e2[3][1])[2][0])
                            break
                    if els is None:
                        ok_loops = False
                    else:
                        for el in els:
                            for q in ex[1]:
                                seq.append(_piece(facts, subst_term(q[1], ("ITEM",), norm(el)), folds) if q[0] == "T" else q)
                elif ex[0] == "pieces":
                    seq.extend(ex[1])
                else:
                    seq.append(ex)
            else:
                seq.append(p)
        if not ok_loops:
            continue
        # form B of the Allow list: first item written before the loop that writes (", " item)*
        norm_seq = []
        for p in seq:
            if p[0] == "ALLOW" and p[1] == "B":
                prev = norm_seq.pop() if norm_seq else None
                first_ok = prev is not None and prev[0] == "T" and is_call(prev[1], "common::Method::raw") and payload_of(prev[1][2][0]) is not None and norm(_iter_source(payload_of(prev[1][2][0])[2][0])) == norm(p[2])
                norm_seq.append(("ALLOW",) if first_ok else ("BADALLOW",))
            elif p[0] == "ALLOW" and p[1] == "D":
                # form D: Method::raw(first) was written just before the loop over the rest
                prev = norm_seq.pop() if norm_seq else None
                a = look(prev[1][2][0]) if prev is not None and prev[0] == "T" and is_call(prev[1], "common::Method::raw") else None
                first_ok = a is not None and a[0] == "field" and a[3] == "0" and payload_of(a[1]) is not None and norm(payload_of(a[1])) == norm(p[2])
                norm_seq.append(("ALLOW",) if first_ok else ("BADALLOW",))
            elif p[0] == "ALLOW" and p[1] == "C":
                norm_seq.append(("ALLOW-C", p[2]))
            elif p[0] == "ALLOW":
                norm_seq.append(("ALLOW",))
            else:
                norm_seq.append(p)
        # form C: the loop over all but the last element is followed by Method::raw(last)
        seq2 = []
        for p in norm_seq:
            if seq2 and seq2[-1][0] == "ALLOW-C":
                sl = seq2[-1][1]
                a = look(p[1][2][0]) if p[0] == "T" and is_call(p[1], "common::Method::raw") else None
                last_ok = a is not None and a[0] == "field" and a[3] == "0" and payload_of(a[1]) is not None and norm(payload_of(a[1])) == norm(sl)
                seq2[-1] = ("ALLOW",) if last_ok else ("BADALLOW",)
                if last_ok:
                    continue
            seq2.append(p)
        seq = _join(seq2)
        # the path's own conditions
        fl = flags_of(lf)
        has_allow = any(p[0] == "ALLOW" for p in seq)
        key = "allow=%s,deprecation=%s,length=%s,encoding=%s,body=%s" % (has_allow, fl["deprecation"], fl["length"], fl["encoding"] if fl["length"] else "-", fl["body"])
        undecided = [k for k in ("deprecation", "length", "body") if fl[k] is None] + (["encoding"] if fl["length"] and fl["encoding"] is None else []) + (["allow"] if fl["allow_nonempty"] is None else [])
        if undecided:
            ctx.fail("R05.1", "sequence|undecided|%s" % ",".join(undecided), "a path through the serializer does not test %s, which the wire format depends on; found: %s" % (undecided, show(seq)), fn.loc(lf.bb))
            continue
        ok_allow = has_allow == fl["allow_nonempty"]
        exp = expected(fl, has_allow)
        ok = ok_allow and matches(seq, exp)
        seen.add((has_allow, fl["deprecation"], fl["length"], bool(fl["encoding"]) if fl["length"] else False, fl["body"]))
        ctx.ob("R05.1", "sequence|%s" % key, ok, "output for (%s): %s" % (key, show(seq)), fn.loc(lf.bb))
    want = {(a, d, l, e, b) for a in (True, False) for d in (True, False) for (l, e) in ((False, False), (True, False), (True, True)) for b in (True, False)}
    ctx.ob("R05.1", "sequence|covered", want <= seen, "%d of the %d combinations of (allow list non-empty, deprecation, length present, encoding flag, body present) have an error-free path" % (len(want & seen), len(want)), fn.loc(0))
    # Body accessors are the identity on the stored bytes
    fr = ctx.facts.fn("common::Body::raw")
    ctx.touched(fr)
    for lf in PathEnum(fr, ctx.facts).run():
        r = lf.ret()
        v = look(r)
        ctx.ob("R05.1", "Body::raw|identity", v[0] == "field" and v[3] == "body" and look(v[1]) == ("arg", 1) and not [x for x in transforms(r) if x not in ("as_slice", "deref", "as_ref")], "Body::raw returns the stored bytes unchanged: %s" % term_s(r), fr.loc(0))


def flags_of(lf):
    fl = {"deprecation": None, "length": None, "encoding": None, "body": None, "allow_nonempty": None}
    for (t, c, _b) in lf.conds:
        tv = truth(c)
        x = t
        while x[0] == "un" and x[1] == "Not":
            x = look(x[2])
            tv = None if tv is None else not tv
        if resp_field(x, "headers", "deprecation"):
            fl["deprecation"] = tv
        elif resp_field(x, "headers", "accept_encoding"):
            fl["encoding"] = tv
        elif x[0] == "discr" and resp_field(x[1], "headers", "content_length"):
            fl["length"] = option_is_some(c)
        elif x[0] == "discr" and resp_field(x[1], "body"):
            fl["body"] = option_is_some(c)
        elif is_call(x, "is_empty") and resp_field(x[2][0], "headers", "allow") and tv is not None:
            fl["allow_nonempty"] = not tv
        elif is_call(x, "is_some", "is_none") and x[2] and tv is not None:
            v = tv if is_call(x, "is_some") else not tv
            if resp_field(x[2][0], "headers", "content_length"):
                fl["length"] = v
            elif resp_field(x[2][0], "body"):
                fl["body"] = v
        elif x[0] == "discr" and fl["allow_nonempty"] is None and is_call(look(x[1]), "split_last", "split_first", "first", "last") and resp_field(look(x[1])[2][0], "headers", "allow") and option_is_some(c) is not None:
            fl["allow_nonempty"] = option_is_some(c)
        elif x[0] == "discr" and fl["allow_nonempty"] is None:
            # first element of self.allow taken with next(): Some = non-empty
            y = look(x[1])
            if is_call(y, "next"):
                it = _iter_source(y[2][0])
                if is_call(it, "iter") and resp_field(it[2][0], "headers", "allow") and option_is_some(c) is not None:
                    fl["allow_nonempty"] = option_is_some(c)
    return fl


def expected(fl, has_allow):
    e = [("VER",), ("C", b" "), ("STATUS",), ("C", b" \r\nServer: "), ("SERVER",), ("C", b"\r\nConnection: keep-alive\r\n")]
    if has_allow:
        e += [("C", b"Allow: "), ("ALLOW",), ("C", b"\r\n")]
    if fl["deprecation"]:
        e += [("C", b"Deprecation: true\r\n")]
    if fl["length"]:
        e += [("C", b"Content-Type: "), ("CT",), ("C", b"\r\nContent-Length: "), ("CL",), ("C", b"\r\n" + (b"Accept-Encoding: identity\r\n" if fl["encoding"] else b""))]
    e += [("C", b"\r\n")]
    if fl["body"]:
        e += [("BODY",)]
    return _join(e)


def matches(seq, exp):
    if len(seq) != len(exp):
        return False
    for p, e in zip(seq, exp):
        k = e[0]
        if k == "C":
            if p != e:
                return False
        elif k == "ALLOW":
            if p != ("ALLOW",):
                return False
        elif p[0] != "T":
            return False
        elif k == "VER":
            if not (is_call(p[1], "common::Version::raw") and resp_field(p[1][2][0], "status_line", "http_version")):
                return False
        elif k == "STATUS":
            if not (is_call(p[1], "response::StatusCode::raw") and resp_field(p[1][2][0], "status_line", "status_code")):
                return False
        elif k == "SERVER":
            if not (resp_field(p[1], "headers", "server") and not [x for x in transforms(p[1]) if x not in ("as_bytes", "as_str", "deref")]):
                return False
        elif k == "CT":
            v = look(p[1])
            if not (is_call(v, "common::headers::MediaType::as_str") and resp_field(v[2][0], "headers", "content_type")):
                return False
        elif k == "CL":
            v = look(p[1])
            if not (is_call(v, "to_string") and payload_of(v[2][0]) is not None and resp_field(payload_of(v[2][0]), "headers", "content_length")):
                return False
        elif k == "BODY":
            v = look(p[1])
            if not is_call(v, "common::Body::raw"):
                return False
            if not (payload_of(v[2][0]) is not None and resp_field(payload_of(v[2][0]), "body")):
                return False
    return True


REORDERING = ("rev", "skip", "take", "filter", "step_by", "skip_while", "take_while", "peekable", "cycle", "map", "zip")


def literal_elements(it):
    """Element terms, in iteration order, of an iterator over literals: iter(array literal) | A.chain(B) | iter(Some(x)) | iter(None)."""
    it = _iter_source(it)
    if is_call(it, "chain") and len(it[2]) == 2:
        a, b = literal_elements(it[2][0]), literal_elements(it[2][1])
        return None if a is None or b is None else a + b
    if is_call(it, "iter", "into_iter") and it[2]:
        src = look(it[2][0])
        while src[0] == "mut":
            src = look(src[1])
        if src[0] == "array":
            return list(src[1])
        if src[0] == "agg" and src[1].startswith("std::option::Option"):
            return [src[3][0]] if src[2] == "Some" else []
    return None


def subst_term(t, old, new):
    """t with every occurrence of the (normed) term `old` replaced by `new`; projections of literal tuples are folded."""
    if not isinstance(t, tuple) or not t:
        return t
    if t == old:
        return new
    out = tuple(subst_term(x, old, new) if isinstance(x, tuple) else x for x in t)
    if out and out[0] in ("deref", "ref") and len(out) >= 2 and isinstance(out[1], tuple) and out[1] and out[1][0] in ("tuple",):
        return out
    if out and out[0] == "field" and isinstance(out[1], tuple) and out[1]:
        b = out[1]
        while b[0] in ("deref", "ref"):
            b = b[1]
        if b[0] == "tuple" and str(out[3]).isdigit() and int(out[3]) < len(b[1]):
            return b[1][int(out[3])]
    return out


def classify_loop(ctx, fn, H, bodies, folds):
    """What a writing loop contributes to the output, from its iteration bodies (prefix + one iteration each):
    ('pieces', [...]) for a loop over a literal array, ('ALLOW', form, iterator) for the Allow list, ('bad',)."""
    facts = ctx.facts
    writing = [b for b in bodies if b[2]]
    if not writing:
        return None
    loc = fn.loc(H)
    # the loop's item: payload of next() on its iterator, tested Some on the iteration path
    def item_iter(lf, i1):
        for e in lf.events[i1:]:
            if e[0] == "cond" and e[3][0] == "discr" and is_call(look(e[3][1]), "next") and option_is_some(e[4]):
                return look(e[3][1])
        return None
    nxt = item_iter(writing[0][0], writing[0][1])
    if nxt is None:
        ctx.fail("R05.1", "loop|not-iterator-driven", "a loop that writes to the sink is not driven by Iterator::next", loc)
        return ("bad",)
    it = _iter_source(nxt[2][0])
    tr = transforms(it)
    if any(x in REORDERING for x in tr):
        ctx.fail("R05.1", "loop|reordering-adapter", "the writing loop iterates through %s, which does not keep every element in order" % [x for x in tr if x in REORDERING], loc)
        return ("bad",)

    def is_item(t):
        src = payload_of(t)
        while src is not None and not is_call(src, "next"):
            # (idx, item) of enumerate: the item is component 1 of the payload
            break
        return src is not None and norm(src) == norm(nxt)

    src_it = it
    enumerated = False
    if is_call(src_it, "enumerate"):
        enumerated = True
        src_it = _iter_source(src_it[2][0])
    base = look(src_it[2][0]) if is_call(src_it, "iter", "into_iter") and src_it[2] else (look(src_it) if src_it[0] == "field" else None)
    # (a) a literal table: an array literal, possibly chained with the items of an Option literal
    elems = literal_elements(it)
    if elems is not None:
        # the body as a template over the loop item; which elements the table holds is read off each path (it may depend on a flag)
        templates = set()
        for lf, i1, body in writing:
            nx = item_iter(lf, i1)
            tpl = []
            for p in body:
                if p[0] == "T":
                    old = None
                    for st_ in subterms(p[1]):
                        if isinstance(st_, tuple) and st_ and st_[0] in ("field", "payload") and payload_of(st_) is not None and nx is not None and norm(payload_of(st_)) == norm(nx):
                            old = st_
                            break
                    tpl.append(("T", subst_term(p[1], old, ("ITEM",))) if old is not None else ("BAD",))
                else:
                    tpl.append(p)
            templates.add(tuple(tpl))
        ok = len(templates) == 1 and all(p[0] in ("C", "T") for p in list(templates)[0])
        ctx.ob("R05.1", "loop|array-in-order|bb%d" % int(H), ok, "a loop over a literal table writes, for each element in order, the same pieces", loc)
        if not ok:
            return ("bad",)
        return ("template", list(list(templates)[0]))
    # the Allow list, form C: (last, others) = self.allow.split_last(); for m in others { raw(m) ", " }; raw(last)
    if base is not None and base[0] == "field" and base[3] == "1":
        sl = payload_of(base[1])
        if sl is not None and is_call(sl, "split_last") and resp_field(sl[2][0], "headers", "allow") and not enumerated:
            ok = len(writing) >= 1
            for lf, i1, body in writing:
                ok = ok and len(body) == 2 and body[1] == ("C", b", ") and body[0][0] == "T" and is_call(body[0][1], "common::Method::raw") and is_item(look(body[0][1][2][0]))
            ctx.ob("R05.1", "allow|iteration", ok, "every element but the last is written as Method::raw(item) followed by ', ' (the last one follows the loop)", loc)
            return ("ALLOW", "C", sl) if ok else ("bad",)
    # the Allow list, form D: (first, rest) = self.allow.split_first(); raw(first); for m in rest { ", " raw(m) }
    if base is not None and base[0] == "field" and base[3] == "1":
        sf = payload_of(base[1])
        if sf is not None and is_call(sf, "split_first") and resp_field(sf[2][0], "headers", "allow") and not enumerated:
            ok = len(writing) >= 1
            for lf, i1, body in writing:
                ok = ok and len(body) == 2 and body[0] == ("C", b", ") and body[1][0] == "T" and is_call(body[1][1], "common::Method::raw") and is_item(look(body[1][1][2][0]))
            ctx.ob("R05.1", "allow|iteration", ok, "every element but the first is written as ', ' followed by Method::raw(item) (the first one precedes the loop)", loc)
            return ("ALLOW", "D", sf) if ok else ("bad",)
    # the Allow list
    if base is not None and resp_field(base, "headers", "allow"):
        def is_raw_item(p, enumerated_):
            if p[0] != "T" or not is_call(p[1], "common::Method::raw"):
                return False
            a = look(p[1][2][0])
            if enumerated_:
                return a[0] == "field" and a[3] == "1" and is_item(a[1])
            return is_item(a)
        if enumerated:
            # form A: item, then ", " iff idx < len - 1
            ok = True
            variants = set()
            for lf, i1, body in writing:
                delim = None
                for e in lf.events[i1:]:
                    if e[0] == "cond" and e[3][0] == "bin" and e[3][1] in ("Lt", "Ne"):
                        idx, bound = look(e[3][2]), look(e[3][3])
                        idx_ok = idx[0] == "field" and idx[3] == "0" and is_item(idx[1])
                        bound_ok = any(is_call(x, "len") and resp_field(x[2][0], "headers", "allow") for x in subterms(bound) if isinstance(x, tuple)) and any(x == ("const", 1) for x in subterms(bound)) and any(isinstance(x, tuple) and x and x[0] == "bin" and x[1].startswith("Sub") for x in subterms(bound))
                        if idx_ok and bound_ok:
                            delim = truth(e[4])      # idx < len-1, or idx != len-1 (the same for 0 <= idx <= len-1)
                if delim is None:
                    ok = False
                    continue
                variants.add(delim)
                want = [("T",), ("C", b", ")] if delim else [("T",)]
                ok = ok and len(body) == len(want) and is_raw_item(body[0], True) and (not delim or body[1] == ("C", b", "))
            ok = ok and variants == {True, False}
            ctx.ob("R05.1", "allow|iteration", ok, "each iteration writes Method::raw(item of self.allow, in order) followed by ', ' exactly when idx < len - 1", loc)
            return ("ALLOW", "A", None) if ok else ("bad",)
        # form E: item, then ", " unless the item *is* the last element (identity, `ptr::eq(item, allow.last())`): positional like
        # idx < len - 1.  A comparison of values (`item != last`) is not: equal methods may repeat in the list.
        by_identity = []
        for lf, i1, body in writing:
            d = None
            for e in lf.events[i1:]:
                if e[0] == "cond" and is_call(look(e[3]), "std::ptr::eq") and truth(e[4]) is not None:
                    a, b = [look(x) for x in look(e[3])[2]]
                    for x, y in ((a, b), (b, a)):
                        ly = payload_of(y)
                        if is_item(x) and ly is not None and is_call(ly, "last") and ly[1].startswith("core::slice") and resp_field(ly[2][0], "headers", "allow"):
                            d = not truth(e[4])
            by_identity.append(d)
        if by_identity and all(d is not None for d in by_identity):
            ok = set(by_identity) == {True, False}
            for (lf, i1, body), d in zip(writing, by_identity):
                ok = ok and len(body) == (2 if d else 1) and is_raw_item(body[0], False) and (not d or body[1] == ("C", b", "))
            ctx.ob("R05.1", "allow|iteration", ok, "each iteration writes Method::raw(item of self.allow, in order) followed by ', ' exactly when the item is not (by identity) the last element", loc)
            return ("ALLOW", "E", None) if ok else ("bad",)
        # form C: (item ", ") for every element but the last, then the last:  (last, others) = allow.split_last()
        # form B: (", " item) for every element after the first, which was taken from the same iterator
        ok = len(writing) >= 1
        for lf, i1, body in writing:
            ok = ok and len(body) == 2 and body[0] == ("C", b", ") and is_raw_item(body[1], False)
        ctx.ob("R05.1", "allow|iteration", ok, "after the first element, each iteration writes ', ' followed by Method::raw(next item of the same iterator over self.allow)", loc)
        return ("ALLOW", "B", src_it) if ok else ("bad",)
    ctx.fail("R05.1", "loop|unrecognised", "a loop writes to the sink that is neither over a literal array nor over self.allow: iterator %s" % term_s(it)[:120], loc)
    return ("bad",)


def write_all_only(ctx):
    n = 0
    for fn in ctx.facts.fns.values():
        if fn.d["span"]["file"] != "src/response.rs":
            continue
        for bb, t in fn.calls():
            p = t["callee"].get("path") or ""
            if p.startswith("std::io::Write::"):
                n += 1
                ctx.touched(fn)
                ctx.ob("R05.2", "%s|%s" % (fn.name, last_seg(p)), p == "std::io::Write::write_all", "sink call %s in %s" % (p, fn.name), fn.loc(bb))
    ctx.ob("R05.2", "floor", n >= 5, "%d Write calls inspected in response.rs (floor 5)" % n)


def set_body(ctx):
    facts = ctx.facts
    fn, leaves = leaves_of(ctx, "response::Response::set_body")
    for lf in leaves:
        if lf.kind != "return":
            continue
        stored = None
        length = None
        for e in lf.events:
            if e[0] == "assign" and e[3].endswith(".body") and "(*_1)" in e[3]:
                stored = e[4]
            if e[0] == "call" and e[3] == "response::ResponseHeaders::set_content_length":
                if self_field(e[4][2][0], "headers"):
                    length = e[4][2][1]
            if e[0] == "assign" and e[3].endswith(".content_length") and "(*_1)" in e[3]:
                length = e[4]
            if e[0] == "call" and e[3] in ("std::option::Option::<T>::replace", "std::option::Option::<T>::insert") and len(e[4][2]) == 2:
                tgt = look(e[4][2][0])
                if tgt[0] == "field" and tgt[3] == "content_length":
                    length = ("agg", "std::option::Option", "Some", (e[4][2][1],))      # `length.replace(v)` stores Some(v)
                if tgt[0] == "field" and tgt[3] == "body" and look(tgt[1]) == ("arg", 1):
                    stored = ("agg", "std::option::Option", "Some", (e[4][2][1],))      # insert / replace always store (get_or_insert does not)
        ok_store = stored is not None and stored[0] == "agg" and stored[2] == "Some" and look(stored[3][0]) == ("arg", 2)
        ok_len = False
        if length is not None and length[0] == "agg" and length[2] == "Some":
            v = length[3][0]
            if v[0] == "cast" and v[2] == "i32":
                v = v[1]
                ok_len = is_call(v, "common::Body::len") and look(v[2][0]) == ("arg", 2)
        ctx.ob("R05.3", "set_body|stores-body", ok_store, "set_body stores Some(the body passed in)", fn.loc(lf.bb))
        ctx.ob("R05.3", "set_body|length-of-same-body", ok_len, "set_body sets the length to Some(Body::len(that body) as i32): %s" % (term_s(length) if length else None), fn.loc(lf.bb))
    fl = facts.fn("common::Body::len")
    ctx.touched(fl)
    for lf in PathEnum(fl, facts).run():
        r = look(lf.ret())
        ok = is_call(r, "len") and look(r[2][0])[0] == "field" and look(r[2][0])[3] == "body"
        ctx.ob("R05.3", "Body::len|is-vec-len", ok, "Body::len is Vec::len of the stored bytes: %s" % term_s(lf.ret()), fl.loc(0))
    # the setters store what they are given (a "normalising" setter would decouple the header from the body)
    fs, ls = leaves_of(ctx, "response::ResponseHeaders::set_content_length")
    for lf in ls:
        if lf.kind != "return":
            continue
        asg = [e for e in lf.events if e[0] == "assign" and e[3] == "(*_1).content_length"]
        ok = len(asg) == 1 and look(asg[0][4]) == ("arg", 2) and not [e for e in lf.events if e[0] == "call"]
        ctx.ob("R05.3", "setter|ResponseHeaders::set_content_length", ok, "ResponseHeaders::set_content_length stores its argument unchanged, on every path (stored: %s)" % ([term_s(e[4])[:80] for e in asg] or "nothing"), fs.loc(lf.bb))
    fp, lp = leaves_of(ctx, "response::Response::set_content_length")
    for lf in lp:
        if lf.kind != "return":
            continue
        ev = [e for e in lf.events if e[0] == "call" and e[3] == "response::ResponseHeaders::set_content_length"]
        ok = len(ev) == 1 and self_field(ev[0][4][2][0], "headers") and look(ev[0][4][2][1]) == ("arg", 2)
        ctx.ob("R05.3", "setter|Response::set_content_length", ok, "Response::set_content_length forwards its argument unchanged to the headers", fp.loc(lf.bb))
    # writers
    # Response::set_body may also store the length through a helper of its own: what it stores is decided by set_body|length-of-same-body
    allowed_len = {"response::ResponseHeaders::set_content_length", "<response::ResponseHeaders as std::default::Default>::default", "response::Response::new", "response::Response::set_body"}
    for w in field_writers(facts, RH, "content_length"):
        ctx.ob("R05.3", "writers|content_length|%s" % w[0], writer_roots(facts, w[0]) <= allowed_len, "writer of ResponseHeaders.content_length: %s (%s)" % (w[0], w[3]), w[2])
    allowed_body = {"response::Response::new", "response::Response::set_body"}
    for w in field_writers(facts, "response::Response", "body"):
        ctx.ob("R05.3", "writers|body|%s" % w[0], writer_roots(facts, w[0]) <= allowed_body, "writer of Response.body: %s (%s)" % (w[0], w[3]), w[2])
    # callers of set_content_length: only the public pass-through and set_body
    from .util import caller_fns
    callers = caller_fns(facts, "response::ResponseHeaders::set_content_length")     # looking through helpers that are not in the frozen list
    # Response::new may also use the setter for the initial value: R05.4 decides what it stores
    ctx.ob("R05.3", "callers|set_content_length", callers <= {"response::Response::set_body", "response::Response::set_content_length", "response::Response::new"}, "callers of ResponseHeaders::set_content_length: %s" % sorted(callers))


def new_rule(ctx):
    facts = ctx.facts
    fn = facts.fn("response::Response::new")
    ctx.touched(fn)
    # setters, Default::default and helpers are traversed inline: what matters is the value the new response holds
    leaves = PathEnum(fn, facts, inline_also=lambda path, args: True, lower=True).run()
    discr = facts.variant_discr("response::StatusCode")
    names = [v["name"] for v in facts.struct_fields("response::Response")]
    hnames = [v["name"] for v in facts.struct_fields(RH)]
    none_set, some0_set, other = set(), set(), []
    for lf in leaves:
        if lf.kind != "return":
            continue
        r = lf.ret()
        if not (r[0] == "agg" and r[1] == "response::Response"):
            raise AnalysisError("Response::new does not return a Response literal")
        h = r[3][names.index("headers")]
        if not (h[0] == "agg" and h[1] == RH):
            raise AnalysisError("Response::new: headers is not a ResponseHeaders literal")
        from .util import struct_field_value
        cl = struct_field_value(facts, h, "content_length")
        if cl is None:
            raise AnalysisError("Response::new: content_length cannot be read from the ResponseHeaders literal")
        cl = look(cl)
        sel = None
        for (t, c, _bb) in lf.conds:
            if t[0] == "discr" and look(t[1]) == ("arg", 2):
                sel = c
        if sel is None:
            vs = set(discr.values())
        elif sel[0] == "eq":
            vs = {discr[sel[1]]}
        else:
            vs = {n for d, n in discr.items() if d not in sel[1]}
        if cl[0] == "agg" and cl[2] == "None":
            none_set |= vs
        elif cl[0] == "agg" and cl[2] == "Some" and cl[3][0] == ("const", 0):
            some0_set |= vs
        else:
            other.append((vs, term_s(cl)))
        b = r[3][names.index("body")]
        bv = look(b)
        ctx.ob("R05.4", "new|body-none|bb%d" % lf.bb, (bv[0] == "agg" and bv[2] == "None") or is_call(bv, "default"), "a new response has no body", fn.loc(lf.bb))
        sl = r[3][names.index("status_line")]
        sl = look(sl)
        slnames = [v["name"] for v in facts.struct_fields("response::StatusLine")]
        ok_sl = sl[0] == "agg" and sl[1] == "response::StatusLine" and len(sl[3]) == 2 and look(sl[3][slnames.index("http_version")]) == ("arg", 1) and look(sl[3][slnames.index("status_code")]) == ("arg", 2)
        ctx.ob("R05.4", "new|status-line|bb%d" % lf.bb, ok_sl, "the status line holds the given version and status (StatusLine::new, if any, traversed inline)", fn.loc(lf.bb))
    ctx.ob("R05.4", "new|none-set", none_set == {"Continue", "NoContent"}, "statuses created without Content-Length: %s (must be exactly Continue, NoContent)" % sorted(none_set), fn.loc(0))
    rest = set(discr.values()) - {"Continue", "NoContent"}
    ctx.ob("R05.4", "new|some0-set", some0_set == rest and not other, "statuses created with Content-Length 0: %s; other: %s" % (sorted(some0_set), other), fn.loc(0))
    if facts.has_fn("response::StatusLine::new"):
        ctx.touched(facts.fn("response::StatusLine::new"))
