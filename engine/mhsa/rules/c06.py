"""C06 -- queued responses reach the stream completely, once, in order, under short writes."""
from ..core import AnalysisError, term_s, subterms
from . import conn
from .conn import leaves, ret_kind, self_field
from .fields import field_writers, mut_borrow_consumers
from .util import payload_of, result_outcome, propagated_error, const_of, is_call, last_seg, look, norm, truth, option_is_some

EXPLANATION = (
    "Static decision of the writer's bookkeeping over every path of HttpConnection::try_write "
    "(path-sensitive dataflow; the boolean steering flags fold to constants per path): at most one call "
    "on the stream, which is Write::write of the unsent buffer's bytes and is in no cycle; the "
    "InvalidWrite exit touches nothing; a response is popped and serialized only when the unsent buffer "
    "is None and what is stored as the unsent buffer is exactly the vector Response::write_all filled; "
    "after a short write exactly the prefix write() reported is drained, after a full write the buffer "
    "becomes None, after Interrupted nothing is removed; Ok(0) and every non-Interrupted error clear "
    "queue and buffer and return ConnectionClosed; the response queue is mutated only by push_back / "
    "pop_front / clear (FIFO); pending_write consults both queue and buffer. "
    "the queue is emptied only by clear_write_buffer, reached only from try_write and from the hang-up branch of requests(). "
    "Decides these clauses; the prefix invariant over all short-write patterns is not decided."
)
TRUSTED = ["Write::write returns n <= buf.len() bytes accepted", "Vec::drain(..n) removes exactly the first n elements", "VecDeque FIFO semantics"]
ASSUMPTIONS = []
NOT_DECIDED = "the prefix invariant over all short-write patterns (relation between unbounded histories of two byte streams)"

INTERRUPTED = ("agg", "std::io::ErrorKind", "Interrupted", ())


def run(ctx):
    ctx.rule("R06.1", "at most one call on the stream per try_write: Write::write(stream, unsent bytes); none on the InvalidWrite exit; not in a cycle")
    ctx.rule("R06.2", "short write: drain exactly ..n with n the Ok payload of that write; Interrupted: nothing removed, Ok returned")
    ctx.rule("R06.3", "Ok(0) or a non-Interrupted error: queue and buffer cleared, ConnectionClosed returned -- and only then")
    ctx.rule("R06.4", "a response is popped and serialized only when the unsent buffer is None; the buffer becomes exactly the serialized vector")
    ctx.rule("R06.5", "a full write sets the unsent buffer to None")
    ctx.rule("R06.6", "pending_write consults both the queue and the unsent buffer")
    ctx.rule("R06.7", "the response queue is mutated only by push_back / pop_front / clear; it is emptied only by clear_write_buffer, which runs only after a failed write (try_write) or on a hang-up event (requests)")
    ctx.guarded("R06.1", "paths", lambda: paths(ctx))
    ctx.guarded("R06.6", "pending_write", lambda: pending(ctx))
    ctx.guarded("R06.7", "fifo", lambda: fifo(ctx, "R06.7", "response_queue", {"push_back", "pop_front", "clear"}))
    ctx.guarded("R06.7", "discard-callers", lambda: discard_callers(ctx, "R06.7"))
    ctx.rule("R06.8", "discarding pending output really discards it: clear_write_buffer empties the queue and sets the unsent buffer to None (= C09 R09.4)")
    ctx.rule("R06.9", "one try_write per readiness notification: a second write on a full non-blocking socket reports EAGAIN and a healthy connection loses its output (= C08 R08.4)")

    def shared():
        from . import c09
        c09.clear_write_buffer_rule(ctx, "R06.8")
        c09.single_io(ctx, "R06.9")

    ctx.guarded("R06.8", "shared", shared)


def discard_callers(ctx, rule):
    """Who may throw pending output away: try_write (decided per write outcome by R06.3) and the hang-up branch of requests()."""
    from .util import known_callers
    from . import srv
    facts = ctx.facts
    cw, ccw = conn.P + "clear_write_buffer", srv.CC + "clear_write_buffer"
    callers = set(known_callers(facts, cw))
    if facts.has_fn(ccw):
        callers |= set(known_callers(facts, ccw))
    callers -= {ccw}
    from .util import calls_with_helpers
    own = bool(calls_with_helpers(facts, facts.fn(conn.TRY_WRITE), "clear"))      # try_write empties the queue through a helper of its own
    ctx.ob(rule, "clear_write_buffer|callers", callers <= {conn.TRY_WRITE, srv.REQUESTS} and (conn.TRY_WRITE in callers or own), "clear_write_buffer is reached from %s (allowed: try_write, requests; try_write discards after a failed write, through it or directly)" % sorted(callers))
    fn, lv = leaves(ctx, srv.REQUESTS)
    n = 0
    for lf in lv:
        clr = srv.calls(lf, ccw) or srv.calls(lf, cw)
        if not clr:
            continue
        n += 1
        fl = srv.flags_on_path(lf)
        hang = any(fl.get(f) for f in (srv.EV_ERR, srv.EV_HUP, srv.EV_RDHUP))
        ctx.ob(rule, "clear_write_buffer|requests|only-on-hangup", hang, "requests() discards a connection's pending output only on a path where ERROR, HANG_UP or READ_HANG_UP was reported for it", fn.loc(clr[0][1]))
    if srv.REQUESTS in callers:
        ctx.ob(rule, "clear_write_buffer|requests|floor", n >= 1, "%d discarding path(s) of requests() inspected (floor 1)" % n, fn.loc(0))


def direct_subterms(t):
    """Sub-terms of t without descending into the results of other calls."""
    yield t
    if isinstance(t, tuple) and t and t[0] != "call":
        for x in t[1:]:
            if isinstance(x, tuple) and x and isinstance(x[0], str):
                yield from direct_subterms(x)
            elif isinstance(x, tuple):
                for y in x:
                    if isinstance(y, tuple):
                        yield from direct_subterms(y)


def stream_calls(lf):
    out = []
    for e in lf.events:
        if e[0] == "call" and e[4][2]:
            if any(isinstance(s, tuple) and s and s[0] == "field" and s[3] == "stream" and s[2] == conn.HC for a in e[4][2] for s in direct_subterms(a)):
                out.append(e)
    return out


def buf_some(t):
    """t is the &mut Vec inside self.response_buffer (as_mut payload) or the vec just stored there."""
    t = look(t)
    while t[0] == "mut":
        t = look(t[1])
    if t[0] == "field" and t[1][0] == "downcast" and t[1][2] == "Some":
        x = look(t[1][1])
        if is_call(x, "as_mut", "as_ref"):
            x = look(x[2][0])
        while x[0] == "mut":
            x = look(x[1])
        return x
    if is_call(t, "std::option::Option::<T>::insert", "std::option::Option::<T>::get_or_insert") and len(t[2]) == 2:
        # `self.response_buffer.insert(vec)`: stores Some(vec) and hands back a reference to the stored vector
        x = look(t[2][0])
        while x[0] == "mut":
            x = look(x[1])
        return x
    return None


class _Rec:
    """Collects the obligations of a rule body instead of reporting them (so that two decision procedures for the same
    clauses can be tried and the verdict of the one that succeeds reported)."""

    def __init__(self, ctx):
        self._ctx = ctx
        self.facts = ctx.facts
        self.items = []

    def ob(self, rule, key, ok, msg, loc=None, witness=None):
        self.items.append((rule, key, bool(ok), msg, loc, witness))
        return bool(ok)

    def fail(self, rule, key, msg, loc=None, witness=None):
        self.items.append((rule, key, False, msg, loc, witness))
        return False

    def failed(self):
        return [i for i in self.items if not i[2]]

    def replay(self, ctx):
        for (rule, key, ok, msg, loc, witness) in self.items:
            ctx.ob(rule, key, ok, msg, loc, witness)

    def __getattr__(self, name):
        return getattr(self._ctx, name)


def paths(ctx, remap=None, only=None):
    """R06.1-R06.5, decided twice: by the shape of today's bookkeeping (the buffer stays inside the Option, two steering
    flags) and, when that shape is not there, by the abstract value of the unsent bytes (paths_abstract: which object is
    written and what state it and the slot are left in per write outcome -- independent of whether the buffer is
    borrowed in place or taken out and put back).  Each procedure is sufficient on its own; a violation is reported
    only when neither can establish the clauses."""
    if remap:
        ctx = _Remap(ctx, remap, only)
    import os
    mode = os.environ.get("MHSA_WRITER")        # development switch: run one of the two procedures alone
    if mode == "classic":
        return _paths_classic(ctx)
    if mode == "abstract":
        return paths_abstract(ctx)
    a = _Rec(ctx)
    try:
        _paths_classic(a)
    except AnalysisError as e:
        a.fail("R06.1", "cannot-establish|classic", str(e))
    if not a.failed():
        a.replay(ctx)
        return
    b = _Rec(ctx)
    try:
        paths_abstract(b)
    except AnalysisError as e:
        b.fail("R06.1", "cannot-establish|abstract", str(e))
    if not b.failed():
        b.replay(ctx)
        ctx.ob("R06.1", "decided-by-abstract-value", True, "try_write does not have the in-place shape (%d clause(s) not matched); decided on the abstract value of the unsent bytes instead" % len(a.failed()))
        return
    if len(b.failed()) < len(a.failed()):
        # neither holds; the abstract-value procedure understood more of the code (fewer clauses open): its findings are the report
        b.replay(ctx)
        ctx.ob("R06.1", "decided-by-abstract-value", True, "try_write does not have the in-place shape (%d clause(s) not matched); decided on the abstract value of the unsent bytes instead" % len(a.failed()))
        return
    a.replay(ctx)
    for (rule, key, ok, msg, loc, witness) in b.failed():
        ctx.ob(rule, "abstract|" + key, ok, "(abstract-value form) " + msg, loc, witness)


def _paths_classic(ctx):
    facts = ctx.facts
    fn, lv = leaves(ctx, conn.TRY_WRITE)
    ctx.ob("R06.1", "no-cycle", not fn.cycles(), "try_write has no CFG cycle (cycles: %s)" % fn.cycles(), fn.loc(0))
    seen = set()
    for lf in lv:
        rk = ret_kind(lf)
        if rk is None:
            ctx.fail("R06.1", "non-returning-path|%s" % lf.kind, "try_write has a path that does not return (%s)" % lf.kind, fn.loc(lf.bb))
            continue
        sc = stream_calls(lf)
        buf_none = conn.atom_truth(lf, lambda t: is_call(t, "is_none") and self_field(t[2][0], "response_buffer"))
        if buf_none is None:
            bs = conn.atom_truth(lf, lambda t: is_call(t, "is_some") and self_field(t[2][0], "response_buffer"))
            buf_none = None if bs is None else not bs
        if buf_none is None:
            # `match self.response_buffer.as_mut() { None => .., Some(v) => .. }` (first test of it on the path)
            for (t, c, _b) in lf.conds:
                if t[0] == "discr":
                    x = look(t[1])
                    if is_call(x, "as_mut", "as_ref"):
                        x = look(x[2][0])
                    if self_field(x, "response_buffer") and option_is_some(c) is not None:
                        buf_none = not option_is_some(c)
                        break
        pops = [e for e in lf.events if e[0] == "call" and last_seg(e[3]) in ("pop_front", "pop_back", "remove", "swap_remove_front") and self_field(e[4][2][0], "response_queue")]
        sers = [e for e in lf.events if e[0] == "call" and e[3] == "response::Response::write_all"]
        stores = [e for e in lf.events if e[0] == "assign" and e[3] == "(*_1).response_buffer"]
        for e in lf.events:
            if e[0] == "call" and e[3] in ("std::option::Option::<T>::insert", "std::option::Option::<T>::get_or_insert", "std::option::Option::<T>::replace") and len(e[4][2]) == 2 and self_field(e[4][2][0], "response_buffer"):
                # Option::insert(&mut self.response_buffer, v) is `self.response_buffer = Some(v)`
                stores.append(("assign", e[1], None, "(*_1).response_buffer", ("agg", "std::option::Option", "Some", (e[4][2][1],)), None))
        # R06.4
        if pops or sers:
            ok = buf_none is True and len(pops) == 1 and last_seg(pops[0][3]) == "pop_front"
            ctx.ob("R06.4", "pop-only-when-buffer-empty", ok, "a response is taken (pop_front, once) only after the unsent buffer was found None (buffer None: %s, pops: %s)" % (buf_none, [last_seg(p[3]) for p in pops]), fn.loc((pops or sers)[0][1]))
        if sers:
            s = sers[0]
            popped = look(s[4][2][0])
            ok_src = bool(pops) and payload_of(popped) is not None and norm(payload_of(popped)) == norm(pops[0][4])
            sink = look(s[4][2][1])
            failed = result_outcome(lf, s[4]) == "err"
            if failed:
                seen.add("serialize-error")
                returned = rk[0] == "prop"
                if rk[0] == "Err":
                    ev_ = look(rk[1])
                    returned = ev_[0] == "agg" and ev_[2] == "StreamWriteError" and ev_[3] and look(ev_[3][0])[0] == "field" and look(ev_[3][0])[1][0] == "downcast" and look(ev_[3][0])[1][2] == "Err" and norm(look(look(ev_[3][0])[1][1])) == norm(s[4])
                ctx.ob("R06.4", "serialize-error-propagated", returned and not sc, "a serialization error is returned and the stream is not touched", fn.loc(lf.bb))
                continue
            somes = [x for x in stores if x[4][0] == "agg" and x[4][2] == "Some"]       # `= None` after a full write is the take, not the store
            ok_store = len(somes) == 1
            if ok_store:
                v = look(somes[0][4][3][0])
                while v[0] == "mut":
                    if v[2] == "response::Response::write_all":
                        pass
                    v = look(v[1])
                ok_store = norm(v) == norm(strip_mut(sink))
            ctx.ob("R06.4", "serialized-popped-response-into-buffer", ok_src and ok_store, "the popped response is serialized with Response::write_all into a vector and exactly that vector becomes the unsent buffer (source %s, stored %s)" % (ok_src, ok_store), fn.loc(s[1]))
        # classify by what happened on the stream
        if not sc:
            errv = look(rk[1]) if rk[0] == "Err" else (propagated_error(rk[1])[1] if rk[0] == "prop" else None)
            if errv is not None and errv[0] == "agg" and errv[2] == "InvalidWrite":
                seen.add("invalid-write")
                q_empty = any(t[0] == "discr" and is_call(look(t[1]), "pop_front") and option_is_some(c) is False for (t, c, _b) in lf.conds)
                q_empty = q_empty or (bool(pops) and rk[0] == "prop" and norm(propagated_error(rk[1])[0]) == norm(pops[0][4]))
                ctx.ob("R06.1", "invalid-write|nothing-pending-and-untouched", buf_none is True and q_empty and not stores, "InvalidWrite is returned only with no unsent buffer and an empty queue, without touching the stream", fn.loc(lf.bb))
            elif rk[0] == "Ok":
                # infeasible by typestate (buffer Some but as_mut None); must not change anything
                wr = [e for e in lf.events if e[0] == "call" and last_seg(e[3]) in ("drain", "clear", "take", "truncate")]
                ctx.ob("R06.1", "no-write-path|inert", not wr, "a path without a stream write removes nothing", fn.loc(lf.bb))
            continue
        ok1 = len(sc) == 1 and sc[0][3] == "std::io::Write::write" and self_field(sc[0][4][2][0], "stream")
        data = look(sc[0][4][2][1]) if sc else None
        src = buf_some(data[2][0]) if ok1 and is_call(data, "as_slice", "deref", "as_ref") else (buf_some(data) if ok1 else None)
        from_buffer = src is not None and (self_field(src, "response_buffer") or (stores and norm(strip_mut(src)) == norm(strip_mut(stores[0][4]))))
        ctx.ob("R06.1", "one-write-of-unsent-bytes|bb%d" % lf.trace[-3], ok1 and from_buffer, "exactly one stream call: Write::write(self.stream, bytes of the unsent buffer) (calls: %s)" % [c[3] for c in sc], fn.loc(sc[0][1]))
        if not ok1:
            continue
        W = sc[0][4]
        wres = None
        for (t, c, _b) in lf.conds:
            if t[0] == "discr" and norm(look(t[1])) == norm(W):
                if c == ("eq", 0):
                    wres = "ok"
                elif c == ("eq", 1):
                    wres = "err"
        payload0 = None
        short = None
        interrupted = None
        for (t, c, _b) in lf.conds:
            x = look(t)
            if payload_of(x) is not None and x[0] != "bin" and norm(payload_of(x)) == norm(W):
                if c == ("eq", 0):
                    payload0 = True
                elif c[0] == "ne" and 0 in c[1]:
                    payload0 = False
            if t[0] == "bin" and t[1] in ("Ne", "Eq") and truth(c) is not None:
                # `n == 0` / `n != 0` written as a comparison (match guard) instead of a pattern
                for a, b in ((t[2], t[3]), (t[3], t[2])):
                    if const_of(b) == 0 and payload_of(a) is not None and norm(payload_of(a)) == norm(W):
                        payload0 = truth(c) if t[1] == "Eq" else not truth(c)
            if t[0] == "bin" and t[1] in ("Ne", "Eq") and any(norm(s) == norm(W) for s in subterms(t) if isinstance(s, tuple)) and any(is_call(s, "len") for s in subterms(t) if isinstance(s, tuple)):
                tv = truth(c)
                short = tv if t[1] == "Ne" else (None if tv is None else not tv)
            if is_call(t, "eq", "ne") and any(is_call(s, "kind") for s in subterms(t) if isinstance(s, tuple)):
                other = [a for a in t[2] if not any(is_call(s, "kind") for s in subterms(a) if isinstance(s, tuple))]
                if other and look(other[0]) == INTERRUPTED:
                    tv = truth(c)
                    interrupted = tv if last_seg(t[1]) == "eq" else (None if tv is None else not tv)
        drains = [e for e in lf.events if e[0] == "call" and last_seg(e[3]) in ("drain", "split_off", "truncate", "remove", "rotate_left", "clear", "retain", "drain_filter") and buf_some(e[4][2][0]) is not None]
        clears = [e for e in lf.events if e[0] == "call" and (e[3] == conn.P + "clear_write_buffer" or (last_seg(e[3]) == "clear" and "VecDeque" in e[3] and e[4][2] and self_field(e[4][2][0], "response_queue")))]
        takes = [e for e in lf.events if (e[0] == "call" and last_seg(e[3]) == "take" and (self_field(e[4][2][0], "response_buffer") or (stores and norm(strip_mut(look(e[4][2][0]))) == norm(strip_mut(stores[0][4]))))) or (e[0] == "assign" and e[3] == "(*_1).response_buffer" and e[4][0] == "agg" and e[4][2] == "None")]
        is_closed = rk[0] == "Err" and look(rk[1])[0] == "agg" and look(rk[1])[2] == "ConnectionClosed"
        if wres == "ok" and payload0 is True:
            seen.add("ok0")
            ctx.ob("R06.3", "ok0|cleared-and-closed", is_closed and len(clears) == 1, "write returned Ok(0): pending output discarded (clear_write_buffer) and ConnectionClosed returned", fn.loc(lf.bb))
        elif wres == "ok" and payload0 is False and short is True:
            seen.add("short")
            ok = len(drains) == 1 and last_seg(drains[0][3]) == "drain" and rk[0] == "Ok" and not clears and not takes
            if ok:
                r = look(drains[0][4][2][1])
                ok = r[0] == "agg" and r[1].startswith("std::ops::RangeTo") and not r[1].startswith("std::ops::RangeToInclusive")
                if ok:
                    n = look(r[3][0])
                    ok = payload_of(n) is not None and norm(payload_of(n)) == norm(W)
            ctx.ob("R06.2", "short|drain-exactly-written", ok, "short write: exactly buffer.drain(..n) with n the count that very write returned; buffer kept, Ok returned", fn.loc(lf.bb))
        elif wres == "ok" and payload0 is False and short is False:
            seen.add("full")
            ctx.ob("R06.5", "full|buffer-none", len(takes) == 1 and not drains and not clears and rk[0] == "Ok", "full write: the unsent buffer is set to None (take), nothing else removed, Ok returned", fn.loc(lf.bb))
        elif wres == "err" and interrupted is True:
            seen.add("interrupted")
            ctx.ob("R06.2", "interrupted|nothing-removed", not drains and not clears and not takes and rk[0] == "Ok", "Interrupted: nothing is removed or cleared and Ok is returned (retry later)", fn.loc(lf.bb))
        elif wres == "err" and interrupted is False:
            seen.add("error")
            ctx.ob("R06.3", "error|cleared-and-closed", is_closed and len(clears) == 1, "any other write error: pending output discarded and ConnectionClosed returned", fn.loc(lf.bb))
        else:
            ctx.fail("R06.1", "unclassified-write-outcome|%s/%s/%s/%s" % (wres, payload0, short, interrupted), "a path after the stream write is not decided by Ok(0)/short/full/Interrupted/other error", fn.loc(lf.bb), witness="blocks %s" % lf.trace[-10:])
        if not (wres == "ok" and payload0) and not (wres == "err" and interrupted is False):
            ctx.ob("R06.3", "closed-only-on-zero-or-error|bb%d" % lf.trace[-3], not is_closed and not clears, "ConnectionClosed / discard happens only for Ok(0) or a non-Interrupted error", fn.loc(lf.bb))
    want = {"ok0", "short", "full", "interrupted", "error", "invalid-write"}
    ctx.ob("R06.1", "outcomes-covered", want <= seen, "write outcomes with a path: %s (need %s)" % (sorted(seen), sorted(want)), fn.loc(0))
    _writer_surroundings(ctx)


def _writer_surroundings(ctx):
    facts = ctx.facts
    # enqueue_response is push_back of its argument
    fe, le = leaves(ctx, conn.P + "enqueue_response")
    for lf in le:
        pb = [e for e in lf.events if e[0] == "call" and "VecDeque" in e[3] and self_field(e[4][2][0], "response_queue")]
        ctx.ob("R06.7", "enqueue_response|push_back", len(pb) == 1 and last_seg(pb[0][3]) == "push_back" and look(pb[0][4][2][1]) == ("arg", 2), "enqueue_response appends its argument at the back of the queue", fe.loc(0))
    # the stream is touched by nothing else on the write side
    users = {}
    for f in facts.fns.values():
        for bi, si, place, rv in f.assigns():
            if rv["k"] in ("ref", "rawptr") and any(e["k"] == "field" and e["name"] == "stream" and e.get("of") == conn.HC for e in rv["place"]["proj"]):
                users.setdefault(f.name, 0)
                users[f.name] += 1
    from .util import writer_roots
    roots = set()
    for u in users:
        roots |= writer_roots(facts, u)
    # read_bytes may lend the stream to the receive wrapper (`Self::recv_with_fds(&self.stream, buf, files)`): the receive path
    ctx.ob("R06.1", "stream-users", roots <= {conn.TRY_WRITE, conn.RECV, conn.READ_BYTES}, "functions that borrow HttpConnection.stream: %s (on behalf of %s)" % (sorted(users), sorted(roots)))


def paths_abstract(ctx):
    """The writer's clauses on abstract values.  Objects: OLD = the bytes the unsent buffer held at entry (exists iff the
    buffer was Some), SER = the vector Response::write_all filled for the response popped in this call.  The slot
    (self.response_buffer) holds ENTRY (untouched), NONE or SOME(object); objects moved out of the slot (take / replace)
    are followed through the call that moved them.  Per path, in event order:
      - a response is popped (pop_front, once) only when it is established that no unsent bytes exist (entry None);
      - the one stream call is Write::write of the unsent object (OLD, or SER of the popped response), undrained;
      - by outcome (0 <= n <= len trusted): Ok(0) / other error -> clear_write_buffer, ConnectionClosed;
        short -> exactly the first n bytes removed from that object and the slot holds it; full -> slot None;
        Interrupted -> the slot holds the object unchanged; nothing discarded in the last three.
    Anything applied to the slot or an object that is not understood fails closed."""
    from ..lin import Lin, State
    facts = ctx.facts
    fn = facts.fn(conn.TRY_WRITE)
    ctx.touched(fn)
    from ..paths import PathEnum
    # pending_write() traversed inline: `if !self.pending_write() { return Err(InvalidWrite) }` is a test of the slot and the queue
    lv = PathEnum(fn, facts, lower=True, inline_also=lambda p_, a_: p_ == conn.P + "pending_write").run()
    ctx.ob("R06.1", "no-cycle", not fn.cycles(), "try_write has no CFG cycle (cycles: %s)" % fn.cycles(), fn.loc(0))
    seen = set()
    READERS = ("len", "as_slice", "is_empty", "deref", "as_ref", "as_ptr", "iter", "capacity", "borrow", "first", "last", "get", "starts_with", "ends_with", "to_vec", "clone")

    for lf in lv:
        rk = ret_kind(lf)
        if rk is None:
            ctx.fail("R06.1", "non-returning-path|%s" % lf.kind, "try_write has a path that does not return (%s)" % lf.kind, fn.loc(lf.bb))
            continue

        def is_slot(t):
            """self.response_buffer -- or, after a store on this path, the stored value the engine forwards to later reads"""
            if self_field(t, "response_buffer"):
                return True
            t = look(t)
            while t[0] == "mut":
                t = look(t[1])
            if t[0] == "agg" and t[1].startswith("std::option::Option") and isinstance(st["slot"], tuple):
                return t[2] == "Some" and obj_of(t[3][0]) == st["slot"][1]
            return False

        st = {"slot": "ENTRY", "entry_none": None, "objs": {"OLD": {"drained": [], "shift": None}}, "bound": {}, "pops": [], "qcleared": 0,
              "W": [], "problems": [], "infeasible": False, "lens": {}, "stores": 0}

        def entry_opt():
            return "NONE" if st["entry_none"] is True else ("SOME", "OLD") if st["entry_none"] is False else "ENTRYOPT"

        def slot_val():
            return entry_opt() if st["slot"] == "ENTRY" else st["slot"]

        def opt_of(t):
            """abstract Option value of a term: 'NONE' | ('SOME', oid) | 'ENTRYOPT' | None (not understood)"""
            t = look(t)
            while t[0] == "mut":
                t = look(t[1])
            if t[0] == "agg" and t[1].startswith("std::option::Option"):
                if t[2] == "None":
                    return "NONE"
                o = obj_of(t[3][0])
                return ("SOME", o) if o is not None else None
            if is_slot(t):
                return slot_val()
            if t[0] == "call" and norm(t) in st["bound"]:
                v = st["bound"][norm(t)]
                return entry_opt() if v == "ENTRYOPT" else v
            if is_call(t, "as_mut", "as_ref", "as_deref", "as_deref_mut") and "Option" in t[1] and t[2]:
                return opt_of(t[2][0])
            return None

        def obj_of(t):
            """the vector object a term denotes (by value or by reference), or None"""
            t = look(t)
            while t[0] == "mut":
                t = look(t[1])
            if t[0] == "call" and last_seg(t[1]) in ("new", "with_capacity") and "Vec" in t[1]:
                k = ("SER", norm(t))
                return k if k in st["objs"] else None
            if is_call(t, "as_slice", "as_mut_slice", "deref", "deref_mut", "as_ref", "as_mut", "borrow", "borrow_mut") and "Option" not in t[1] and t[2]:
                return obj_of(t[2][0])
            if is_call(t, "std::option::Option::<T>::insert") and len(t[2]) == 2 and is_slot(t[2][0]):
                return obj_of(t[2][1])
            if is_call(t, "std::option::Option::<T>::get_or_insert") and len(t[2]) == 2 and is_slot(t[2][0]):
                v = slot_val()
                return v[1] if isinstance(v, tuple) else None
            src = payload_of(t)
            if src is not None:
                v = opt_of(src)
                if v == "ENTRYOPT":
                    return "OLD"        # the payload of the entry option exists only if it was Some: that object is OLD
                if isinstance(v, tuple):
                    return v[1]
            return None

        def tested_option(t, c):
            """(abstract option tested, True for Some / False for None) for a condition on an Option we follow"""
            from .util import tested_call
            some = None
            z = None
            if t[0] == "discr":
                y = look(t[1])
                if is_call(y, "branch") and y[2]:
                    y = look(y[2][0])
                    while is_call(y, "ok_or", "ok_or_else") and y[2]:
                        y = look(y[2][0])
                    some = True if c == ("eq", 0) else False if c in (("eq", 1), ("ne", (0,))) else None
                else:
                    some = option_is_some(c)
                z = y
            else:
                x = t
                neg = False
                while x[0] == "un" and x[1] == "Not":
                    x, neg = look(x[2]), not neg
                if is_call(x, "is_none", "is_some") and "Option" in x[1] and x[2] and truth(c) is not None:
                    some = truth(c) if last_seg(x[1]) == "is_some" else not truth(c)
                    if neg:
                        some = not some
                    z = look(x[2][0])
            if z is None or some is None:
                return None
            while is_call(z, "as_mut", "as_ref", "as_deref", "as_deref_mut") and "Option" in z[1] and z[2]:
                z = look(z[2][0])
            while z[0] == "mut":
                z = look(z[1])
            if z[0] == "agg" and z[1].startswith("std::option::Option") and z[2] in ("Some", "None") and not is_slot(z):
                if (z[2] == "Some") != some:
                    st["infeasible"] = True     # a test of a literal Option (a value forwarded along the path) against its own variant
                return None
            if is_slot(z):
                return ("slot", some)
            if z[0] == "call" and norm(z) in st["bound"]:
                return (("bound", norm(z)), some)
            return None

        def set_entry(none):
            if st["entry_none"] is None:
                st["entry_none"] = none
            elif st["entry_none"] != none:
                st["infeasible"] = True

        def learn(which, some):
            v = st["slot"] if which == "slot" else st["bound"][which[1]]
            if v in ("ENTRY", "ENTRYOPT"):
                set_entry(not some)
            elif (v == "NONE") == some:
                st["infeasible"] = True

        W = None
        for e in lf.events:
            if st["infeasible"]:
                break
            if e[0] == "cond":
                to = tested_option(e[3], e[4])
                if to is not None:
                    learn(*to)
                # the queue was seen non-empty (`!queue.is_empty()`, nothing removed since): its pop_front cannot be None
                y_ = look(e[3])
                neg_ = False
                while y_[0] == "un" and y_[1] == "Not":
                    y_, neg_ = look(y_[2]), not neg_
                if is_call(y_, "is_empty") and y_[2] and self_field(y_[2][0], "response_queue") and truth(e[4]) is not None and not st["pops"] and not st["qcleared"]:
                    st["q_nonempty"] = (truth(e[4]) == neg_)
                from .util import option_test as _ot
                if st.get("q_nonempty") and len(st["pops"]) == 1 and not st["qcleared"] and _ot(e[3], e[4], lambda y: norm(y) == norm(st["pops"][0][0][4])) == "none":
                    st["infeasible"] = True
                continue
            if e[0] == "assign":
                if e[3] == "(*_1).response_buffer":
                    v = opt_of(e[4])
                    if v is None or v == "ENTRYOPT":
                        st["problems"].append("the value stored in the unsent-buffer slot is not understood: %s" % term_s(e[4])[:100])
                    else:
                        st["slot"] = v
                        st["stores"] += 1
                elif e[3].startswith("(*_1).response_buffer"):
                    st["problems"].append("a store inside the unsent-buffer slot: %s" % e[3])
                continue
            if e[0] != "call":
                continue
            p, args = e[3], e[4][2]
            seg = last_seg(p)
            a0 = look(args[0]) if args else None
            # the slot as a whole
            if args and is_slot(a0) and "Option" in p or (p in ("std::mem::take", "std::mem::replace") and args and is_slot(a0)):
                if seg == "take":
                    st["bound"][norm(e[4])] = "ENTRYOPT" if st["slot"] == "ENTRY" else st["slot"]
                    st["slot"] = "NONE"
                elif seg == "replace":
                    st["bound"][norm(e[4])] = "ENTRYOPT" if st["slot"] == "ENTRY" else st["slot"]
                    v = opt_of(("agg", "std::option::Option", "Some", (args[1],))) if "Option" in p else opt_of(args[1])
                    if v is None or v == "ENTRYOPT":
                        st["problems"].append("replace() stores a value that is not understood")
                    else:
                        st["slot"] = v
                        st["stores"] += 1
                elif seg == "insert":
                    o = obj_of(args[1])
                    if o is None:
                        st["problems"].append("insert() stores a vector that is not understood")
                    else:
                        st["slot"] = ("SOME", o)
                        st["stores"] += 1
                elif seg == "get_or_insert":
                    v = slot_val()
                    if v == "NONE":
                        o = obj_of(args[1])
                        if o is None:
                            st["problems"].append("get_or_insert() stores a vector that is not understood")
                        else:
                            st["slot"] = ("SOME", o)
                            st["stores"] += 1
                    elif v == "ENTRYOPT":
                        st["problems"].append("get_or_insert() on a slot not known to be empty")
                elif seg in ("as_mut", "as_ref", "is_none", "is_some", "as_deref", "as_deref_mut", "iter", "ok_or", "ok_or_else", "unwrap", "expect", "is_some_and", "is_none_or", "map", "and_then", "unwrap_or_default"):
                    pass        # reads of the slot / adapters of a borrow of it (`as_mut().ok_or(..)`); what is done through the borrow is followed on the object
                else:
                    st["problems"].append("%s applied to the unsent-buffer slot" % seg)
                continue
            if p == conn.P + "clear_write_buffer":
                st["slot"] = "NONE"
                st["qcleared"] += 1
                continue
            if args and self_field(a0, "response_queue"):
                if seg in ("pop_front", "pop_back", "remove", "swap_remove_front", "swap_remove_back"):
                    no_unsent = st["entry_none"] is True and st["slot"] in ("ENTRY", "NONE")
                    st["pops"].append((e, no_unsent))
                elif seg == "clear":
                    st["qcleared"] += 1         # what clear_write_buffer does to the queue, done here (with the slot: checked per outcome)
                elif seg in ("truncate", "drain", "retain", "split_off"):
                    st["problems"].append("the response queue is emptied in place (%s)" % seg)
                continue
            if p == "response::Response::write_all" and len(args) == 2:
                sink = look(args[1])
                while sink[0] == "mut":
                    sink = look(sink[1])
                if sink[0] == "call" and last_seg(sink[1]) in ("new", "with_capacity") and "Vec" in sink[1]:
                    st["objs"][("SER", norm(sink))] = {"drained": [], "shift": None, "resp": look(args[0]), "ev": e}
                else:
                    st["problems"].append("a response is serialized into something that is not a fresh vector")
                continue
            if any(isinstance(s_, tuple) and s_ and s_[0] == "field" and s_[3] == "stream" and s_[2] == conn.HC for a in args for s_ in direct_subterms(a)):
                o = obj_of(args[1]) if p == "std::io::Write::write" and len(args) == 2 and self_field(args[0], "stream") else None
                st["W"].append((e, o, list(st["objs"][o]["drained"]) if o in st["objs"] else None, p))
                continue
            # operations on a vector object
            o = obj_of(a0) if args else None
            if o is None:
                continue
            ob_ = st["objs"][o]
            if seg in READERS and not (args[0][0] == "ref" and len(args[0]) > 2 and args[0][2] and seg not in ("deref", "as_ref", "borrow", "iter")):
                if seg == "len":
                    st["lens"][norm(e[4])] = (o, not ob_["drained"] and ob_["shift"] is None)
                continue
            if seg in ("deref_mut", "as_mut", "as_mut_slice", "borrow_mut", "deref", "as_ref", "iter"):
                continue
            r = look(args[1]) if len(args) > 1 else None
            if seg == "drain" and r is not None and r[0] == "agg" and r[1].startswith("std::ops::RangeTo") and not r[1].startswith("std::ops::RangeToInclusive"):
                ob_["drained"].append(look(r[3][0]))
            elif seg == "copy_within" and len(args) == 3 and r[0] == "agg" and r[1].startswith("std::ops::RangeFrom") and const_of(args[2]) == 0 and ob_["shift"] is None:
                ob_["shift"] = look(r[3][0])
            elif seg == "truncate" and ob_["shift"] is not None and _is_len_minus(r, ob_["shift"], lambda t: st["lens"].get(norm(look(t))) == (o, True)):
                # the unsent tail was moved to the front (copy_within(n.., 0)) and the vector cut to len - n: the first n bytes are gone
                ob_["drained"].append(ob_["shift"])
                ob_["shift"] = None
            else:
                st["problems"].append("%s applied to the unsent bytes is not a removal of a written prefix" % seg)
        if st["infeasible"]:
            continue
        loc = fn.loc(lf.bb)
        final = slot_val()
        if st["problems"]:
            for i, m in enumerate(sorted(set(st["problems"]))):
                ctx.fail("R06.1", "not-understood|%d" % i, m, loc)
            continue
        # R06.4: pop
        pops = st["pops"]
        sers = [o for o in st["objs"] if o != "OLD"]
        if pops or sers:
            ok = len(pops) == 1 and last_seg(pops[0][0][3]) == "pop_front" and pops[0][1]
            ctx.ob("R06.4", "pop-only-when-buffer-empty", ok, "a response is taken (pop_front, once) only once it is established that there are no unsent bytes (pops: %s, established: %s)" % ([last_seg(p_[0][3]) for p_ in pops], [p_[1] for p_ in pops]), fn.loc((pops[0][0] if pops else st["objs"][sers[0]]["ev"])[1]))
        ser_ok = None
        if sers:
            so = st["objs"][sers[0]]
            resp = so["resp"]
            src_ok = len(sers) == 1 and bool(pops) and payload_of(resp) is not None and norm(payload_of(resp)) == norm(pops[0][0][4])
            failed = result_outcome(lf, so["ev"][4]) == "err"
            if failed:
                seen.add("serialize-error")
                returned = rk[0] == "prop"
                if rk[0] == "Err":
                    ev_ = look(rk[1])
                    returned = ev_[0] == "agg" and ev_[2] == "StreamWriteError"
                ctx.ob("R06.4", "serialize-error-propagated", returned and not st["W"], "a serialization error is returned and the stream is not touched", loc)
                continue
            ser_ok = src_ok
        Ws = st["W"]
        if not Ws:
            errv = look(rk[1]) if rk[0] == "Err" else (propagated_error(rk[1])[1] if rk[0] == "prop" else None)
            if errv is not None and errv[0] == "agg" and errv[2] == "InvalidWrite":
                seen.add("invalid-write")
                q_empty = any(t[0] == "discr" and is_call(look(t[1]), "pop_front") and option_is_some(c) is False for (t, c, _b) in lf.conds)
                q_empty = q_empty or (bool(pops) and rk[0] == "prop" and norm(propagated_error(rk[1])[0]) == norm(pops[0][0][4]))
                from .util import option_test
                q_empty = q_empty or any(option_test(t, c, lambda y: is_call(y, "pop_front")) == "none" for (t, c, _b) in lf.conds)
                q_empty = q_empty or (not pops and conn.atom_truth(lf, lambda t: is_call(t, "is_empty") and self_field(t[2][0], "response_queue")) is True)
                ctx.ob("R06.1", "invalid-write|nothing-pending-and-untouched", st["entry_none"] is True and final == "NONE" and q_empty and not sers and not st["qcleared"], "InvalidWrite is returned only with no unsent buffer and an empty queue, without touching the stream", loc)
            else:
                ctx.ob("R06.1", "no-write-path|inert", rk[0] == "Ok" and st["slot"] == "ENTRY" and not pops and not st["qcleared"] and not any(o_["drained"] or o_["shift"] is not None for o_ in st["objs"].values()), "a path without a stream write changes nothing (returns %s, slot %s, entry buffer None: %s)" % (rk[0], st["slot"], st["entry_none"]), loc, witness="blocks %s" % lf.trace[-12:])
            continue
        e, o, drained_before, p = Ws[0]
        expected = "OLD" if st["entry_none"] is False else (sers[0] if st["entry_none"] is True and sers and ser_ok else None)
        ok1 = len(Ws) == 1 and p == "std::io::Write::write" and o is not None and o == expected and drained_before == []
        ctx.ob("R06.1", "one-write-of-unsent-bytes|bb%d" % lf.trace[-3], ok1, "exactly one stream call: Write::write(self.stream, all the unsent bytes: the buffer held at entry, or the serialization of the response just popped) (calls: %s, object: %s, expected: %s)" % ([w[3] for w in Ws], o if o is None or o == "OLD" else "SER", expected if expected in (None, "OLD") else "SER"), fn.loc(e[1]))
        if sers:
            ctx.ob("R06.4", "serialized-popped-response-into-buffer", bool(ser_ok) and o == sers[0], "the popped response is serialized with Response::write_all into a fresh vector and exactly that vector is what is written and kept", fn.loc(st["objs"][sers[0]]["ev"][1]))
        if not ok1:
            continue
        Wt = e[4]
        # the outcome of the write: result, and n against the length, by linear arithmetic over the path's tests
        wres = None
        interrupted = None
        ls = State()
        N, L = Lin.atom("n"), Lin.atom("len")
        ls.add_le(N.scale(-1))
        ls.add_le(N - L)

        def side(x):
            x = look(x)
            while x[0] == "cast":
                x = look(x[1])
            if const_of(x) is not None and isinstance(const_of(x), int) and not isinstance(const_of(x), bool):
                return Lin.const(const_of(x))
            if payload_of(x) is not None and x[0] != "bin" and norm(payload_of(x)) == norm(Wt):
                return N
            if is_call(x, "len") and st["lens"].get(norm(x)) == (o, True):
                return L
            src_ = payload_of(x)
            if src_ is not None and x[0] != "bin" and is_call(src_, "checked_sub") and len(src_[2]) == 2:
                a__, b__ = side(src_[2][0]), side(src_[2][1])
                if a__ is not None and b__ is not None:
                    return a__ - b__         # the Some payload of `len.checked_sub(n)`
            return None

        for (t, c, _b) in lf.conds:
            if t[0] == "discr" and norm(look(t[1])) == norm(Wt):
                wres = "ok" if c == ("eq", 0) else "err" if c == ("eq", 1) else wres
                if c[0] == "ne" and len(c[1]) == 1:
                    wres = "ok" if c[1][0] == 1 else "err"
            x = look(t)
            if t[0] == "discr" and is_call(look(t[1]), "checked_sub") and len(look(t[1])[2]) == 2 and option_is_some(c) is not None:
                a__, b__ = side(look(t[1])[2][0]), side(look(t[1])[2][1])
                if a__ is not None and b__ is not None:
                    if option_is_some(c):
                        ls.add_le(b__ - a__)
                    else:
                        ls.add_le(a__ - b__ + Lin.const(1))
            sx = side(x) if x[0] not in ("bin", "const") else None
            if sx is not None:
                if c[0] == "eq" and not isinstance(c[1], bool):
                    ls.add_eq(sx - Lin.const(c[1]))
                elif c[0] == "ne":
                    for k in c[1]:
                        ls.add_ne(sx - Lin.const(k))
            if t[0] == "bin" and t[1] in ("Lt", "Le", "Gt", "Ge", "Eq", "Ne") and truth(c) is not None:
                a_, b_ = side(t[2]), side(t[3])
                if a_ is not None and b_ is not None:
                    op = t[1]
                    if not truth(c):
                        op = {"Lt": "Ge", "Le": "Gt", "Gt": "Le", "Ge": "Lt", "Eq": "Ne", "Ne": "Eq"}[op]
                    d = a_ - b_
                    if op == "Lt":
                        ls.add_le(d + Lin.const(1))
                    elif op == "Le":
                        ls.add_le(d)
                    elif op == "Gt":
                        ls.add_le(d.scale(-1) + Lin.const(1))
                    elif op == "Ge":
                        ls.add_le(d.scale(-1))
                    elif op == "Eq":
                        ls.add_eq(d)
                    else:
                        ls.add_ne(d)
            if is_call(t, "eq", "ne") and any(is_call(s_, "kind") for s_ in subterms(t) if isinstance(s_, tuple)):
                other = [a_ for a_ in t[2] if not any(is_call(s_, "kind") for s_ in subterms(a_) if isinstance(s_, tuple))]
                if other and look(other[0]) == INTERRUPTED:
                    tv = truth(c)
                    interrupted = tv if last_seg(t[1]) == "eq" else (None if tv is None else not tv)
        ls.sharpen()
        if ls.inconsistent():
            continue        # the tests made on n along this path contradict each other (0 < n failed, then n matched against a non-zero pattern, ...)
        zero = wres == "ok" and ls.entails_eq(N)
        short = wres == "ok" and ls.entails_le(Lin.const(1) - N) and ls.entails_le(N - L + Lin.const(1))
        full = wres == "ok" and ls.entails_le(Lin.const(1) - N) and ls.entails_eq(N - L)
        is_closed = rk[0] == "Err" and look(rk[1])[0] == "agg" and look(rk[1])[2] == "ConnectionClosed"
        wo = st["objs"][o]
        kept = final == ("SOME", o)
        if zero:
            seen.add("ok0")
            ctx.ob("R06.3", "ok0|cleared-and-closed", is_closed and st["qcleared"] == 1 and final == "NONE", "write returned Ok(0): pending output discarded (clear_write_buffer) and ConnectionClosed returned", loc)
        elif short:
            seen.add("short")
            dr = wo["drained"]
            ok = kept and rk[0] == "Ok" and len(dr) == 1 and wo["shift"] is None and payload_of(dr[0]) is not None and norm(payload_of(dr[0])) == norm(Wt)
            ctx.ob("R06.2", "short|drain-exactly-written", ok, "short write: exactly the first n bytes are removed from the unsent bytes, n the count that very write returned; they stay the unsent buffer, Ok returned", loc)
        elif full:
            seen.add("full")
            ctx.ob("R06.5", "full|buffer-none", final == "NONE" and rk[0] == "Ok", "full write: the unsent buffer is None afterwards, Ok returned (slot afterwards: %s)" % (final,), loc, witness="blocks %s" % lf.trace[-12:])
        elif wres == "err" and interrupted is True:
            seen.add("interrupted")
            ctx.ob("R06.2", "interrupted|nothing-removed", kept and not wo["drained"] and wo["shift"] is None and rk[0] == "Ok", "Interrupted: the unsent bytes stay the unsent buffer, nothing removed, Ok returned (retry later)", loc)
        elif wres == "err" and interrupted is False:
            seen.add("error")
            ctx.ob("R06.3", "error|cleared-and-closed", is_closed and st["qcleared"] == 1 and final == "NONE", "any other write error: pending output discarded and ConnectionClosed returned", loc)
        else:
            ctx.fail("R06.1", "unclassified-write-outcome|%s/%s" % (wres, interrupted), "a path after the stream write is not decided by Ok(0)/short/full/Interrupted/other error", loc, witness="blocks %s" % lf.trace[-10:])
        if not zero and not (wres == "err" and interrupted is False):
            ctx.ob("R06.3", "closed-only-on-zero-or-error|bb%d" % lf.trace[-3], not is_closed and not st["qcleared"], "ConnectionClosed / discard happens only for Ok(0) or a non-Interrupted error", loc)
    want = {"ok0", "short", "full", "interrupted", "error", "invalid-write"}
    ctx.ob("R06.1", "outcomes-covered", want <= seen, "write outcomes with a path: %s (need %s)" % (sorted(seen), sorted(want)), fn.loc(0))
    _writer_surroundings(ctx)


def _is_len_minus(t, n, is_len):
    """t == len - n (the length taken before anything was removed)"""
    t = look(t)
    if t[0] == "field" and t[3] == "0" and look(t[1])[0] == "bin":
        t = look(t[1])
    if t[0] == "bin" and t[1] in ("Sub", "SubWithOverflow", "SubUnchecked"):
        return is_len(t[2]) and norm(look(t[3])) == norm(look(n))
    return False



def strip_mut(t):
    t = look(t)
    while t[0] == "mut":
        t = look(t[1])
    if t[0] == "agg" and t[2] == "Some" and t[3]:
        return strip_mut(t[3][0])
    return t


def pending(ctx):
    from .c08 import conn_pw
    fn, lv = leaves(ctx, conn.P + "pending_write")
    seen = set()
    for lf in lv:
        for e in lf.events:
            if e[0] == "call" and last_seg(e[3]) in ("is_some", "is_none", "is_empty", "len"):
                a = look(e[4][2][0])
                if a[0] == "field":
                    seen.add(a[3])
        r = look(lf.ret())
        bs = conn.atom_truth(lf, lambda t: is_call(t, "is_some") and self_field(t[2][0], "response_buffer"))
        if bs is True:
            ctx.ob("R06.6", "buffer-some->true", r == ("const", True), "an unsent buffer means pending", fn.loc(lf.bb))
        elif bs is False:
            ok = r[0] == "un" and r[1] == "Not" and is_call(look(r[2]), "is_empty") and self_field(look(r[2])[2][0], "response_queue")
            ctx.ob("R06.6", "buffer-none->queue-non-empty", ok, "without a buffer, pending iff the queue is not empty: %s" % term_s(r)[:80], fn.loc(lf.bb))
    ctx.ob("R06.6", "reads-both", {"response_buffer", "response_queue"} <= seen, "pending_write() consults both (reads %s)" % sorted(seen), fn.loc(0))


def fifo(ctx, rule, field, allowed, floor=3):
    facts = ctx.facts
    n = 0
    for fn in facts.fns.values():
        for site, bi, t in mut_borrow_consumers(fn, conn.HC, field):
            n += 1
            callee = t["callee"].get("path") if t else None
            ok = callee is not None and last_seg(callee) in allowed
            if not ok and t is not None:
                # handed to a helper that is not in the frozen list: what the helper does with it counts
                from .util import local_callee, is_new_fn
                from .fields import param_consumers
                lc = local_callee(t)
                if lc in facts.fns:      # a crate-local callee (new helper, or a known function whose signature now takes the field)
                    g = facts.fns[lc]
                    idx = [i for i, a in enumerate(t["args"]) if a["k"] in ("copy", "move") and not a["place"]["proj"]]
                    inner = []
                    fty = [f_["ty"] for f_ in facts.struct_fields(conn.HC) if f_["name"] == field]
                    for i in idx:
                        ty = g.locals[i + 1]["ty"] if i + 1 < len(g.locals) else {}
                        if ty.get("k") == "ref" and ty.get("mut"):
                            if fty and (ty.get("inner") or {}).get("s") and fty[0].get("s") and (ty["inner"]["s"] != fty[0]["s"]) and len(idx) > 1:
                                continue        # another `&mut` argument of the same call (a buffer, a counter): not this field
                            inner += param_consumers(g, i + 1)
                    ok = bool(inner) and all(last_seg(x["callee"].get("path") or "") in allowed for x in inner)
            if ok and last_seg(callee) in ("clear", "truncate", "drain", "retain", "split_off") and field == "response_queue":
                # discarding queued responses is the business of clear_write_buffer alone (the documented reaction to a
                # failed write / hang-up); anywhere else complete responses are lost without any write having failed
                from .util import roots_of
                roots = roots_of(facts, fn.name) or {fn.name}
                # ... or of try_write itself, where R06.3 decides per write outcome when it may happen
                ctx.ob(rule, "%s|discarded-only-by-clear_write_buffer|%s" % (field, fn.name.split("::")[-1]), roots <= {conn.P + "clear_write_buffer", conn.TRY_WRITE}, "self.%s is emptied (%s) in %s, on behalf of %s (allowed: clear_write_buffer; try_write, decided per write outcome)" % (field, last_seg(callee), fn.name, sorted(roots)), fn.loc(site[0], site[1]))
            ctx.ob(rule, "%s|%s|%s" % (field, fn.name.split("::")[-1], last_seg(callee) if callee else "escapes"), ok, "&mut self.%s is handed to %s in %s (allowed: %s)" % (field, callee, fn.name, sorted(allowed)), fn.loc(site[0], site[1]))
    for w in field_writers(facts, conn.HC, field):
        if w[3] in ("assign", "assign-inside", "call-result"):
            ctx.fail(rule, "%s|overwritten|%s" % (field, w[0]), "self.%s is overwritten in %s" % (field, w[0]), w[2])
    ctx.ob(rule, "%s|floor" % field, n >= floor, "%d mutable uses of self.%s inspected (floor %d)" % (n, field, floor))


class _Remap:
    """Report the obligations of shared rules under another property's rule id."""

    def __init__(self, ctx, rule, only=None):
        self._ctx = ctx
        self._rule = rule
        self._only = only
        self.facts = ctx.facts

    def ob(self, rule, key, ok, msg, loc=None, witness=None):
        if self._only is not None and rule not in self._only:
            return True
        return self._ctx.ob(self._rule, "%s|%s" % (rule, key), ok, msg, loc, witness)

    def fail(self, rule, key, msg, loc=None, witness=None):
        if self._only is not None and rule not in self._only:
            return False
        return self._ctx.fail(self._rule, "%s|%s" % (rule, key), msg, loc, witness)

    def __getattr__(self, name):
        return getattr(self._ctx, name)
