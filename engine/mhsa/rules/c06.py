"""C06 -- queued responses reach the stream completely, once, in order, under short writes."""
from ..core import AnalysisError, term_s, subterms
from . import conn
from .conn import leaves, ret_kind, self_field
from .fields import field_writers, mut_borrow_consumers
from .util import payload_of, result_outcome, propagated_error, const_of, is_call, last_seg, look, norm, truth, option_is_some

EXPLANATION = (
    "Static decision of the writer's bookkeeping over every path of HttpConnection::try_write "
    "(path-sensitive dataflow; the boolean steering flags fold to constants per path): at most one call "
    "on the stream, which is Write::write of the unsent buffer's bytes and is in no cycle; the "
    "InvalidWrite exit touches nothing; a response is popped and serialized only when the unsent buffer "
    "is None and what is stored as the unsent buffer is exactly the vector Response::write_all filled; "
    "after a short write exactly the prefix write() reported is drained, after a full write the buffer "
    "becomes None, after Interrupted nothing is removed; Ok(0) and every non-Interrupted error clear "
    "queue and buffer and return ConnectionClosed; the response queue is mutated only by push_back / "
    "pop_front / clear (FIFO); pending_write consults both queue and buffer. "
    "the queue is emptied only by clear_write_buffer, reached only from try_write and from the hang-up branch of requests(). "
    "Decides these clauses; the prefix invariant over all short-write patterns is not decided."
)
TRUSTED = ["Write::write returns n <= buf.len() bytes accepted", "Vec::drain(..n) removes exactly the first n elements", "VecDeque FIFO semantics"]
ASSUMPTIONS = []
NOT_DECIDED = "the prefix invariant over all short-write patterns (relation between unbounded histories of two byte streams)"

INTERRUPTED = ("agg", "std::io::ErrorKind", "Interrupted", ())


def run(ctx):
    ctx.rule("R06.1", "at most one call on the stream per try_write: Write::write(stream, unsent bytes); none on the InvalidWrite exit; not in a cycle")
    ctx.rule("R06.2", "short write: drain exactly ..n with n the Ok payload of that write; Interrupted: nothing removed, Ok returned")
    ctx.rule("R06.3", "Ok(0) or a non-Interrupted error: queue and buffer cleared, ConnectionClosed returned -- and only then")
    ctx.rule("R06.4", "a response is popped and serialized only when the unsent buffer is None; the buffer becomes exactly the serialized vector")
    ctx.rule("R06.5", "a full write sets the unsent buffer to None")
    ctx.rule("R06.6", "pending_write consults both the queue and the unsent buffer")
    ctx.rule("R06.7", "the response queue is mutated only by push_back / pop_front / clear; it is emptied only by clear_write_buffer, which runs only after a failed write (try_write) or on a hang-up event (requests)")
    ctx.guarded("R06.1", "paths", lambda: paths(ctx))
    ctx.guarded("R06.6", "pending_write", lambda: pending(ctx))
    ctx.guarded("R06.7", "fifo", lambda: fifo(ctx, "R06.7", "response_queue", {"push_back", "pop_front", "clear"}))
    ctx.guarded("R06.7", "discard-callers", lambda: discard_callers(ctx, "R06.7"))
    ctx.rule("R06.8", "discarding pending output really discards it: clear_write_buffer empties the queue and sets the unsent buffer to None (= C09 R09.4)")
    ctx.rule("R06.9", "one try_write per readiness notification: a second write on a full non-blocking socket reports EAGAIN and a healthy connection loses its output (= C08 R08.4)")

    def shared():
        from . import c09
        c09.clear_write_buffer_rule(ctx, "R06.8")
        c09.single_io(ctx, "R06.9")

    ctx.guarded("R06.8", "shared", shared)


def discard_callers(ctx, rule):
    """Who may throw pending output away: try_write (decided per write outcome by R06.3) and the hang-up branch of requests()."""
    from .util import known_callers
    from . import srv
    facts = ctx.facts
    cw, ccw = conn.P + "clear_write_buffer", srv.CC + "clear_write_buffer"
    callers = set(known_callers(facts, cw))
    if facts.has_fn(ccw):
        callers |= set(known_callers(facts, ccw))
    callers -= {ccw}
    ctx.ob(rule, "clear_write_buffer|callers", callers <= {conn.TRY_WRITE, srv.REQUESTS} and conn.TRY_WRITE in callers, "clear_write_buffer is reached from %s (allowed: try_write, requests)" % sorted(callers))
    fn, lv = leaves(ctx, srv.REQUESTS)
    n = 0
    for lf in lv:
        clr = srv.calls(lf, ccw) or srv.calls(lf, cw)
        if not clr:
            continue
        n += 1
        fl = srv.flags_on_path(lf)
        hang = any(fl.get(f) for f in (srv.EV_ERR, srv.EV_HUP, srv.EV_RDHUP))
        ctx.ob(rule, "clear_write_buffer|requests|only-on-hangup", hang, "requests() discards a connection's pending output only on a path where ERROR, HANG_UP or READ_HANG_UP was reported for it", fn.loc(clr[0][1]))
    if srv.REQUESTS in callers:
        ctx.ob(rule, "clear_write_buffer|requests|floor", n >= 1, "%d discarding path(s) of requests() inspected (floor 1)" % n, fn.loc(0))


def direct_subterms(t):
    """Sub-terms of t without descending into the results of other calls."""
    yield t
    if isinstance(t, tuple) and t and t[0] != "call":
        for x in t[1:]:
            if isinstance(x, tuple) and x and isinstance(x[0], str):
                yield from direct_subterms(x)
            elif isinstance(x, tuple):
                for y in x:
                    if isinstance(y, tuple):
                        yield from direct_subterms(y)


def stream_calls(lf):
    out = []
    for e in lf.events:
        if e[0] == "call" and e[4][2]:
            if any(isinstance(s, tuple) and s and s[0] == "field" and s[3] == "stream" and s[2] == conn.HC for a in e[4][2] for s in direct_subterms(a)):
                out.append(e)
    return out


def buf_some(t):
    """t is the &mut Vec inside self.response_buffer (as_mut payload) or the vec just stored there."""
    t = look(t)
    while t[0] == "mut":
        t = look(t[1])
    if t[0] == "field" and t[1][0] == "downcast" and t[1][2] == "Some":
        x = look(t[1][1])
        if is_call(x, "as_mut", "as_ref"):
            x = look(x[2][0])
        while x[0] == "mut":
            x = look(x[1])
        return x
    if is_call(t, "std::option::Option::<T>::insert", "std::option::Option::<T>::get_or_insert") and len(t[2]) == 2:
        # `self.response_buffer.insert(vec)`: stores Some(vec) and hands back a reference to the stored vector
        x = look(t[2][0])
        while x[0] == "mut":
            x = look(x[1])
        return x
    return None


def paths(ctx, remap=None, only=None):
    facts = ctx.facts
    if remap:
        ctx = _Remap(ctx, remap, only)
    fn, lv = leaves(ctx, conn.TRY_WRITE)
    ctx.ob("R06.1", "no-cycle", not fn.cycles(), "try_write has no CFG cycle (cycles: %s)" % fn.cycles(), fn.loc(0))
    seen = set()
    for lf in lv:
        rk = ret_kind(lf)
        if rk is None:
            ctx.fail("R06.1", "non-returning-path|%s" % lf.kind, "try_write has a path that does not return (%s)" % lf.kind, fn.loc(lf.bb))
            continue
        sc = stream_calls(lf)
        buf_none = conn.atom_truth(lf, lambda t: is_call(t, "is_none") and self_field(t[2][0], "response_buffer"))
        if buf_none is None:
            bs = conn.atom_truth(lf, lambda t: is_call(t, "is_some") and self_field(t[2][0], "response_buffer"))
            buf_none = None if bs is None else not bs
        if buf_none is None:
            # `match self.response_buffer.as_mut() { None => .., Some(v) => .. }` (first test of it on the path)
            for (t, c, _b) in lf.conds:
                if t[0] == "discr":
                    x = look(t[1])
                    if is_call(x, "as_mut", "as_ref"):
                        x = look(x[2][0])
                    if self_field(x, "response_buffer") and option_is_some(c) is not None:
                        buf_none = not option_is_some(c)
                        break
        pops = [e for e in lf.events if e[0] == "call" and last_seg(e[3]) in ("pop_front", "pop_back", "remove", "swap_remove_front") and self_field(e[4][2][0], "response_queue")]
        sers = [e for e in lf.events if e[0] == "call" and e[3] == "response::Response::write_all"]
        stores = [e for e in lf.events if e[0] == "assign" and e[3] == "(*_1).response_buffer"]
        for e in lf.events:
            if e[0] == "call" and e[3] in ("std::option::Option::<T>::insert", "std::option::Option::<T>::get_or_insert", "std::option::Option::<T>::replace") and len(e[4][2]) == 2 and self_field(e[4][2][0], "response_buffer"):
                # Option::insert(&mut self.response_buffer, v) is `self.response_buffer = Some(v)`
                stores.append(("assign", e[1], None, "(*_1).response_buffer", ("agg", "std::option::Option", "Some", (e[4][2][1],)), None))
        # R06.4
        if pops or sers:
            ok = buf_none is True and len(pops) == 1 and last_seg(pops[0][3]) == "pop_front"
            ctx.ob("R06.4", "pop-only-when-buffer-empty", ok, "a response is taken (pop_front, once) only after the unsent buffer was found None (buffer None: %s, pops: %s)" % (buf_none, [last_seg(p[3]) for p in pops]), fn.loc((pops or sers)[0][1]))
        if sers:
            s = sers[0]
            popped = look(s[4][2][0])
            ok_src = bool(pops) and payload_of(popped) is not None and norm(payload_of(popped)) == norm(pops[0][4])
            sink = look(s[4][2][1])
            failed = result_outcome(lf, s[4]) == "err"
            if failed:
                seen.add("serialize-error")
                returned = rk[0] == "prop"
                if rk[0] == "Err":
                    ev_ = look(rk[1])
                    returned = ev_[0] == "agg" and ev_[2] == "StreamWriteError" and ev_[3] and look(ev_[3][0])[0] == "field" and look(ev_[3][0])[1][0] == "downcast" and look(ev_[3][0])[1][2] == "Err" and norm(look(look(ev_[3][0])[1][1])) == norm(s[4])
                ctx.ob("R06.4", "serialize-error-propagated", returned and not sc, "a serialization error is returned and the stream is not touched", fn.loc(lf.bb))
                continue
            somes = [x for x in stores if x[4][0] == "agg" and x[4][2] == "Some"]       # `= None` after a full write is the take, not the store
            ok_store = len(somes) == 1
            if ok_store:
                v = look(somes[0][4][3][0])
                while v[0] == "mut":
                    if v[2] == "response::Response::write_all":
                        pass
                    v = look(v[1])
                ok_store = norm(v) == norm(strip_mut(sink))
            ctx.ob("R06.4", "serialized-popped-response-into-buffer", ok_src and ok_store, "the popped response is serialized with Response::write_all into a vector and exactly that vector becomes the unsent buffer (source %s, stored %s)" % (ok_src, ok_store), fn.loc(s[1]))
        # classify by what happened on the stream
        if not sc:
            errv = look(rk[1]) if rk[0] == "Err" else (propagated_error(rk[1])[1] if rk[0] == "prop" else None)
            if errv is not None and errv[0] == "agg" and errv[2] == "InvalidWrite":
                seen.add("invalid-write")
                q_empty = any(t[0] == "discr" and is_call(look(t[1]), "pop_front") and option_is_some(c) is False for (t, c, _b) in lf.conds)
                q_empty = q_empty or (bool(pops) and rk[0] == "prop" and norm(propagated_error(rk[1])[0]) == norm(pops[0][4]))
                ctx.ob("R06.1", "invalid-write|nothing-pending-and-untouched", buf_none is True and q_empty and not stores, "InvalidWrite is returned only with no unsent buffer and an empty queue, without touching the stream", fn.loc(lf.bb))
            elif rk[0] == "Ok":
                # infeasible by typestate (buffer Some but as_mut None); must not change anything
                wr = [e for e in lf.events if e[0] == "call" and last_seg(e[3]) in ("drain", "clear", "take", "truncate")]
                ctx.ob("R06.1", "no-write-path|inert", not wr, "a path without a stream write removes nothing", fn.loc(lf.bb))
            continue
        ok1 = len(sc) == 1 and sc[0][3] == "std::io::Write::write" and self_field(sc[0][4][2][0], "stream")
        data = look(sc[0][4][2][1]) if sc else None
        src = buf_some(data[2][0]) if ok1 and is_call(data, "as_slice", "deref", "as_ref") else (buf_some(data) if ok1 else None)
        from_buffer = src is not None and (self_field(src, "response_buffer") or (stores and norm(strip_mut(src)) == norm(strip_mut(stores[0][4]))))
        ctx.ob("R06.1", "one-write-of-unsent-bytes|bb%d" % lf.trace[-3], ok1 and from_buffer, "exactly one stream call: Write::write(self.stream, bytes of the unsent buffer) (calls: %s)" % [c[3] for c in sc], fn.loc(sc[0][1]))
        if not ok1:
            continue
        W = sc[0][4]
        wres = None
        for (t, c, _b) in lf.conds:
            if t[0] == "discr" and norm(look(t[1])) == norm(W):
                if c == ("eq", 0):
                    wres = "ok"
                elif c == ("eq", 1):
                    wres = "err"
        payload0 = None
        short = None
        interrupted = None
        for (t, c, _b) in lf.conds:
            x = look(t)
            if payload_of(x) is not None and x[0] != "bin" and norm(payload_of(x)) == norm(W):
                if c == ("eq", 0):
                    payload0 = True
                elif c[0] == "ne" and 0 in c[1]:
                    payload0 = False
            if t[0] == "bin" and t[1] in ("Ne", "Eq") and truth(c) is not None:
                # `n == 0` / `n != 0` written as a comparison (match guard) instead of a pattern
                for a, b in ((t[2], t[3]), (t[3], t[2])):
                    if const_of(b) == 0 and payload_of(a) is not None and norm(payload_of(a)) == norm(W):
                        payload0 = truth(c) if t[1] == "Eq" else not truth(c)
            if t[0] == "bin" and t[1] in ("Ne", "Eq") and any(norm(s) == norm(W) for s in subterms(t) if isinstance(s, tuple)) and any(is_call(s, "len") for s in subterms(t) if isinstance(s, tuple)):
                tv = truth(c)
                short = tv if t[1] == "Ne" else (None if tv is None else not tv)
            if is_call(t, "eq", "ne") and any(is_call(s, "kind") for s in subterms(t) if isinstance(s, tuple)):
                other = [a for a in t[2] if not any(is_call(s, "kind") for s in subterms(a) if isinstance(s, tuple))]
                if other and look(other[0]) == INTERRUPTED:
                    tv = truth(c)
                    interrupted = tv if last_seg(t[1]) == "eq" else (None if tv is None else not tv)
        drains = [e for e in lf.events if e[0] == "call" and last_seg(e[3]) in ("drain", "split_off", "truncate", "remove", "rotate_left", "clear", "retain", "drain_filter") and buf_some(e[4][2][0]) is not None]
        clears = [e for e in lf.events if e[0] == "call" and e[3] == conn.P + "clear_write_buffer"]
        takes = [e for e in lf.events if (e[0] == "call" and last_seg(e[3]) == "take" and (self_field(e[4][2][0], "response_buffer") or (stores and norm(strip_mut(look(e[4][2][0]))) == norm(strip_mut(stores[0][4]))))) or (e[0] == "assign" and e[3] == "(*_1).response_buffer" and e[4][0] == "agg" and e[4][2] == "None")]
        is_closed = rk[0] == "Err" and look(rk[1])[0] == "agg" and look(rk[1])[2] == "ConnectionClosed"
        if wres == "ok" and payload0 is True:
            seen.add("ok0")
            ctx.ob("R06.3", "ok0|cleared-and-closed", is_closed and len(clears) == 1, "write returned Ok(0): pending output discarded (clear_write_buffer) and ConnectionClosed returned", fn.loc(lf.bb))
        elif wres == "ok" and payload0 is False and short is True:
            seen.add("short")
            ok = len(drains) == 1 and last_seg(drains[0][3]) == "drain" and rk[0] == "Ok" and not clears and not takes
            if ok:
                r = look(drains[0][4][2][1])
                ok = r[0] == "agg" and r[1].startswith("std::ops::RangeTo") and not r[1].startswith("std::ops::RangeToInclusive")
                if ok:
                    n = look(r[3][0])
                    ok = payload_of(n) is not None and norm(payload_of(n)) == norm(W)
            ctx.ob("R06.2", "short|drain-exactly-written", ok, "short write: exactly buffer.drain(..n) with n the count that very write returned; buffer kept, Ok returned", fn.loc(lf.bb))
        elif wres == "ok" and payload0 is False and short is False:
            seen.add("full")
            ctx.ob("R06.5", "full|buffer-none", len(takes) == 1 and not drains and not clears and rk[0] == "Ok", "full write: the unsent buffer is set to None (take), nothing else removed, Ok returned", fn.loc(lf.bb))
        elif wres == "err" and interrupted is True:
            seen.add("interrupted")
            ctx.ob("R06.2", "interrupted|nothing-removed", not drains and not clears and not takes and rk[0] == "Ok", "Interrupted: nothing is removed or cleared and Ok is returned (retry later)", fn.loc(lf.bb))
        elif wres == "err" and interrupted is False:
            seen.add("error")
            ctx.ob("R06.3", "error|cleared-and-closed", is_closed and len(clears) == 1, "any other write error: pending output discarded and ConnectionClosed returned", fn.loc(lf.bb))
        else:
            ctx.fail("R06.1", "unclassified-write-outcome|%s/%s/%s/%s" % (wres, payload0, short, interrupted), "a path after the stream write is not decided by Ok(0)/short/full/Interrupted/other error", fn.loc(lf.bb), witness="blocks %s" % lf.trace[-10:])
        if not (wres == "ok" and payload0) and not (wres == "err" and interrupted is False):
            ctx.ob("R06.3", "closed-only-on-zero-or-error|bb%d" % lf.trace[-3], not is_closed and not clears, "ConnectionClosed / discard happens only for Ok(0) or a non-Interrupted error", fn.loc(lf.bb))
    want = {"ok0", "short", "full", "interrupted", "error", "invalid-write"}
    ctx.ob("R06.1", "outcomes-covered", want <= seen, "write outcomes with a path: %s (need %s)" % (sorted(seen), sorted(want)), fn.loc(0))
    # enqueue_response is push_back of its argument
    fe, le = leaves(ctx, conn.P + "enqueue_response")
    for lf in le:
        pb = [e for e in lf.events if e[0] == "call" and "VecDeque" in e[3] and self_field(e[4][2][0], "response_queue")]
        ctx.ob("R06.7", "enqueue_response|push_back", len(pb) == 1 and last_seg(pb[0][3]) == "push_back" and look(pb[0][4][2][1]) == ("arg", 2), "enqueue_response appends its argument at the back of the queue", fe.loc(0))
    # the stream is touched by nothing else on the write side
    users = {}
    for f in facts.fns.values():
        for bi, si, place, rv in f.assigns():
            if rv["k"] in ("ref", "rawptr") and any(e["k"] == "field" and e["name"] == "stream" and e.get("of") == conn.HC for e in rv["place"]["proj"]):
                users.setdefault(f.name, 0)
                users[f.name] += 1
    from .util import writer_roots
    roots = set()
    for u in users:
        roots |= writer_roots(facts, u)
    ctx.ob("R06.1", "stream-users", roots <= {conn.TRY_WRITE, conn.RECV}, "functions that borrow HttpConnection.stream: %s (on behalf of %s)" % (sorted(users), sorted(roots)))


def strip_mut(t):
    t = look(t)
    while t[0] == "mut":
        t = look(t[1])
    if t[0] == "agg" and t[2] == "Some" and t[3]:
        return strip_mut(t[3][0])
    return t


def pending(ctx):
    from .c08 import conn_pw
    fn, lv = leaves(ctx, conn.P + "pending_write")
    seen = set()
    for lf in lv:
        for e in lf.events:
            if e[0] == "call" and last_seg(e[3]) in ("is_some", "is_none", "is_empty", "len"):
                a = look(e[4][2][0])
                if a[0] == "field":
                    seen.add(a[3])
        r = look(lf.ret())
        bs = conn.atom_truth(lf, lambda t: is_call(t, "is_some") and self_field(t[2][0], "response_buffer"))
        if bs is True:
            ctx.ob("R06.6", "buffer-some->true", r == ("const", True), "an unsent buffer means pending", fn.loc(lf.bb))
        elif bs is False:
            ok = r[0] == "un" and r[1] == "Not" and is_call(look(r[2]), "is_empty") and self_field(look(r[2])[2][0], "response_queue")
            ctx.ob("R06.6", "buffer-none->queue-non-empty", ok, "without a buffer, pending iff the queue is not empty: %s" % term_s(r)[:80], fn.loc(lf.bb))
    ctx.ob("R06.6", "reads-both", {"response_buffer", "response_queue"} <= seen, "pending_write() consults both (reads %s)" % sorted(seen), fn.loc(0))


def fifo(ctx, rule, field, allowed, floor=3):
    facts = ctx.facts
    n = 0
    for fn in facts.fns.values():
        for site, bi, t in mut_borrow_consumers(fn, conn.HC, field):
            n += 1
            callee = t["callee"].get("path") if t else None
            ok = callee is not None and last_seg(callee) in allowed
            if not ok and t is not None:
                # handed to a helper that is not in the frozen list: what the helper does with it counts
                from .util import local_callee, is_new_fn
                from .fields import param_consumers
                lc = local_callee(t)
                if lc in facts.fns and is_new_fn(lc):
                    g = facts.fns[lc]
                    idx = [i for i, a in enumerate(t["args"]) if a["k"] in ("copy", "move") and not a["place"]["proj"]]
                    inner = []
                    for i in idx:
                        ty = g.locals[i + 1]["ty"] if i + 1 < len(g.locals) else {}
                        if ty.get("k") == "ref" and ty.get("mut"):
                            inner += param_consumers(g, i + 1)
                    ok = bool(inner) and all(last_seg(x["callee"].get("path") or "") in allowed for x in inner)
            if ok and last_seg(callee) in ("clear", "truncate", "drain", "retain", "split_off") and field == "response_queue":
                # discarding queued responses is the business of clear_write_buffer alone (the documented reaction to a
                # failed write / hang-up); anywhere else complete responses are lost without any write having failed
                from .util import roots_of
                roots = roots_of(facts, fn.name) or {fn.name}
                ctx.ob(rule, "%s|discarded-only-by-clear_write_buffer|%s" % (field, fn.name.split("::")[-1]), roots <= {conn.P + "clear_write_buffer"}, "self.%s is emptied (%s) in %s, on behalf of %s" % (field, last_seg(callee), fn.name, sorted(roots)), fn.loc(site[0], site[1]))
            ctx.ob(rule, "%s|%s|%s" % (field, fn.name.split("::")[-1], last_seg(callee) if callee else "escapes"), ok, "&mut self.%s is handed to %s in %s (allowed: %s)" % (field, callee, fn.name, sorted(allowed)), fn.loc(site[0], site[1]))
    for w in field_writers(facts, conn.HC, field):
        if w[3] in ("assign", "assign-inside", "call-result"):
            ctx.fail(rule, "%s|overwritten|%s" % (field, w[0]), "self.%s is overwritten in %s" % (field, w[0]), w[2])
    ctx.ob(rule, "%s|floor" % field, n >= floor, "%d mutable uses of self.%s inspected (floor %d)" % (n, field, floor))


class _Remap:
    """Report the obligations of shared rules under another property's rule id."""

    def __init__(self, ctx, rule, only=None):
        self._ctx = ctx
        self._rule = rule
        self._only = only
        self.facts = ctx.facts

    def ob(self, rule, key, ok, msg, loc=None, witness=None):
        if self._only is not None and rule not in self._only:
            return True
        return self._ctx.ob(self._rule, "%s|%s" % (rule, key), ok, msg, loc, witness)

    def fail(self, rule, key, msg, loc=None, witness=None):
        if self._only is not None and rule not in self._only:
            return False
        return self._ctx.fail(self._rule, "%s|%s" % (rule, key), msg, loc, witness)

    def __getattr__(self, name):
        return getattr(self._ctx, name)
