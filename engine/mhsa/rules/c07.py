"""C07 -- a response is delivered only to the connection that sent its request, in order."""
from ..core import AnalysisError, term_s, subterms
from . import srv, conn
from .c09 import pairing, is_connections
from .c10 import is_done
from .conn import leaves, ret_kind
from .fields import field_writers
from .srv import S, CC, calls
from .util import writer_roots, const_of, is_call, last_seg, look, norm, truth, option_is_some, payload_of

EXPLANATION = (
    "Static decision of the premises of the routing invariant id = map key = descriptor: every epoll "
    "registration carries data == fd as u64 (wrappers), the map key at insertion is the stream's own "
    "as_raw_fd() that was registered, every ServerRequest built in requests() takes its id from data() "
    "of the very event whose fd() keyed the lookup of the connection that was read and is added to the "
    "vector requests() returns, which inside the event loop is only accumulated into (never reassigned, "
    "drained or handed away), process() hands the "
    "request's id to the response, respond() derives its key only from the response's id and enqueues only "
    "into the entry it looked up; entries leave the map only in the sweep and only when is_done(), "
    "which requires Closed, no pending write and in_flight == 0; the in-flight counter grows by the "
    "number of requests read() returns and shrinks by one per response on every Ok path, also when the "
    "connection is Closed. With 'an open descriptor's number is not reused' these give: an id can never "
    "name another client. Decides these premises, not every byte a client receives."
)
TRUSTED = ["a descriptor number is not reused while it is open", "HashMap semantics", "epoll returns the data registered with the descriptor"]
ASSUMPTIONS = ["the application answers each ServerRequest at most once (the API consumes ServerResponse by value)"]
NOT_DECIDED = "well-formedness of every byte a client receives (C05/C06); histories with delayed responses are covered only through the invariant's premises"


def run(ctx):
    ctx.rule("R07.1", "ServerRequest ids come from data() of the event whose fd() keyed the lookup of the connection read; each wrapped request reaches the returned vector, which the event loop only accumulates into")
    ctx.rule("R07.2", "every epoll registration has data == fd as u64; map key == registered fd")
    ctx.rule("R07.3", "respond(): key derived only from the response's id; enqueue only into the looked-up entry; unknown id dropped")
    ctx.rule("R07.4", "entries are removed only by the sweep, only when is_done(), with epoll_del")
    ctx.rule("R07.5", "is_done() requires Closed, no pending write and in_flight == 0")
    ctx.rule("R07.6", "in-flight counter: += number of requests read() returns; -= 1 per response on every Ok path (also when Closed)")
    ctx.rule("R07.8", "process() passes the request's own id to the response; constructors store ids as given")
    ctx.guarded("R07.1", "ids", lambda: ids(ctx))
    ctx.guarded("R07.2", "wrappers", lambda: srv.epoll_wrappers(ctx, "R07.2"))
    ctx.guarded("R07.3", "respond", lambda: respond(ctx))
    ctx.guarded("R07.4", "pairing", lambda: pairing(ctx, "R07.4"))
    ctx.guarded("R07.5", "is_done", lambda: is_done(ctx, "R07.5"))
    ctx.guarded("R07.6", "counter", lambda: counter(ctx))
    ctx.guarded("R07.8", "process", lambda: process(ctx))
    ctx.rule("R07.9", "responses are delivered at most once, whole and in the order supplied: writer bookkeeping and FIFO discipline of the response queue (= C06 R06.1-R06.5, R06.7)")
    from .c06 import paths as writer_paths, fifo
    ctx.guarded("R07.9", "writer", lambda: writer_paths(ctx, "R07.9"))
    ctx.guarded("R07.9", "fifo", lambda: fifo(ctx, "R07.9", "response_queue", {"push_back", "pop_front", "clear"}))
    ctx.rule("R07.10", "what can enter a connection's response queue: the application's response through respond() -> ClientConnection::enqueue_response, the 400 of ClientConnection::read, the Continue of the header parser -- nothing else pushes, nobody else calls the enqueue methods")
    ctx.guarded("R07.10", "producers", lambda: producers(ctx, "R07.10"))
    from .c09 import closed_enqueue as _closed_enqueue7
    ctx.guarded("R07.10", "connection-level-enqueue-callers", lambda: _closed_enqueue7(ctx, "R07.10"))


def ids(ctx):
    facts = ctx.facts
    fn, lv = leaves(ctx, srv.REQUESTS)
    n = 0
    acc_blocks = srv.yield_vector(ctx, "R07.1")

    def reaches_yield(lf, t):
        """is the wrapped value `t` handed to an accumulating call on the yielded vector on this path?"""
        key = norm(t)
        rk = ret_kind(lf)
        if rk and rk[0] in ("Err", "prop"):
            return True         # requests() fails: nothing is yielded on this path, by any spelling
        for e in lf.events:
            if e[0] == "call" and ((getattr(e[1], "fn", None) or fn).name, int(e[1])) in acc_blocks:
                if any(isinstance(s_, tuple) and norm(s_) == key for a in e[4][2][1:] for s_ in subterms(a)):
                    return True
        return False

    handed_back = []
    wraps_in_read = bool(list(facts.fn(CC + "read").calls_to("server::ServerRequest::new"))) or any(list(c.calls_to("server::ServerRequest::new")) for c in facts.closures_of(CC + "read"))
    if wraps_in_read:
        # read() wraps the requests itself and fills the caller's vector: look at requests() with read() traversed inline
        from ..paths import PathEnum
        lv = PathEnum(fn, facts, inline_also=lambda p_, a_: p_ == CC + "read").run()
    for lf in lv:
        rd = calls(lf, CC + "read") or [e for e in lf.events if e[0] == "inlined-call" and e[3] == CC + "read"]
        if not rd:
            continue
        ev = srv.event_term(lf)
        # the connection read is the one looked up by e.fd()
        recv = look(rd[0][4][2][0])
        gm = [s for s in subterms(recv) if isinstance(s, tuple) and is_call(s, "get_mut")]
        ok_conn = bool(gm) and srv.is_event_field(gm[0][2][1], ev, "fd") and is_connections(gm[0][2][0])
        ctx.ob("R07.1", "read|on-connection-of-event-fd", ok_conn, "read() is applied to connections[e.fd()]", fn.loc(rd[0][1]))
        # written as a loop: for request in read()? { out.push(ServerRequest::new(request, e.data())) }
        for w in calls(lf, "server::ServerRequest::new"):
            n += 1
            req, ident = look(w[4][2][0]), look(w[4][2][1])
            id_ok = srv.is_event_field(ident, ev, "data")
            src = payload_of(req)
            it = None
            if src is not None and is_call(src, "next"):
                it = look(src[2][0])
                while it[0] == "mut":
                    it = look(it[1])
                if is_call(it, "into_iter"):
                    it = look(it[2][0])
            src_ok = it is not None and payload_of(it) is not None and norm(payload_of(it)) == norm(rd[0][4])
            if wraps_in_read and not src_ok:
                # inside read(): the wrapped request was popped from the connection being read
                pops = [s_ for s_ in subterms(req) if isinstance(s_, tuple) and is_call(s_, conn.P + "pop_parsed_request")]
                src_ok = bool(pops)
            ctx.ob("R07.1", "wrap|id-is-event-data", id_ok, "ServerRequest::new(request, e.data()) with e the event being handled", fn.loc(w[1]))
            ctx.ob("R07.1", "wrap|over-requests-just-read", src_ok, "each wrapped request is an item of the vector read() just returned for that event", fn.loc(w[1]))
            ry_ok = reaches_yield(lf, w[4])
            if not ry_ok and wraps_in_read:
                # pushed onto a vector local to read(), which read() hands back (inside a struct) and the caller appends:
                # the loop path ends at the back edge, so the second half is checked on the paths that leave the loop
                for e2 in lf.events:
                    if e2[0] == "call" and last_seg(e2[3]) == "push" and any(isinstance(s_, tuple) and norm(s_) == norm(w[4]) for s_ in subterms(e2[4][2][1])):
                        v_ = look(e2[4][2][0])
                        while v_[0] == "mut":
                            v_ = look(v_[1])
                        handed_back.append((norm(v_), fn.loc(w[1])))
                        ry_ok = None
            if ry_ok is not None:
                ctx.ob("R07.1", "wrap|yielded", ry_ok, "the wrapped request is added to the vector requests() returns", fn.loc(w[1]))
        # the closure mapping requests to ServerRequest captures this very event
        maps = [e for e in lf.events if e[0] == "call" and last_seg(e[3]) == "map" and "Iterator" in e[3]]
        for m in maps:
            clo = look(m[4][2][1])
            if clo[0] != "closure":
                continue
            n += 1
            cap = [look(x) for x in clo[2]]
            cap_is_event = len(cap) == 1 and norm(strip_some(cap[0])) == norm(ev)
            cap_is_data = len(cap) == 1 and srv.is_event_field(cap[0], ev, "data")     # `let id = e.data();` hoisted out of the closure
            cap_ok = cap_is_event or cap_is_data
            src = look(m[4][2][0])
            src_ok = is_call(src, "into_iter") and norm(strip_try(look(src[2][0]))) == norm(rd[0][4])
            if wraps_in_read and not src_ok and is_call(src, "into_iter"):
                # inside read(): mapped over the local vector the drained requests were pushed onto
                base = look(src[2][0])
                while base[0] == "mut":
                    base = look(base[1])
                src_ok = any(e2[0] == "call" and last_seg(e2[3]) == "push" and same_vec(e2[4][2][0], base) and payload_of(e2[4][2][1]) is not None and is_call(payload_of(e2[4][2][1]), conn.P + "pop_parsed_request") for e2 in lf.events) or is_empty_vec(base)
            ctx.ob("R07.1", "wrap|captures-this-event", cap_ok, "the closure that wraps requests captures the event being handled (or its data() taken just before)", fn.loc(m[1]))
            ctx.ob("R07.1", "wrap|over-requests-just-read", src_ok, "it is mapped over the requests read() just returned for that event", fn.loc(m[1]))
            ctx.ob("R07.1", "wrap|yielded", reaches_yield(lf, m[4]), "the wrapped requests are added to the vector requests() returns", fn.loc(m[1]))
            fc, lc = leaves(ctx, clo[1])
            for l2 in lc:
                r = look(l2.ret())
                ok = is_call(r, "server::ServerRequest::new") and look(r[2][0]) == ("arg", 2)
                if ok and cap_is_data:
                    a = look(r[2][1])
                    ok = a[0] == "field" and look(a[1]) == ("arg", 1)
                elif ok:
                    ok = is_call(look(r[2][1]), "vmm_sys_util::epoll::EpollEvent::data")
                    if ok:
                        a = look(look(r[2][1])[2][0])
                        ok = a[0] == "field" and look(a[1]) == ("arg", 1)
                ctx.ob("R07.1", "wrap|id-is-event-data", ok, "ServerRequest::new(request, e.data()) with e the captured event", fc.loc(0))
    for vkey, loc_ in sorted(set(handed_back), key=str):
        flows = False
        for lf in lv:
            for e in lf.events:
                if e[0] == "call" and ((getattr(e[1], "fn", None) or fn).name, int(e[1])) in acc_blocks:
                    if any(isinstance(s_, tuple) and norm(s_) == vkey for a in e[4][2][1:] for s_ in subterms(a)):
                        flows = True
        ctx.ob("R07.1", "wrap|yielded", flows, "the wrapped request is pushed onto read()'s own vector, which read() hands back and requests() adds to the vector it returns", loc_)
    ctx.ob("R07.1", "floor", n >= 1, "%d wrapping site(s) inspected (floor 1)" % n)
    # ServerRequest is constructed nowhere else in the crate
    sites = set()
    for f in facts.fns.values():
        for bi, si, place, rv in f.assigns():
            if rv["k"] == "aggregate" and rv.get("agg") == "adt" and rv["adt"] == "server::ServerRequest":
                sites.add(f.name)
    ctx.ob("R07.1", "ServerRequest|constructed-in-new-only", sites == {"server::ServerRequest::new"}, "ServerRequest literals: %s" % sorted(sites))
    from .util import roots_of
    callers = {f.name for f in facts.fns.values() if list(f.calls_to("server::ServerRequest::new"))}
    roots = set()
    for c in callers:
        roots |= roots_of(facts, c) or {c}
    ctx.ob("R07.1", "ServerRequest::new|callers", all(c.startswith(srv.REQUESTS) or c == CC + "read" for c in roots), "ServerRequest::new is called from %s (on behalf of %s)" % (sorted(callers), sorted(roots)))


def producers(ctx, rule):
    from .util import caller_fns, roots_of
    from .fields import mut_borrow_consumers
    facts = ctx.facts
    he, ce = conn.P + "enqueue_response", CC + "enqueue_response"
    a = caller_fns(facts, he)
    ctx.ob(rule, "callers|HttpConnection::enqueue_response", a <= {ce, CC + "read", srv.RESPOND} and (ce in a or srv.RESPOND in a), "HttpConnection::enqueue_response is called from %s (allowed: ClientConnection::enqueue_response / respond, ClientConnection::read)" % sorted(a))
    b = caller_fns(facts, ce)
    ctx.ob(rule, "callers|ClientConnection::enqueue_response", b <= {srv.RESPOND}, "ClientConnection::enqueue_response is called from %s (allowed: HttpServer::respond)" % sorted(b))
    n = 0
    allroots = set()
    for fn in facts.fns.values():
        for site, bi, t in mut_borrow_consumers(fn, conn.HC, "response_queue"):
            callee = (t["callee"].get("path") if t else None) or ""
            if last_seg(callee) in ("push_back", "push_front", "insert", "extend", "append"):
                n += 1
                roots = roots_of(facts, fn.name) or {fn.name}
                allroots |= roots
                ctx.ob(rule, "push|%s" % fn.name.split("::")[-1], roots <= {he, conn.PARSE_H}, "a response is pushed onto the queue in %s (on behalf of %s; allowed: enqueue_response, parse_headers)" % (fn.name, sorted(roots)), fn.loc(site[0], site[1]))
    ctx.ob(rule, "push|floor", n >= 1 and he in allroots, "%d pushing site(s) inspected, on behalf of %s (floor: one, used by enqueue_response)" % (n, sorted(allroots)))


def strip_some(t):
    t = look(t)
    while t[0] == "field" and t[1][0] == "downcast" and t[1][2] == "Some":
        t = look(t[1][1])
    return t


def strip_try(t):
    t = look(t)
    if payload_of(t) is not None:
        return payload_of(t)
    return t


def respond(ctx):
    facts = ctx.facts
    fn, lv = leaves(ctx, srv.RESPOND)

    def is_id_key(t):
        t = look(t)
        return t[0] == "cast" and t[2] == "i32" and look(t[1])[0] == "field" and look(t[1])[3] == "id" and look(look(t[1])[1]) == ("arg", 2)

    n = 0
    for lf in lv:
        gm = [e for e in calls(lf, "get_mut") if is_connections(e[4][2][0])]
        ctx.ob("R07.3", "lookup|one-by-id|bb%d" % (lf.trace[-2] if len(lf.trace) > 1 else 0), len(gm) == 1 and is_id_key(gm[0][4][2][1]), "respond(): exactly one lookup, keyed by response.id as i32", fn.loc(lf.bb))
        if len(gm) != 1:
            continue
        found = None
        for (t, c, _b) in lf.conds:
            if t[0] == "discr" and norm(look(t[1])) == norm(gm[0][4]):
                found = option_is_some(c)
        enq = calls(lf, CC + "enqueue_response")
        mods = calls(lf, S + "epoll_mod")
        if found:
            n += 1
            ok = len(enq) == 1
            if ok:
                recv = look(enq[0][4][2][0])
                ok = any(norm(s) == norm(gm[0][4]) for s in subterms(recv) if isinstance(s, tuple)) and look(enq[0][4][2][1])[0] == "field" and look(enq[0][4][2][1])[3] == "response" and look(look(enq[0][4][2][1])[1]) == ("arg", 2)
            rk = ret_kind(lf)
            if rk and rk[0] == "prop" and not enq:
                continue  # epoll_mod failed before the enqueue
            ctx.ob("R07.3", "found|enqueue-into-looked-up-entry", ok, "the response is enqueued exactly once, into the entry that the id looked up", fn.loc(lf.bb))
            for m in mods:
                ctx.ob("R07.3", "found|epoll_mod-same-id", is_id_key(m[4][2][1]), "the interest switch is for the same id", fn.loc(m[1]))
        elif found is False:
            ctx.ob("R07.3", "unknown-id|dropped", not enq and not mods and ret_kind(lf)[0] == "Ok", "a response whose id names no connection is dropped silently", fn.loc(lf.bb))
    ctx.ob("R07.3", "floor", n >= 2, "%d found-paths inspected (floor 2)" % n)
    fe, le = leaves(ctx, srv.ENQ)
    cyc = fe.cyclic_blocks()

    def supplied_order(x, lf):
        """x = the call that produced the item handed to respond(): the items come in the order of the vector passed in --
        a plain iteration over it, or pop() from the back of the vector reversed once before the loop."""
        def strip(t, hows):
            t = look(t)
            while t[0] == "mut" and last_seg(t[2]) in hows:
                t = look(t[1])
            return t
        if is_call(x, "next") and x[2]:
            it = strip(x[2][0], ("next",))
            while is_call(it, "into_iter", "iter", "by_ref", "drain") and it[2]:
                if last_seg(it[1]) == "drain" and not (len(it[2]) == 2 and look(it[2][1])[0] == "agg" and look(it[2][1])[1].startswith("std::ops::RangeFull")):
                    return False
                it = strip(it[2][0], ("next", "deref_mut", "deref", "drain"))
            return it == ("arg", 2)
        if is_call(x, "remove") and "Vec" in x[1] and len(x[2]) == 2 and const_of(x[2][1]) == 0:
            # `while !v.is_empty() { respond(v.remove(0)) }`: always the first of what is left
            v = strip(x[2][0], ("remove", "deref_mut", "deref"))
            return v == ("arg", 2)
        if is_call(x, "pop") and "Vec" in x[1] and x[2]:
            v = strip(x[2][0], ("pop",))
            if not (v[0] == "mut" and last_seg(v[2]) == "reverse"):
                return False
            v = strip(v[1], ("deref_mut", "deref"))
            rev = [e for e in lf.events if e[0] == "call" and last_seg(e[3]) == "reverse"]
            return v == ("arg", 2) and len(rev) == 1 and int(rev[0][1]) not in cyc
        return False

    for lf in le:
        for e in calls(lf, srv.RESPOND):
            a = look(e[4][2][1])
            src_ = payload_of(a) if payload_of(a) is not None else (a if is_call(a, "remove") else None)
            ok = look(e[4][2][0]) == ("arg", 1) and src_ is not None and supplied_order(src_, lf)
            ctx.ob("R07.3", "enqueue_responses|each-to-respond", ok, "enqueue_responses hands each response of the vector to respond(), in the order of the vector (plain iteration, or pop() after one reverse())", fe.loc(e[1]))


def counter(ctx):
    facts = ctx.facts
    fn, lv = leaves(ctx, CC + "read", lower=True)      # `try_from(n).ok().and_then(|c| count.checked_add(c))`: the closure is part of the path
    n = 0
    for lf in lv:
        rk = ret_kind(lf)
        if rk is None or rk[0] != "Ok":
            continue
        ry = srv.read_yield(facts, lf)
        ret = ry["vec"] if ry["vec"] is not None else ("unknown", "nothing-yielded")
        a = [e for e in lf.events if e[0] == "assign" and e[3] == "(*_1).in_flight_response_count"]
        closed = any(e[0] == "assign" and e[3] == "(*_1).state" and srv.state_const(facts, e[4]) == "Closed" for e in lf.events)
        if closed:
            ctx.ob("R07.6", "read|closed-yields-nothing", ry["empty"] and not a, "on ConnectionClosed read() yields nothing and leaves the counter", fn.loc(lf.bb))
            continue
        n += 1
        ok = len(a) == 1
        if ok:
            v = look(a[0][4])
            ok = payload_of(v) is not None and is_call(payload_of(v), "checked_add")
            from .util import as_sum
            if not ok and as_sum(v) is not None:
                # `if n > u32::MAX - count { return Err(Overflow) } count += n`: the same sum behind an explicit guard
                ok = True
                ca = ("call", "plain-sum", as_sum(v))
            if ok:
                ca = payload_of(v) if payload_of(v) is not None and is_call(payload_of(v), "checked_add") else ca
                x, y = look(ca[2][0]), look(ca[2][1])
                okx = x[0] == "field" and x[3] == "in_flight_response_count"
                oky = y[0] == "cast" and is_call(look(y[1]), "len") and same_vec(look(look(y[1])[2][0]), ret)
                if not oky:
                    # `u32::try_from(v.len()).map_err(..)?`: a conversion that fails instead of truncating
                    from .util import strip_map_err
                    src = payload_of(y)
                    src = look(strip_map_err(src)) if src is not None else None
                    oky = src is not None and is_call(src, "try_from", "try_into") and len(src[2]) == 1 and is_call(look(src[2][0]), "len") and same_vec(look(look(src[2][0])[2][0]), ret)
                if not oky and const_of(y) == 0 and ry["empty"]:
                    oky = True      # `+ 0` on a path that hands nothing back
                if not oky and ry["form"] == "out-param" and ry["vec"] is None:
                    oky = counted_by_length_difference(facts, lf, y, ry)
                ok = okx and oky
        ctx.ob("R07.6", "read|counter-plus-returned", ok, "in_flight += len(exactly the vector read() returns)", fn.loc(lf.bb))
    ctx.ob("R07.6", "read|floor", n >= 4, "%d Ok paths of read() inspected (floor 4)" % n)
    # no other write of the counter anywhere in read(), in particular not inside its loops
    for lf in lv:
        a = [e for e in lf.events if e[0] == "assign" and e[3] == "(*_1).in_flight_response_count"]
        for e in a:
            v = look(e[4])
            from .util import as_sum
            good = (payload_of(v) is not None and is_call(payload_of(v), "checked_add")) or as_sum(v) is not None
            if lf.kind == "loop" or not good:
                ctx.fail("R07.6", "read|stray-counter-write|%s" % lf.kind, "read() changes the in-flight counter other than by adding the number of requests it returns (%s path): %s" % (lf.kind, term_s(v)[:120]), fn.loc(e[1]))
    fe, le = leaves(ctx, CC + "enqueue_response", lower=True)      # `checked_sub(1).map(|n| count = n).ok_or(Underflow)`: the closure is traversed
    m = 0
    for lf in le:
        rk = ret_kind(lf)
        if rk is None or rk[0] != "Ok":
            continue
        m += 1
        a = [e for e in lf.events if e[0] == "assign" and e[3] == "(*_1).in_flight_response_count"]
        ok = len(a) == 1
        if ok:
            v = look(a[0][4])
            cs = payload_of(v)
            ok = cs is not None and is_call(cs, "checked_sub") and const_of(cs[2][1]) == 1 and look(cs[2][0])[0] == "field" and look(cs[2][0])[3] == "in_flight_response_count"
            if not ok:
                # `match count { 0 => Err(Underflow), n => { count = n - 1; Ok(()) } }`: the value stored is count - 1 under the path's tests
                from ..lin import Lin, State
                from ..panics import Tr
                st_ = State()
                tr_ = Tr(facts, fe, st_)
                for ev in lf.events:
                    if ev[0] == "cond":
                        tr_.assume_cond(ev[3], ev[4])
                cnt = ("field", ("deref", ("arg", 1)), srv.CCT, "in_flight_response_count")
                ok = st_.entails_eq(tr_.lin(a[0][4]) - tr_.lin(cnt) + Lin.const(1)) and st_.entails_le(Lin.const(1) - tr_.lin(cnt))
        ctx.ob("R07.6", "enqueue|counter-minus-one", ok, "every Ok path of enqueue_response decrements in_flight by exactly 1", fe.loc(lf.bb))
    ctx.ob("R07.6", "enqueue|floor", m >= 1, "%d Ok path(s) of enqueue_response inspected (floor 1)" % m)
    for w in field_writers(facts, srv.CCT, "in_flight_response_count"):
        ctx.ob("R07.6", "writers|%s" % w[0], writer_roots(facts, w[0]) <= {CC + "read", CC + "enqueue_response", CC + "new"}, "writer of in_flight_response_count: %s (%s)" % (w[0], w[3]), w[2])


def is_empty_vec(t):
    t = look(t)
    return is_call(t, "new") and "Vec" in t[1]


def counted_by_length_difference(facts, lf, y, ry):
    """`let before = out.len(); .. out.push(wrap(popped)) ..; count = out.len() - before`: the amount added to the counter is
    the number of items this call pushed onto the caller's vector -- the first len() is taken before anything is popped,
    the last after the drain, and nothing but `push` (and `len`) is ever applied to the caller's vector in read()."""
    from .fields import param_consumers
    y = look(y)
    while y[0] == "cast":
        y = look(y[1])
    if y[0] == "field" and y[2] == "tuple" and y[3] == "0":
        y = look(y[1])
    if not (y[0] == "bin" and y[1] in ("Sub", "SubWithOverflow", "SubUnchecked")):
        return False
    a, b = look(y[2]), look(y[3])

    def is_len_of_out(t):
        if not is_call(t, "len"):
            return False
        r = look(t[2][0])
        while r[0] == "mut":
            r = look(r[1])
        return r[0] == "arg" and r[1] in ry["param"]

    if not (is_len_of_out(a) and is_len_of_out(b)) or a[3] == b[3]:
        return False
    lens = [i for i, e in enumerate(lf.events) if e[0] == "call" and is_len_of_out(e[4])]
    pops = [i for i, e in enumerate(lf.events) if e[0] == "call" and e[3] == conn.P + "pop_parsed_request"]
    if len(lens) < 2 or (pops and not (lens[0] < min(pops) and max(pops) < lens[-1])):
        return False
    if lf.events[lens[0]][4][3] != b[3] or lf.events[lens[-1]][4][3] != a[3]:
        return False        # minuend = the length taken last, subtrahend = the one taken first
    fr = facts.fns[CC + "read"]
    for k in ry["param"]:
        for t in param_consumers(fr, k):
            seg_ = None if t is None else last_seg(t["callee"].get("path") or "")
            if seg_ == "truncate" and _restores(facts, fr, k):
                continue
            if seg_ not in ("push", "len"):
                return False
    return True


def _restores(facts, fr, k):
    class _C:
        pass
    c = _C()
    c.facts = facts
    c.touched = lambda *a, **kw: None
    return srv.truncate_restores_entry(c, fr, {k})


def same_vec(a, b):
    def core(t):
        t = look(t)
        while t[0] == "mut":
            t = look(t[1])
        return norm(t)
    return core(a) == core(b)


def process(ctx):
    facts = ctx.facts
    fn, lv = leaves(ctx, "server::ServerRequest::process")
    for lf in lv:
        r = look(lf.ret())
        ok = is_call(r, "server::ServerResponse::new") and look(r[2][1])[0] == "field" and look(r[2][1])[3] == "id" and look(look(r[2][1])[1]) == ("arg", 1)
        ctx.ob("R07.8", "process|same-id", ok, "process() builds the ServerResponse with the request's own id", fn.loc(0))
    for name, adt in (("server::ServerRequest::new", "server::ServerRequest"), ("server::ServerResponse::new", "server::ServerResponse")):
        f, l = leaves(ctx, name)
        names = [x["name"] for x in facts.struct_fields(adt)]
        for lf in l:
            r = lf.ret()
            ok = r[0] == "agg" and r[1] == adt and r[3][names.index("id")] == ("arg", 2)
            ctx.ob("R07.8", "ctor|%s" % name, ok, "%s stores the id it is given" % name, f.loc(0))
    for adt in ("server::ServerRequest", "server::ServerResponse"):
        for w in field_writers(facts, adt, "id"):
            ctx.ob("R07.8", "id-writers|%s|%s" % (adt, w[0]), w[0] == adt + "::new", "writer of %s.id: %s" % (adt, w[0]), w[2])
