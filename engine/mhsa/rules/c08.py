"""C08 -- well-behaved clients: each request yielded once and answered; no stall, no spin."""
from ..core import AnalysisError, term_s, subterms
from . import srv, conn
from .conn import leaves, ret_kind
from .srv import S, CC, calls, state_test, eventset_value, EV_IN, EV_OUT
from .util import result_outcome, payload_of, option_is_some, const_of, is_call, last_seg, look, norm, truth

EXPLANATION = (
    "Static decision of the one mechanism the server has for liveness: the epoll interest of a "
    "connection mirrors its state.  For every public HttpServer entry point and every path "
    "(path-sensitive dataflow, loop iterations cut at the back edge) each event that can move a "
    "connection to AwaitingOutgoing / AwaitingIncoming (a call of ClientConnection::read / write, or a "
    "direct state assignment) is followed on that path by a test of the state and, on its "
    "true edge, by epoll ctl(Modify) for the same descriptor with the matching interest (OUT / IN); "
    "event sets given to Add/Modify contain exactly one of IN and OUT; read() moves to AwaitingOutgoing "
    "exactly under pending_write(), write() to AwaitingIncoming exactly under !pending_write(), and either becomes Closed "
    "only on a path on which the transfer reported an error; a complete well-formed request is refused by the parsers only for "
    "the enumerated reasons (closed table, = C02 R02.10). "
    "Decides these clauses; finite-poll delivery and quiescence of the epoll fd are not decided."
)
TRUSTED = ["level-triggered epoll reports only registered interest", "vmm-sys-util EventSet constants"]
ASSUMPTIONS = ["kernel readiness semantics"]
NOT_DECIDED = "liveness proper (finitely many polls deliver everything; readiness stops when nothing is outstanding): kernel in the loop, all interleavings"

TRANS = {"read": ("AwaitingOutgoing", EV_OUT), "write": ("AwaitingIncoming", EV_IN)}


def run(ctx):
    ctx.rule("R08.1", "after every event that may change a connection's direction, the epoll interest is re-armed to match on that path")
    ctx.rule("R08.2", "event sets for Add/Modify contain exactly one of IN/OUT; wrappers pass fd and fd as u64")
    ctx.rule("R08.3", "read() sets AwaitingOutgoing exactly under pending_write(); write() sets AwaitingIncoming exactly under !pending_write()")
    ctx.guarded("R08.2", "wrappers", lambda: wrappers(ctx))
    ctx.guarded("R08.1", "requests", lambda: mirror(ctx, "R08.1", srv.REQUESTS, ("read", "write")))
    ctx.guarded("R08.1", "respond", lambda: respond_mirror(ctx))
    ctx.guarded("R08.1", "flush", lambda: mirror(ctx, "R08.1", srv.FLUSH, ("write",)))
    ctx.guarded("R08.3", "switch", lambda: switch_conditions(ctx))
    ctx.rule("R08.5", "every supplied response reaches the client in full and in order: the writer's bookkeeping under short/interrupted writes and the FIFO discipline of the response queue (= C06 R06.1-R06.5, R06.7)")
    from .c06 import paths as writer_paths, fifo
    ctx.guarded("R08.5", "writer", lambda: writer_paths(ctx, "R08.5"))
    ctx.guarded("R08.5", "fifo", lambda: fifo(ctx, "R08.5", "response_queue", {"push_back", "pop_front", "clear"}))
    ctx.rule("R08.6", "read() hands over every request the parser completed: after a successful try_read it returns only once pop_parsed_request() answered None (bytes already taken off the socket raise no further readiness event)")
    ctx.guarded("R08.6", "drain-all", lambda: drain_all(ctx))
    ctx.rule("R08.7", "a complete well-formed request is not refused: the incremental parsers build a ParseError only for the enumerated reasons (= C02 R02.10) -- a budget that is kept per connection instead of per request, say, turns the n-th good request into a 400 that is never yielded")
    from .c06 import _Remap as _Remap2
    from . import c02 as _c02
    ctx.guarded("R08.7", "rejections", lambda: _c02.rejections(_Remap2(ctx, "R08.7"), "R02.10"))
    ctx.rule("R08.4", "one try_read / try_write per readiness notification (a second write on a full socket would report EAGAIN and close a healthy connection); served streams are non-blocking")
    from .c09 import single_io, nonblocking
    ctx.guarded("R08.4", "single-io", lambda: single_io(ctx, "R08.4"))
    ctx.guarded("R08.4", "nonblocking", lambda: nonblocking(ctx, "R08.4"))


def wrappers(ctx):
    es = srv.epoll_wrappers(ctx, "R08.2")
    add = es.get("epoll_add")
    ctx.ob("R08.2", "add|interest", isinstance(add, int) and bool(add & EV_IN) and not (add & EV_OUT), "a new descriptor is registered for IN (set 0x%x)" % (add if isinstance(add, int) else -1))
    ctx.ob("R08.2", "mod|interest-is-argument", es.get("epoll_mod") == "arg", "epoll_mod registers the set it is given")


def read_side_interest(ctx, rule):
    mirror(ctx, rule, srv.REQUESTS, ("read",))


def mirror(ctx, rule, fname, which):
    """Decided on the paths cut at the first return to a loop header; where a write sits in the loop's own condition
    (`while c.state == AwaitingOutgoing && c.write().is_ok() {}` with the re-arm behind the loop) the state test that
    follows the call lies just behind that cut: the paths are then taken once more round the loop."""
    from .c06 import _Rec
    a = _Rec(ctx)
    _mirror(a, rule, fname, which, False)
    if not a.failed():
        return a.replay(ctx)
    b = _Rec(ctx)
    try:
        _mirror(b, rule, fname, which, True)
    except AnalysisError as e:
        b.fail(rule, "%s|cannot-establish|second-iteration" % fname.split("::")[-1], str(e))
    if not b.failed():
        return b.replay(ctx)
    a.replay(ctx)


def _mirror(ctx, rule, fname, which, unroll):
    facts = ctx.facts
    fn, lv = leaves(ctx, fname, lower=True, unroll=unroll)
    short = fname.split("::")[-1]
    n = 0
    for lf in lv:
        for i, e in enumerate(lf.events):
            if e[0] != "call" or e[3] not in [CC + w for w in which]:
                continue
            w = e[3].split("::")[-1]
            target_state, interest = TRANS[w]
            recv = look(e[4][2][0])
            if lf.kind == "loop" and e[1] in lf.trace and lf.trace.index(lf.bb) > lf.trace.index(e[1]):
                continue   # ends at the back edge of a loop entered after the call: the rest of the iteration is on the path that leaves that loop
            if unroll and lf.kind == "loop":
                heads = [k for k, b_ in enumerate(lf.trace) if b_ == lf.bb]
                # where in the trace the call sits: align the events before it with the blocks of the trace
                pos = 0
                for ev in lf.events[:i + 1]:
                    if len(ev) > 1 and ev[1] in lf.trace[pos:]:
                        pos = lf.trace.index(ev[1], pos)
                if len(heads) >= 3 and pos > heads[1]:
                    continue   # a call made after the loop's second visit: the path on which that visit is the first one follows the same call through the loop test and beyond
            # a path on which the call itself failed and the error is returned needs no re-arm
            rk = ret_kind(lf)
            failed = any(t[0] == "discr" and is_call(t[1], "branch") and norm(look(t[1][2][0])) == norm(e[4]) and c == ("eq", 1) for (t, c, _b) in lf.conds)
            failed = failed or any(t[0] == "discr" and norm(look(t[1])) == norm(e[4]) and (c == ("eq", 1) or (c[0] == "ne" and 0 in c[1])) for (t, c, _b) in lf.conds)
            failed = failed or result_outcome(lf, e[4]) == "err"
            if failed and not sets_state_on_err(ctx, w):
                continue
            n += 1
            # state test after the call
            verdict = None
            for (t, c, b) in lf.conds:
                st = state_test(facts, t, c)
                if st is None:
                    continue
                # must be evaluated after the call: the eq() call event index
                pos = [j for j, ev in enumerate(lf.events) if ev[0] == "call" and norm(ev[4]) == norm(t)]
                if pos and pos[-1] < i:
                    continue
                if norm(st[0]) != norm(recv) and norm(look(st[0])) != norm(recv):
                    # same connection? compare modulo mutation wrappers
                    if not same_conn(st[0], recv):
                        continue
                if target_state in st[1] and len(st[1]) == 1:
                    verdict = "is"
                elif target_state not in st[1]:
                    verdict = "is-not"
            if verdict is None:
                # the callee reports the outcome in a flag of a private result struct: `if outcome.awaiting_outgoing { .. }`
                for (t, c, b) in lf.conds:
                    x = look(t)
                    if x[0] == "field" and x[2] in facts.adts and payload_of(x[1]) is not None and norm(payload_of(x[1])) == norm(e[4]) and truth(c) is not None:
                        if flag_means_state(ctx, w, x[2], x[3], target_state):
                            verdict = "is" if truth(c) else "is-not"
            key = "%s|after-%s" % (short, w)
            if verdict is None:
                ctx.fail(rule, key + "|no-rearm", "%s(): after %s() (which may move the connection to %s) this path neither tests the state nor re-arms the epoll interest; the kernel-side interest can disagree with the state" % (short, w, target_state), fn.loc(e[1]), witness="path blocks %s" % lf.trace[-12:])
                continue
            if verdict == "is-not":
                ctx.ob(rule, key + "|unchanged", True, "%s(): state is not %s after %s(): nothing to re-arm" % (short, target_state, w), fn.loc(e[1]))
                continue
            mods = [m for m in lf.events[i + 1:] if m[0] == "call" and m[3] == S + "epoll_mod"]
            ok = False
            for m in mods:
                v = eventset_value(m[4][2][2])
                if v is not None and (v & interest) and not (v & (EV_IN | EV_OUT) & ~interest):
                    ok = True
            ctx.ob(rule, key + "|rearmed", ok, "%s(): state became %s after %s(): epoll_mod with %s interest follows on this path" % (short, target_state, w, "OUT" if interest == EV_OUT else "IN"), fn.loc(e[1]))
    ctx.ob(rule, "%s|floor" % short, n >= 1, "%d call site paths of %s inspected in %s (floor 1)" % (n, "/".join(which), short), fn.loc(0))


def flag_means_state(ctx, w, adt, field, target_state):
    """ClientConnection::<w> returns Ok(S { field: b, .. }) with b == (the connection is in target_state when it returns), on every Ok path:
    b is the comparison of self.state with target_state evaluated after the last write of the state on that path, or a
    literal that agrees with the state last written."""
    facts = ctx.facts
    fn, lv = leaves(ctx, CC + w)
    names = [f["name"] for f in facts.struct_fields(adt)]
    if field not in names:
        return False
    n = 0
    for lf in lv:
        rk = ret_kind(lf)
        if rk is None or rk[0] != "Ok":
            continue
        r = look(rk[1])
        if not (r[0] == "agg" and r[1] == adt):
            return False
        n += 1
        v = look(r[3][names.index(field)])
        writes = [i for i, ev in enumerate(lf.events) if ev[0] == "assign" and ev[3] == "(*_1).state"]
        if v[0] == "call" and last_seg(v[1]) in ("eq", "ne") and len(v[2]) == 2:
            ca, cb = srv.state_const(facts, v[2][0]), srv.state_const(facts, v[2][1])
            if ca is not None and cb is not None:
                # the state written earlier on this path was propagated into the comparison
                v = ("const", (ca == cb) == (last_seg(v[1]) == "eq"))
        if v[0] == "const" and isinstance(v[1], bool):
            if not writes:
                return False
            last = srv.state_const(facts, lf.events[writes[-1]][4])
            if last is None or v[1] != (last == target_state):
                return False
            continue
        st = state_test(facts, v, ("ne", (0,)))
        if st is None or st[1] != {target_state} or look(look(st[0]))[0] not in ("arg", "deref", "field"):
            return False
        pos = [j for j, ev in enumerate(lf.events) if ev[0] == "call" and norm(ev[4]) == norm(v)]
        if writes and (not pos or pos[-1] < writes[-1]):
            return False
    return n >= 1


def sets_state_on_err(ctx, w):
    """Does ClientConnection::<w> assign its state on a path that returns Err?"""
    fn, lv = leaves(ctx, CC + w)
    for lf in lv:
        rk = ret_kind(lf)
        if rk is not None and rk[0] != "Ok":
            if any(e[0] == "assign" and e[3] == "(*_1).state" for e in lf.events):
                return True
    return False


def drain_all(ctx):
    fn, lv = leaves(ctx, CC + "read")
    n = 0
    m = 0
    for lf in lv:
        rk = ret_kind(lf)
        if rk is None or rk[0] != "Ok":
            continue
        tr = [e for e in lf.events if e[0] == "call" and e[3] == conn.TRY_READ]
        if len(tr) != 1 or result_outcome(lf, tr[0][4]) != "ok":
            continue
        n += 1
        drained = False
        for (t, c, _b) in lf.conds:
            if t[0] == "discr" and is_call(look(t[1]), conn.P + "pop_parsed_request") and option_is_some(c) is False:
                drained = True
        via = srv.from_fn_drains(ctx.facts, lf, ("extend", "collect"))
        if via is not None:
            # vec.extend(from_fn(pop)) / from_fn(pop).collect(): everything popped goes into that vector, which must be the one returned
            tgt = look(via[4][2][0]) if last_seg(via[3]) == "extend" else None
            ret = look(rk[1])
            while ret[0] == "mut":
                ret = look(ret[1])
            if tgt is not None:
                while tgt[0] == "mut":
                    tgt = look(tgt[1])
                drained = norm(tgt) == norm(ret)
            else:
                drained = norm(look(via[4])) == norm(look(rk[1]))
            m += 1 if drained else 0
        ctx.ob("R08.6", "read|queue-drained", drained, "a successful read returns only after pop_parsed_request() returned None", fn.loc(lf.bb))
    # in the loop, every popped request is pushed onto the vector that is returned
    for lf in lv:
        if lf.kind != "loop":
            continue
        tr = [e for e in lf.events if e[0] == "call" and e[3] == conn.TRY_READ]
        if len(tr) != 1 or result_outcome(lf, tr[0][4]) != "ok":
            continue
        pops = [e for e in lf.events if e[0] == "call" and e[3] == conn.P + "pop_parsed_request"]
        push = [e for e in lf.events if e[0] == "call" and last_seg(e[3]) in ("push", "push_back") and "Vec" in e[3]]
        if not pops:
            continue
        m += 1
        item = look(push[0][4][2][1]) if len(push) == 1 else None
        if item is not None and is_call(item, "server::ServerRequest::new"):
            item = look(item[2][0])     # read() wraps the request itself before pushing it onto the caller's vector
        ok = item is not None and payload_of(item) is not None and norm(payload_of(item)) == norm(pops[-1][4])
        ctx.ob("R08.6", "read|each-popped-pushed", ok, "each request popped after a successful read is pushed onto the vector read() returns", fn.loc(lf.bb))
    from .util import caller_fns
    pc = caller_fns(ctx.facts, conn.P + "pop_parsed_request")
    ctx.ob("R08.6", "pop|callers", pc == {CC + "read"}, "pop_parsed_request is called from %s (only the draining read() may take requests off the queue: one taken anywhere else is never yielded)" % sorted(pc))
    ctx.ob("R08.6", "floor", n >= 1 and m >= 1, "%d returning path(s) and %d loop iteration path(s) after a successful try_read (floor 1 each)" % (n, m), fn.loc(0))


def same_conn(a, b):
    def core(t):
        t = look(t)
        while t[0] in ("mut",):
            t = look(t[1])
        return norm(t)
    return core(a) == core(b)


def respond_mirror(ctx):
    facts = ctx.facts
    fn, lv = leaves(ctx, srv.RESPOND)
    n = 0
    for lf in lv:
        for i, e in enumerate(lf.events):
            if e[0] == "assign" and e[5] is not None and srv.is_state_place(e[5]):
                v = srv.state_const(facts, e[4])
                if v not in ("AwaitingOutgoing", "AwaitingIncoming"):
                    continue
                n += 1
                interest = EV_OUT if v == "AwaitingOutgoing" else EV_IN
                mods = [m for m in lf.events if m[0] == "call" and m[3] == S + "epoll_mod"]
                ok = False
                for m in mods:
                    val = eventset_value(m[4][2][2])
                    if val is not None and (val & interest) and not (val & (EV_IN | EV_OUT) & ~interest):
                        ok = True
                ctx.ob("R08.1", "respond|assign-%s|rearmed" % v, ok, "respond(): state := %s is accompanied by epoll_mod with the matching interest on this path" % v, fn.loc(e[1]))
                # only from AwaitingIncoming
                cur = [state_test(facts, t, c) for (t, c, _b) in lf.conds]
                cur = [s for s in cur if s]
                ctx.ob("R08.1", "respond|from-incoming-only", any(s[1] == {"AwaitingIncoming"} for s in cur), "respond(): the switch to OUT is made only from AwaitingIncoming", fn.loc(e[1]))
    ctx.ob("R08.1", "respond|floor", n >= 1, "%d state assignment path(s) in respond (floor 1)" % n, fn.loc(0))
    # every other epoll_mod in the crate is one of the sites above
    sites = {}
    for f in facts.fns.values():
        for bb, t in f.calls_to(S + "epoll_mod"):
            sites.setdefault(f.name, 0)
            sites[f.name] += 1
    from .util import roots_of
    roots = set()
    for c in sites:
        roots |= roots_of(facts, c) or {c}
    ctx.ob("R08.1", "epoll_mod|callers", roots <= {srv.REQUESTS, srv.RESPOND, srv.FLUSH}, "epoll_mod is called from %s (on behalf of %s)" % (sites, sorted(roots)))
    # interest sets at all Modify sites
    for f in facts.fns.values():
        if not list(f.calls_to(S + "epoll_mod")):
            continue
        fn2, lv2 = leaves(ctx, f.name, lower=True)
        seen = set()
        for lf in lv2:
            if srv.state_infeasible(facts, lf):
                continue
            for m in calls(lf, S + "epoll_mod"):
                v = eventset_value(m[4][2][2])
                if (m[1], v) in seen:
                    continue
                seen.add((m[1], v))
                ok = v is not None and bool(v & EV_IN) != bool(v & EV_OUT)
                ctx.ob("R08.2", "mod|exactly-one-direction|%s|0x%x" % (f.name.split("::")[-1], v or 0), ok, "epoll_mod event set 0x%x contains exactly one of IN/OUT" % (v or 0), fn2.loc(m[1]))


def switch_conditions(ctx, which=("read", "write")):
    facts = ctx.facts
    for w, (target, _i) in TRANS.items():
        if w not in which:
            continue
        fn, lv = leaves(ctx, CC + w)
        n = 0
        for lf in lv:
            rk = ret_kind(lf)
            if rk is None or rk[0] != "Ok":
                continue
            sets = [e for e in lf.events if e[0] == "assign" and e[3] == "(*_1).state"]
            vals = [srv.state_const(facts, e[4]) for e in sets]
            pw = conn.atom_truth(lf, lambda t: is_call(t, conn.P + "pending_write"))
            closed = "Closed" in vals
            if closed:
                # closing is the answer to a failed transfer only: a path on which try_read / try_write succeeded and the
                # connection is closed all the same drops a client that is still owed something (the body it was told to
                # send with 100 Continue, the rest of a pipeline)
                from .util import result_test
                io = "try_read" if w == "read" else "try_write"
                failed = any(result_test(t, c, lambda y: is_call(y, conn.P + io)) == "err" for (t, c, _b) in lf.conds)
                ctx.ob("R08.3", "%s|closes-only-after-failure" % w, failed, "%s(): the state becomes Closed only on a path on which %s() reported an error" % (w, io), fn.loc(lf.bb))
                continue
            n += 1
            if pw is None:
                ctx.fail("R08.3", "%s|pending-not-consulted" % w, "%s(): a non-closing path decides the connection's direction without consulting pending_write(): the state can disagree with what is queued" % w, fn.loc(lf.bb), witness="blocks %s" % lf.trace[-8:])
                continue
            want = (pw is True) if w == "read" else (pw is False)
            ctx.ob("R08.3", "%s|pending=%s" % (w, pw), (target in vals) == want, "%s(): state := %s %s (pending_write() = %s)" % (w, target, "is made" if target in vals else "is not made", pw), fn.loc(lf.bb))
            others = [v for v in vals if v != target]
            ctx.ob("R08.3", "%s|no-other-state|pending=%s" % (w, pw), not others, "%s(): no other state is assigned on a non-closing path (%s)" % (w, others), fn.loc(lf.bb))
        ctx.ob("R08.3", "%s|floor" % w, n >= 2, "%d non-closing Ok paths of %s() classified (floor 2)" % (n, w), fn.loc(0))
    if "write" in which:
        conn_pw(ctx)


def conn_pw(ctx):
    fn, lv = leaves(ctx, conn.P + "pending_write")
    # returns buffer.is_some() || !queue.is_empty(): both must be consulted
    seen = set()
    for lf in lv:
        for e in lf.events:
            if e[0] == "call" and last_seg(e[3]) in ("is_some", "is_none", "is_empty", "len"):
                a = look(e[4][2][0])
                if a[0] == "field":
                    seen.add(a[3])
    ctx.ob("R08.3", "pending_write|reads-both", {"response_buffer", "response_queue"} <= seen, "pending_write() consults both the unsent buffer and the queue (reads %s)" % sorted(seen), fn.loc(0))
