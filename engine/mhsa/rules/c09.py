"""C09 -- no client can wedge the server or starve other clients."""
from ..core import AnalysisError, term_s, subterms
from ..shapes import Shapes, TOP, shape_s
from . import srv, conn
from .conn import leaves, ret_kind
from .srv import S, CC, calls, state_test, flags_on_path
from .util import const_of, is_call, last_seg, look, norm, truth, option_is_some

EXPLANATION = (
    "Static decision of the failure discipline of the polling function: every path on which "
    "requests() returns an error is enumerated (path-sensitive dataflow + constructor-shape analysis of "
    "the value returned) and must be one of: the shutdown indication, an I/O error of accept/epoll "
    "(environment), a guarded counter overflow, or the InvalidWrite of ClientConnection::write -- the "
    "last only if every call of write() is made on a path that established state == AwaitingOutgoing "
    "for that connection (so a client-controlled state can never make the poll fail); the hang-up "
    "branch clears the write buffer, marks the connection Closed and performs no I/O; map insertions "
    "are preceded by epoll_add of the same descriptor and removals accompanied by epoll_del (which is "
    "what makes the two unwraps admissible); a response is queued on a connection only when it is not "
    "Closed; a connection is released exactly when it is Closed and its in-flight counter is 0, and that counter "
    "moves only by += what read() returns and -= 1 per response, so a dead connection is kept while, and only while, "
    "an answer is owed. Decides these clauses; progress of other clients over histories is not decided."
)
TRUSTED = ["epoll reports only registered descriptors", "a descriptor number is not reused while open"]
ASSUMPTIONS = []
NOT_DECIDED = "that other clients keep being served (progress) and descriptor counts over histories"


def run(ctx):
    ctx.rule("R09.1", "every error exit of requests() is an allowed one (shutdown, environment I/O, guarded overflow, or a write guarded per R09.2)")
    ctx.rule("R09.2", "ClientConnection::write is called only where state == AwaitingOutgoing was established for that connection")
    ctx.rule("R09.3", "map insert is preceded by epoll_add of the same fd; removal is accompanied by epoll_del; lookups use the event's fd")
    ctx.rule("R09.4", "the hang-up/error branch clears the write buffer, sets Closed, and does no read/write")
    ctx.rule("R09.5", "a response is queued on a connection only under state != Closed")
    ok_write = []
    ctx.guarded("R09.2", "write-guard", lambda: ok_write.append(write_guard(ctx)))
    ctx.guarded("R09.1", "exits", lambda: exits(ctx, ok_write and ok_write[0]))
    ctx.guarded("R09.3", "pairing", lambda: pairing(ctx, "R09.3"))
    ctx.guarded("R09.4", "hangup", lambda: hangup(ctx, "R09.4"))
    ctx.guarded("R09.5", "closed-enqueue", lambda: closed_enqueue(ctx, "R09.5"))
    ctx.rule("R09.7", "an I/O failure closes: when try_write reports ConnectionClosed/StreamWriteError, or try_read reports ConnectionClosed, the connection state becomes Closed (so it can never stay AwaitingOutgoing with nothing to write)")
    ctx.guarded("R09.7", "failure-closes", lambda: failure_closes(ctx, "R09.7"))
    ctx.rule("R09.8", "Closed is absorbing: respond() re-arms a connection only after testing that it is AwaitingIncoming")
    ctx.guarded("R09.8", "closed-absorbing", lambda: closed_absorbing(ctx, "R09.8"))
    ctx.rule("R09.9", "only an Interrupted write is retried: every other write failure discards the output and closes (C06 writer rules), so flushing cannot spin on a client that stopped reading")
    from .c06 import paths as writer_paths
    ctx.guarded("R09.9", "writer", lambda: writer_paths(ctx, "R09.9", only={"R06.2", "R06.3"}))
    ctx.rule("R09.6", "every accepted stream that is served was switched to non-blocking mode first; read()/write() make one try_read/try_write each")
    ctx.guarded("R09.6", "nonblocking", lambda: nonblocking(ctx, "R09.6"))
    ctx.guarded("R09.6", "single-io", lambda: single_io(ctx, "R09.6"))
    ctx.rule("R09.10", "no client-triggered panic in the server: every panic-capable construct in server.rs is discharged or environment-justified (= C03 R03.2 restricted to the server)")
    from .c06 import _Remap

    def server_panics():
        from . import c03
        c03.panics(_Remap(ctx, "R09.10"), True, True, scope=("server::",))

    ctx.guarded("R09.10", "panics", server_panics)
    ctx.rule("R09.11", "the in-flight counter cannot overflow for any realistic history: it is at least 32 bits wide and the number of requests read is not narrowed before it is added")
    ctx.guarded("R09.11", "counter-width", lambda: counter_width(ctx, "R09.11"))
    ctx.rule("R09.13", "a response handed to a connection is queued: enqueue_response pushes it on every path (= C06 R06.7) -- a response swallowed after respond() switched the connection to AwaitingOutgoing leaves write() with nothing to send, and it fails with InvalidWrite")
    from .c06 import paths as _writer9
    ctx.guarded("R09.13", "enqueue", lambda: _writer9(ctx, "R09.13", only={"R06.7"}))
    ctx.rule("R09.12", "a connection that can no longer be written to is released when, and not before, everything yielded from it has been answered: the counter that decides it moves only by += what read() returns and -= 1 per response (= C07 R07.6), and is_done() is Closed with that counter at 0 (= C10 R10.7)")
    from .c07 import counter

    def released_when_answered():
        from .c10 import is_done
        is_done(_Remap(ctx, "R09.12"), "R10.7")

    ctx.guarded("R09.12", "counter", lambda: counter(_Remap(ctx, "R09.12")))
    ctx.guarded("R09.12", "is_done", released_when_answered)


def write_guard(ctx):
    facts = ctx.facts
    all_ok = True
    n = 0
    for fname in (srv.REQUESTS, srv.FLUSH, srv.RESPOND, srv.ENQ):
        fn, lv = leaves(ctx, fname)
        seen = {}
        for lf in lv:
            for i, e in enumerate(lf.events):
                if e[0] != "call" or e[3] != CC + "write":
                    continue
                recv = look(e[4][2][0])
                guarded = False
                for (t, c, b) in lf.conds:
                    st = state_test(facts, t, c)
                    if st and st[1] == {"AwaitingOutgoing"}:
                        pos = [j for j, ev in enumerate(lf.events) if ev[0] == "call" and norm(ev[4]) == norm(t)]
                        if (not pos or pos[-1] < i) and conn_same(st[0], recv):
                            guarded = True
                    if is_call(t, CC + "pending_write") or (is_call(t, conn.P + "pending_write")):
                        if truth(c) is True:
                            guarded = True
                k = (fname, e[1])
                seen[k] = seen.get(k, True) and guarded
        for (f, bb), g in seen.items():
            n += 1
            all_ok = all_ok and g
            ctx.ob("R09.2", "%s|write" % f.split("::")[-1], g, "%s(): write() is reached only with state == AwaitingOutgoing established for that connection%s" % (f.split("::")[-1], "" if g else " -- NOT established: a Closed connection kept for in-flight accounting gets an OUT event and try_write answers InvalidWrite, which requests() returns as an error"), fn.loc(bb))
    ctx.ob("R09.2", "floor", n >= 2, "%d call sites of ClientConnection::write inspected (floor 2)" % n)
    return all_ok


def conn_same(a, b):
    def core(t):
        t = look(t)
        while t[0] == "mut":
            t = look(t[1])
        return norm(t)
    return core(a) == core(b)


def write_error_set(ctx, Sh):
    """The errors ClientConnection::write can return (shape analysis, refined by the path's test of the matched value)."""
    facts = ctx.facts
    fw = facts.fn(CC + "write")
    ws = {("?" if s[1] == TOP else shape_s(s[1])) for s in Sh.return_set(fw) if s != TOP and s[0] == "Err"}
    if not ws <= {"ConnectionError(InvalidWrite)"}:
        # `Err(error @ ConnectionError::InvalidWrite) => Err(ServerError::ConnectionError(error))`: the bound value is the matched
        # one; the shape analysis is not path-sensitive, so read the variant off the path's test of that very value
        cd = facts.variant_discr("common::ConnectionError")
        ws2 = set()
        _, lw = leaves(ctx, CC + "write")
        for lf in lw:
            rk = ret_kind(lf)
            if rk is None or rk[0] == "Ok":
                continue
            e = look(rk[1]) if rk[0] == "Err" else None
            got = None
            if e is not None and e[0] == "agg" and e[2] == "ConnectionError" and e[3]:
                pl = look(e[3][0])
                for (t, c, _b) in lf.conds:
                    if t[0] == "discr" and norm(look(t[1])) == norm(pl):
                        if c[0] == "eq":
                            got = {cd.get(c[1])}
                        elif c[0] == "ne":
                            got = {n for k, n in cd.items() if k not in c[1]}
                if pl[0] == "agg":
                    got = {pl[2]}
            if got is None or None in got:
                ws2 = None
                break
            ws2 |= {"ConnectionError(%s)" % v for v in got}
        if ws2 is not None:
            ws = ws2
    return ws


def exits(ctx, write_guarded):
    facts = ctx.facts
    fn, lv = leaves(ctx, srv.REQUESTS, lower=True)    # closures given to and_then / or_else are part of what requests() does
    Sh = Shapes(facts)
    n = 0
    causes = set()
    for lf in lv:
        rk = ret_kind(lf)
        if rk is None or rk[0] == "Ok":
            continue
        n += 1
        r = lf.ret()
        shapes = Sh.eval(r, fn)
        names = set()
        for s in shapes:
            if s == TOP or s[0] != "Err":
                names.add("?")
            else:
                e = s[1] if len(s) > 1 else TOP
                names.add("?" if e == TOP else shape_s(e))
        src = None
        if rk[0] == "prop":
            # the call whose error is propagated; a helper traversed inline propagates its callee's
            # error with a `?` of its own, so residuals can be nested
            x = look(rk[1])
            while True:
                if is_call(x, "from_residual") and x[2]:
                    x = look(x[2][0])
                elif x[0] == "residual":
                    x = look(x[1])
                elif is_call(x, "branch") and x[2]:
                    x = look(x[2][0])
                elif is_call(x, "map_err", "and_then") and x[2]:
                    x = look(x[2][0])
                else:
                    break
            src = x
        cause = None
        if names == {"ShutdownEvent"}:
            cause = "shutdown"
        elif src is not None and is_call(src, "std::io::Write::write") and any(is_call(x, "accept") for x in subterms(src) if isinstance(x, tuple)):
            cause = "refusal-write I/O error"
        elif src is not None and is_call(src, "accept"):
            cause = "accept I/O error"
        elif src is not None and is_call(src, S + "epoll_mod"):
            cause = "epoll_ctl error"
        elif src is not None and is_call(src, srv.HNC):
            cause = "handle_new_connection error"
        elif src is not None and is_call(src, CC + "read"):
            cause = "in-flight counter overflow (checked_add)"
        elif src is not None and is_call(src, CC + "write"):
            cause = "write(): InvalidWrite"
        elif rk[0] == "Err" and any(is_call(look(s), "wait") for s in subterms(rk[1]) if isinstance(s, tuple)):
            cause = "epoll_wait error"
        elif rk[0] == "Err":
            e = look(rk[1])
            if e[0] == "field" and e[1][0] == "downcast" and is_call(look(e[1][1]), srv.HNC):
                cause = "handle_new_connection error"
            elif e[0] == "field" and e[1][0] == "downcast" and e[1][2] == "Err":
                x = look(e[1][1])
                while is_call(x, "map_err") and x[2]:
                    x = look(x[2][0])
                if is_call(x, "std::io::Write::write") and any(is_call(y, "accept") for y in subterms(x) if isinstance(y, tuple)):
                    cause = "refusal-write I/O error"
                elif is_call(x, "accept"):
                    cause = "accept I/O error"
        if cause is None:
            ctx.fail("R09.1", "exit|unrecognised|%s" % sorted(names), "requests() can fail with %s on a path the checker does not know (fail closed)" % sorted(names), fn.loc(lf.bb), witness="blocks %s" % lf.trace[-10:])
            continue
        causes.add(cause)
        allowed = {
            "shutdown": {"ShutdownEvent"},
            "accept I/O error": {"IOError(_)"},
            "refusal-write I/O error": set(),       # whether the refused client is still there is the client's doing (D4): not an admissible exit
            "epoll_ctl error": {"IOError(_)"},
            "epoll_wait error": {"IOError(_)"},
            "in-flight counter overflow (checked_add)": {"Overflow"},
            "write(): InvalidWrite": {"ConnectionError(InvalidWrite)"},
            "handle_new_connection error": {"IOError(_)", "?", "ServerFull"},
        }[cause]
        if cause == "write(): InvalidWrite":
            names = write_error_set(ctx, Sh)
        ok = names <= allowed
        if cause == "write(): InvalidWrite":
            ctx.ob("R09.1", "exit|%s" % cause, ok and bool(write_guarded), "requests() propagates write()'s InvalidWrite: admissible only because R09.2 holds (%s)" % write_guarded, fn.loc(lf.bb))
        else:
            ctx.ob("R09.1", "exit|%s" % cause, ok, "requests() error exit: %s carrying %s" % (cause, sorted(names)), fn.loc(lf.bb))
    # errors of handle_new_connection are environment errors only
    fh = facts.fn(srv.HNC)
    hs = set()
    for s in Sh.return_set(fh):
        if s != TOP and s[0] == "Err":
            hs.add("?" if s[1] == TOP else shape_s(s[1]))
    ctx.ob("R09.1", "handle_new_connection|errors", hs <= {"ServerFull", "IOError(_)"}, "handle_new_connection can fail with %s (ServerFull is handled by the caller, IOError is environment)" % sorted(hs), fh.loc(0))
    # read(): only Overflow
    fr = facts.fn(CC + "read")
    rs = {("?" if s[1] == TOP else shape_s(s[1])) for s in Sh.return_set(fr) if s != TOP and s[0] == "Err"}
    ctx.ob("R09.1", "read|errors", rs <= {"Overflow"}, "ClientConnection::read can fail only with %s" % sorted(rs), fr.loc(0))
    fw = facts.fn(CC + "write")
    ws = write_error_set(ctx, Sh)
    ctx.ob("R09.1", "write|errors", ws <= {"ConnectionError(InvalidWrite)"}, "ClientConnection::write can fail only with %s" % sorted(ws), fw.loc(0))
    ctx.ob("R09.1", "floor", n >= 6, "%d error-exit paths of requests() classified (floor 6): %s" % (n, sorted(causes)), fn.loc(0))
    # respond(): errors
    frp = facts.fn(srv.RESPOND)
    ps = {("?" if s[1] == TOP else shape_s(s[1])) for s in Sh.return_set(frp) if s != TOP and s[0] == "Err"}
    ctx.ob("R09.1", "respond|errors", ps <= {"IOError(_)", "Underflow"}, "respond can fail only with %s (epoll_ctl error, guarded underflow)" % sorted(ps), frp.loc(0))


def counter_width(ctx, rule):
    facts = ctx.facts
    from .util import frozen_field_type
    fty = frozen_field_type(facts, srv.CCT, "in_flight_response_count")
    bits = {"u8": 8, "u16": 16, "u32": 32, "u64": 64, "usize": 64, "u128": 128}
    ty = fty["s"] if fty else "?"
    ctx.ob(rule, "counter|width", bits.get(ty, 0) >= 32, "ClientConnection.in_flight_response_count is a %s (an unsigned type of at least 32 bits is needed: 2^32 unanswered requests are out of reach, 256 are not)" % ty)
    fn, lv = leaves(ctx, CC + "read")
    n = 0
    for lf in lv:
        for e in lf.events:
            if e[0] == "assign" and e[3] == "(*_1).in_flight_response_count":
                for x in subterms(e[4]):
                    if isinstance(x, tuple) and x and x[0] == "cast" and x[3] == "IntToInt":
                        n += 1
                        ctx.ob(rule, "counter|cast|%s" % x[2], bits.get(x[2], 0) >= 32, "the number of requests read is converted to %s before it is added to the counter" % x[2], fn.loc(e[1]))
                    if isinstance(x, tuple) and x and is_call(x, "try_from", "try_into") and x[1].startswith(("std::convert::", "core::convert::")):
                        # a checked conversion cannot narrow silently; its target is the counter's own type (argument of checked_add)
                        n += 1
                        ctx.ob(rule, "counter|checked-conversion", True, "the number of requests read is converted with try_from (fails instead of truncating)", fn.loc(e[1]))
    ctx.ob(rule, "counter|floor", n >= 1, "%d conversion(s) on the way into the counter inspected" % n)
    # ... and Overflow means overflow: read() fails only where the checked addition itself answered None -- a cap on
    # unanswered requests folded into the same exit (`.filter(|c| *c <= MAX)`) is a failure of the polling function that a
    # client pipelining MAX + 1 requests can cause
    fn2, lv2 = leaves(ctx, CC + "read", lower=True)
    m = 0
    for lf in lv2:
        rk = ret_kind(lf)
        if rk is None or rk[0] == "Ok":
            continue
        m += 1
        ok = False
        why = "no test on the path"
        if lf.conds or rk[0] == "prop":
            if rk[0] == "prop":
                # `checked_add(..).ok_or(Overflow)?`: the value whose failure is handed on
                t = look(rk[1])
                x = t
            else:
                t = look(lf.conds[-1][0])
                x = look(t[1]) if t[0] == "discr" else t
            while True:
                if x[0] == "residual":
                    x = look(x[1])
                elif x[0] == "call" and last_seg(x[1]) in ("from_residual", "branch", "ok_or", "ok_or_else", "map_err", "is_none", "is_some", "ok", "and_then", "map") and x[1].split("::")[0] in ("core", "std") and x[2]:
                    x = look(x[2][0])
                else:
                    break
            ok = x[0] == "call" and last_seg(x[1]) == "checked_add" and x[1].split("::")[0] in ("core", "std") and any(isinstance(y, tuple) and y and y[0] == "field" and y[3] == "in_flight_response_count" for y in subterms(x[2][0]))
            if not ok and x[0] == "call" and last_seg(x[1]) in ("try_from", "try_into") and x[1].startswith(("std::convert::", "core::convert::")):
                ok = True       # the checked conversion of the number of requests into the counter's type (fails instead of truncating)
            if not ok and t[0] == "bin" and t[1] in ("Gt", "Lt", "Ge", "Le"):
                # the guard of a plain sum: `n > u32::MAX - count` -- the counter, the number of requests and the type's
                # maximum are all it may mention (any other constant is a cap)
                def leaves_ok(y, depth=0):
                    y = look(y)
                    while y[0] == "cast":
                        y = look(y[1])
                    if y[0] == "const":
                        return const_of(y) in (0xFFFFFFFF, 0xFFFFFFFFFFFFFFFF)
                    if y[0] == "field":
                        return y[3] in ("in_flight_response_count", "0", "1")  and (y[3] == "in_flight_response_count" or leaves_ok(y[1], depth + 1))
                    if y[0] == "call":
                        return last_seg(y[1]) == "len" and "Vec" in y[1]
                    if y[0] in ("bin", "checked") and depth < 6:
                        return all(leaves_ok(z, depth + 1) for z in y[2:] if isinstance(z, tuple))
                    return False
                ok = leaves_ok(t) and any(isinstance(y, tuple) and y and y[0] == "field" and y[3] == "in_flight_response_count" for y in subterms(t))
            why = term_s(t)[:100]
        ctx.ob(rule, "counter|overflow-exit-is-the-checked-addition|bb%d" % lf.bb, ok, "read() fails only where checked_add on the in-flight counter answered None (deciding test: %s)" % why, fn2.loc(lf.bb))
    ctx.ob(rule, "counter|overflow-exit|floor", m >= 1, "%d failing path(s) of read() inspected" % m)


def local_callee_(t):
    from .util import local_callee
    return local_callee(t)


def pairing(ctx, rule):
    facts = ctx.facts
    # insert sites
    n_ins = 0
    for f in facts.fns.values():
        for bb, t in f.calls():
            p = t["callee"].get("path") or ""
            if "HashMap" in p and last_seg(p) in ("insert", "entry", "extend", "try_insert", "insert_unique_unchecked"):
                fn, lv = leaves(ctx, f.name)
                for lf in lv:
                    for i, e in enumerate(lf.events):
                        if e[0] == "call" and e[1] == bb and is_connections(e[4][2][0]):
                            n_ins += 1
                            key = e[4][2][1]
                            adds = [a for a in lf.events[:i] if a[0] == "call" and a[3] == S + "epoll_add"]
                            ok = any(norm(look(a[4][2][1])) == norm(look(key)) for a in adds)
                            # the `?` on that epoll_add must have continued
                            ctx.ob(rule, "insert|after-epoll_add", ok and last_seg(p) == "insert", "connections.insert(fd, ..) is preceded on its path by epoll_add(.., fd) of the same descriptor", fn.loc(bb))
                            fdok = is_call(look(key), "as_raw_fd")
                            ctx.ob(rule, "insert|key-is-stream-fd", fdok, "the key is the stream's own as_raw_fd()", fn.loc(bb))
    ctx.ob(rule, "insert|floor", n_ins >= 1, "%d insertion path(s) into the connection map (floor 1)" % n_ins)
    # removal sites
    removers = []
    for f in facts.fns.values():
        for bb, t in f.calls():
            p = t["callee"].get("path") or ""
            if "HashMap" in p and last_seg(p) in ("remove", "remove_entry", "retain", "clear", "drain", "extract_if", "into_iter", "into_keys", "into_values"):
                fn, lv = leaves(ctx, f.name)
                for lf in lv:
                    for e in lf.events:
                        if e[0] == "call" and e[1] == bb and is_connections(e[4][2][0]):
                            removers.append((f.name, bb, last_seg(p), e))
    sites = {(r[0], r[1], r[2]) for r in removers}
    all_removers = list(removers)
    # the sweep in two steps: collect the fds of the done connections, then for each: epoll_del(fd); connections.remove(&fd)
    two_step = [r for r in removers if r[2] == "remove"]
    if two_step and all(r[2] == "remove" for r in removers):
        okall = True
        fnr, lvr = leaves(ctx, srv.REQUESTS)
        n2 = 0
        for lf in lvr:
            rm = [e for e in lf.events if e[0] == "call" and "HashMap" in e[3] and last_seg(e[3]) == "remove" and is_connections(e[4][2][0])]
            if not rm:
                continue
            n2 += 1
            dead = srv.dead_sweep(facts, lf)
            from .util import payload_of
            key = look(rm[0][4][2][1])
            src = payload_of(key)
            item_ok = False
            if dead is not None and src is not None and is_call(src, "next"):
                it = look(src[2][0])
                while it[0] == "mut" or is_call(it, "into_iter"):
                    it = look(it[1]) if it[0] == "mut" else look(it[2][0])
                item_ok = norm(it) == norm(look(dead))
            dels = calls(lf, S + "epoll_del")
            same = len(dels) == 1 and norm(look(dels[0][4][2][1])) == norm(key) and lf.events.index(dels[0]) < lf.events.index(rm[0])
            okall = okall and len(rm) == 1 and item_ok and same
        ctx.ob(rule, "remove|only-retain-in-requests", okall and n2 >= 1, "removals from the connection map: each fd of the list of done connections is deregistered with epoll_del and then removed (%d path(s))" % n2)
        ctx.ob(rule, "remove|dropped-iff-done+epoll_del", okall and n2 >= 1, "an entry is dropped only when is_done() held for it, after epoll_del of its own key")
        removers = []
        sites = None
    from .util import roots_of
    if sites is not None:
        ctx.ob(rule, "remove|only-retain-in-requests", sites and all((roots_of(facts, s[0]) or {s[0]}) == {srv.REQUESTS} and s[2] == "retain" for s in sites), "removals from the connection map: %s" % sorted(sites))
    for (fname, bb, kind, e) in removers[:1]:
        clo = look(e[4][2][1])
        if clo[0] != "closure":
            ctx.fail(rule, "remove|closure", "retain is not given a closure literal", None)
            continue
        fc, lc = leaves(ctx, clo[1])
        for lf in lc:
            done = conn.atom_truth(lf, lambda t: isinstance(t, tuple) and t[0] == "call" and t[1] == CC + "is_done")
            keep = look(lf.ret())
            # `!done` / `!conn.is_done()` written out instead of two literal returns
            neg = False
            while keep[0] == "un" and keep[1] == "Not":
                keep, neg = look(keep[2]), not neg
            if isinstance(keep, tuple) and keep[0] == "call" and keep[1] == CC + "is_done" and done is not None:
                keep = ("const", done)
            if keep[0] == "const" and isinstance(keep[1], bool) and neg:
                keep = ("const", not keep[1])
            dels = calls(lf, S + "epoll_del")
            if keep == ("const", False):
                ok = done is True and len(dels) == 1 and look(dels[0][4][2][1]) in (("deref", ("arg", 2)), ("arg", 2))
                ctx.ob(rule, "remove|dropped-iff-done+epoll_del", ok, "an entry is dropped only when is_done() and with epoll_del of its own key", fc.loc(lf.bb))
            elif keep == ("const", True):
                ctx.ob(rule, "remove|kept-when-not-done", done is False and not dels, "an entry that is not done is kept and not deregistered", fc.loc(lf.bb))
            else:
                ctx.fail(rule, "remove|closure-value", "the retain closure returns something other than a literal bool on a path", fc.loc(lf.bb))
    # ... and the reverse: a descriptor is deregistered only where its entry is dropped.  An extra epoll_del elsewhere (to
    # silence a dead connection that is kept for late answers) makes the sweep's own epoll_del fail later, and it unwraps
    del_sites = []
    for f in facts.fns.values():
        for bb, t in f.calls():
            if (t["callee"].get("path") or "") == S + "epoll_del" or local_callee_(t) == S + "epoll_del":
                del_sites.append((f.name, bb))
    # the closure given to retain, or a function that removes the entry itself
    ret_closures = set()
    for (fname, bb, kind, e) in all_removers:
        if kind == "retain":
            c_ = look(e[4][2][1])
            if c_[0] == "closure":
                ret_closures.add(c_[1])
    for (fname, bb) in del_sites:
        ok = fname in ret_closures or any(r[0] == fname and r[2] != "retain" for r in all_removers)
        ctx.ob(rule, "epoll_del|only-where-the-entry-is-dropped|%s" % fname, ok, "epoll_del is called in %s: a descriptor is deregistered only in the sweep, where its entry is dropped" % fname, facts.fn(fname).loc(bb))
    ctx.ob(rule, "epoll_del|floor", len(del_sites) >= 1, "%d call site(s) of epoll_del" % len(del_sites))
    # lookups in requests(): by the event's fd
    fn, lv = leaves(ctx, srv.REQUESTS)
    n = 0
    for lf in lv:
        ev = srv.event_term(lf)
        for e in calls(lf, "get_mut", "get"):
            if "HashMap" in e[3] and is_connections(e[4][2][0]):
                n += 1
                k = look(e[4][2][1])
                ctx.ob(rule, "lookup|by-event-fd", srv.is_event_field(k, ev, "fd"), "requests(): the connection is looked up by the fd() of the epoll event being handled", fn.loc(e[1]))
    ctx.ob(rule, "lookup|floor", n >= 4, "%d lookup paths inspected (floor 4)" % n)


def is_connections(t):
    t = look(t)
    while t[0] == "mut":
        t = look(t[1])
    if t[0] == "field" and t[3] == "connections":
        return True
    # closure capture: (arg1).N  -- resolved by type at the call site; accept the captured map
    return t[0] == "field" and t[2] and "closure" in str(t[2]) or (t[0] == "field" and look(t[1]) == ("arg", 1) and t[3].isdigit())


def hangup(ctx, rule):
    fn, lv = leaves(ctx, srv.REQUESTS)
    n = 0
    covered = set()
    for lf in lv:
        fl = flags_on_path(lf)
        hang = any(fl.get(f) for f in (srv.EV_ERR, srv.EV_HUP, srv.EV_RDHUP))
        io = calls(lf, CC + "read", CC + "write")
        if hang:
            n += 1
            covered |= {f for f in (srv.EV_ERR, srv.EV_HUP, srv.EV_RDHUP) if fl.get(f)}
            clr = calls(lf, CC + "clear_write_buffer") or calls(lf, conn.P + "clear_write_buffer")
            closed = [e for e in lf.events if e[0] == "assign" and e[5] is not None and srv.is_state_place(e[5]) and srv.state_const(ctx.facts, e[4]) == "Closed"]
            ctx.ob(rule, "hangup|clear+closed|flags=%s" % sorted(k for k, v in fl.items() if v), len(clr) == 1 and len(closed) == 1 and not io, "ERR/HUP/RDHUP: write buffer cleared, state := Closed, no read/write (clear=%d closed=%d io=%d)" % (len(clr), len(closed), len(io)), fn.loc(lf.bb))
        elif io:
            tested = all(fl.get(f) is False for f in (srv.EV_ERR, srv.EV_HUP, srv.EV_RDHUP))
            ctx.ob(rule, "io|only-without-hangup|%s" % io[0][3].split("::")[-1], tested, "read()/write() happen only after ERR, HUP and RDHUP were all tested and absent", fn.loc(io[0][1]))
    ctx.ob(rule, "hangup|floor", n >= 1 and covered == {srv.EV_ERR, srv.EV_HUP, srv.EV_RDHUP}, "%d hang-up path(s) inspected; flags with a closing path: %s (ERROR, HANG_UP and READ_HANG_UP all needed)" % (n, sorted("0x%x" % f for f in covered)))
    clear_write_buffer_rule(ctx, rule)


def clear_write_buffer_rule(ctx, rule):
    """clear_write_buffer really discards both: the queue is emptied and the unsent buffer becomes None
    (an emptied but still present buffer would keep pending_write() true and be 'written' as zero bytes)."""
    fcw, lw = leaves(ctx, conn.P + "clear_write_buffer")
    for lf in lw:
        q = [e for e in lf.events if e[0] == "call" and last_seg(e[3]) == "clear" and conn.self_field(e[4][2][0], "response_queue")]
        b = [e for e in lf.events if (e[0] == "call" and last_seg(e[3]) == "take" and conn.self_field(e[4][2][0], "response_buffer")) or (e[0] == "assign" and e[3] == "(*_1).response_buffer" and e[4][0] == "agg" and e[4][2] == "None")]
        ctx.ob(rule, "clear_write_buffer|both", len(q) >= 1 and len(b) >= 1, "HttpConnection::clear_write_buffer empties the queue and sets the unsent buffer to None", fcw.loc(0))
    if ctx.facts.has_fn(CC + "clear_write_buffer"):     # the forwarding method may have been inlined into its caller
        fcc, lcc = leaves(ctx, CC + "clear_write_buffer")
        for lf in lcc:
            ctx.ob(rule, "ClientConnection::clear_write_buffer", len(calls(lf, conn.P + "clear_write_buffer")) == 1, "ClientConnection::clear_write_buffer forwards to the connection", fcc.loc(0))


def closed_enqueue(ctx, rule):
    facts = ctx.facts
    fn, lv = leaves(ctx, CC + "enqueue_response")
    n = 0
    for lf in lv:
        enq = calls(lf, conn.P + "enqueue_response")
        st = None
        for (t, c, _b) in lf.conds:
            x = state_test(facts, t, c)
            if x:
                st = x[1]
        if enq:
            n += 1
            ctx.ob(rule, "enqueue|not-closed", st is not None and "Closed" not in st, "a response is queued only when the state was tested to be != Closed (possible states %s)" % (sorted(st) if st else None), fn.loc(enq[0][1]))
        elif st is not None and st == {"Closed"}:
            ctx.ob(rule, "closed|dropped", True, "for a Closed connection the response is dropped", fn.loc(lf.bb))
    ctx.ob(rule, "enqueue|floor", n >= 1, "%d enqueue path(s) inspected" % n)
    # nobody else reaches HttpConnection::enqueue_response on a ClientConnection except read() (server-generated replies)
    from .util import roots_of
    callers = set()
    for f in facts.fns.values():
        for bb, t in f.calls_to(conn.P + "enqueue_response"):
            callers |= roots_of(facts, f.name) or {f.name}
    ctx.ob(rule, "enqueue|callers", callers <= {CC + "enqueue_response", CC + "read"}, "callers of HttpConnection::enqueue_response: %s" % sorted(callers))


def nonblocking(ctx, rule):
    """The stream handed to HttpConnection::new comes from accept() and had set_nonblocking(true) applied
    (Linux does not inherit O_NONBLOCK from the listener)."""
    facts = ctx.facts
    fn, lv = leaves(ctx, srv.HNC)
    n = 0
    for lf in lv:
        thens = [e for e in lf.events if e[0] == "call" and last_seg(e[3]) == "and_then"]
        news = [e for e in lf.events if e[0] == "call" and e[3] == conn.P + "new"]
        if not thens and news:
            # written out in sequence: the stream given to HttpConnection::new is the accepted one and
            # set_nonblocking(true) succeeded on it earlier on this path
            from .util import canon, payload_of, result_outcome
            n += 1
            for e in news:
                stream = canon(e[4][2][0])
                i = lf.events.index(e)
                setters = [x for x in lf.events[:i] if x[0] == "call" and x[3] == "std::os::unix::net::UnixStream::set_nonblocking" and canon(x[4][2][0]) == stream and look(x[4][2][1]) == ("const", True) and result_outcome(lf, x[4]) == "ok"]
                from_accept = any(isinstance(st_, tuple) and st_ and is_call(st_, "accept") for st_ in subterms(stream))
                ctx.ob(rule, "accepted-stream-nonblocking", bool(setters) and from_accept, "the accepted stream passes through a successful set_nonblocking(true) before HttpConnection::new wraps it (in sequence; %d setter call(s) on it)" % len(setters), fn.loc(e[1]))
            continue
        if not thens:
            continue
        n += 1
        # chain: accept().map_err().and_then(c0).and_then(c1): c1 builds the connection, c0 must set non-blocking
        ok = False
        closures = []
        for e in thens:
            c = look(e[4][2][1])
            if c[0] == "closure":
                closures.append(c[1])
        builder = None
        setter = None
        for cname in closures:
            cf = facts.fns.get(cname)
            if cf is None:
                continue
            from .util import reaches_via_new
            stores = any("HashMap" in (t_["callee"].get("path") or "") and last_seg(t_["callee"].get("path") or "") == "insert" for _b, t_ in cf.calls())
            if reaches_via_new(facts, cf, conn.P + "new") or stores:
                builder = cname     # the step that wraps the stream into a connection / stores it in the map
            if reaches_via_new(facts, cf, "std::os::unix::net::UnixStream::set_nonblocking"):
                setter = cname
        order_ok = builder is not None and setter is not None and closures.index(setter) < closures.index(builder)
        arg_true = False
        if setter:
            _, ls = leaves(ctx, setter)
            for l2 in ls:
                for e in l2.events:
                    if e[0] == "call" and e[3] == "std::os::unix::net::UnixStream::set_nonblocking":
                        arg_true = look(e[4][2][1]) == ("const", True)
        src_ok = any(e[0] == "call" and last_seg(e[3]) == "accept" for e in lf.events)
        ctx.ob(rule, "accepted-stream-nonblocking", order_ok and arg_true and src_ok, "the accepted stream passes through set_nonblocking(true) before HttpConnection::new wraps it (setter %s, builder %s)" % (setter and setter.split("::")[-1], builder and builder.split("::")[-1]), fn.loc(lf.bb))
    ctx.ob(rule, "nonblocking|floor", n >= 1, "%d accepting path(s) inspected" % n)


def single_io(ctx, rule):
    for w, callee in (("read", conn.TRY_READ), ("write", conn.TRY_WRITE)):
        fn = ctx.facts.fn(CC + w)
        sites = [bb for bb, t in fn.calls_to(callee)]
        cyc = fn.cyclic_blocks()
        ctx.ob(rule, "%s|one-%s" % (w, callee.split("::")[-1]), len(sites) == 1 and sites[0] not in cyc, "ClientConnection::%s makes exactly one %s call, outside any cycle (sites %s): one notification, one non-blocking I/O attempt" % (w, callee.split("::")[-1], sites), fn.loc(sites[0]) if sites else fn.loc(0))


def failure_closes(ctx, rule):
    facts = ctx.facts
    cd = {n: d for d, n in facts.variant_discr("common::ConnectionError").items()}
    for w, callee, closing in (("write", conn.TRY_WRITE, ("ConnectionClosed", "StreamWriteError")), ("read", conn.TRY_READ, ("ConnectionClosed",))):
        fn, lv = leaves(ctx, CC + w)
        seen = set()
        for lf in lv:
            if lf.kind != "return":
                continue
            # which error variants of the callee's result can this path be handling?
            poss = None
            for (t, c, _b) in lf.conds:
                x = look(t[1]) if t[0] == "discr" else None
                if x is not None and x[0] == "field" and x[1][0] == "downcast" and x[1][2] == "Err" and is_call(look(x[1][1]), callee):
                    cur = {n for n, d in cd.items() if (d == c[1] if c[0] == "eq" else d not in c[1])}
                    poss = cur if poss is None else (poss & cur)
            if poss is None:
                continue
            var = "other:" + ",".join(sorted(poss))
            sts = [srv.state_const(facts, e[4]) for e in lf.events if e[0] == "assign" and e[3] == "(*_1).state"]
            closed = bool(sts) and sts[-1] == "Closed"       # the state the connection is left in: a later assignment must not undo it
            names = var[6:].split(",") if var.startswith("other:") else [var]
            for nm in names:
                if nm in closing:
                    seen.add(nm)
                    ctx.ob(rule, "%s|%s->Closed" % (w, nm), closed, "ClientConnection::%s: %s from %s marks the connection Closed" % (w, nm, callee.split("::")[-1]), fn.loc(lf.bb))
        ctx.ob(rule, "%s|covered" % w, set(closing) <= seen, "closing outcomes of %s with a path: %s (need %s)" % (callee.split("::")[-1], sorted(seen), sorted(closing)), fn.loc(0))


def closed_absorbing(ctx, rule):
    facts = ctx.facts
    n = 0
    for fname in (srv.RESPOND, srv.ENQ, srv.REQUESTS, srv.FLUSH, CC + "enqueue_response"):
        fn, lv = leaves(ctx, fname)
        for lf in lv:
            for i, e in enumerate(lf.events):
                if e[0] == "assign" and e[5] is not None and srv.is_state_place(e[5]):
                    v = srv.state_const(facts, e[4])
                    if v in (None, "Closed"):
                        continue
                    n += 1
                    known = None
                    for ev in lf.events[:i]:
                        if ev[0] == "cond":
                            st = state_test(facts, ev[3], ev[4])
                            if st:
                                known = st[1] if known is None else (known & st[1])
                    ok = known is not None and "Closed" not in known
                    ctx.ob(rule, "%s|%s-only-from-open" % (fname.split("::")[-1], v), ok, "%s(): state := %s only after the state was tested and cannot be Closed (known: %s)" % (fname.split("::")[-1], v, sorted(known) if known else None), fn.loc(e[1]))
    ctx.ob(rule, "floor", n >= 1, "%d server-level re-arming assignment(s) inspected (floor 1)" % n)
