"""C10 -- at most 10 connections; excess get 503 and close; dead connections are reaped."""
from ..core import AnalysisError, term_s, subterms
from ..paths import PathEnum
from . import srv, conn
from .c09 import pairing, hangup, closed_enqueue, is_connections
from .conn import leaves, ret_kind
from .srv import S, CC, calls
from .util import const_of, is_call, last_seg, look, norm, truth, option_is_some, payload_of

EXPLANATION = (
    "Static decision of the capacity mechanism: the single insertion into the connection map lies "
    "behind a test of connections.len() against MAX_CONNECTIONS whose inserting side implies len != 10 "
    "(the constant evaluates to 10); on ServerFull the listener is accepted once, the evaluated bytes of "
    "SERVER_FULL_ERROR_MESSAGE (status 503, Connection: close, Content-Length = actual body length = 40) "
    "are written to that stream which is then dropped, with no insertion and no epoll_add; removal from "
    "the map happens only in the sweep, only when is_done(), together with epoll_del; the sweep lies on "
    "every path to Ok of requests(); none of mem::forget / into_raw_fd / ManuallyDrop / Box::leak occurs "
    "in server.rs or connection.rs; a Closed connection can never become pending again. "
    "every request counted in flight is yielded (the returned vector is only accumulated into); descriptors received with a rejected request are closed by the parser reset. "
    "Decides these clauses; descriptor accounting over histories is not decided."
)
TRUSTED = ["HashMap::{len,insert,retain}", "dropping a UnixStream closes it"]
ASSUMPTIONS = []
NOT_DECIDED = "descriptor accounting over fill/drain histories"
LEAKS = ("forget", "into_raw_fd", "leak", "into_raw", "ManuallyDrop")

POSITIVE_CONTROLS = [("R10.5", "leaks")]


def run(ctx):
    ctx.rule("R10.1", "insertion only behind connections.len() != MAX_CONNECTIONS; MAX_CONNECTIONS = 10")
    ctx.rule("R10.2", "ServerFull: accept once, write the 503 message to that stream, drop it; no insertion, no epoll_add")
    ctx.rule("R10.3", "SERVER_FULL_ERROR_MESSAGE: status 503, Connection: close, Content-Length = body length = 40")
    ctx.rule("R10.4", "map insert/remove paired with epoll_add/epoll_del; removal only when is_done()")
    ctx.rule("R10.5", "no descriptor-leaking API in server.rs / connection.rs")
    ctx.rule("R10.6", "the sweep lies on every path to Ok of requests()")
    ctx.rule("R10.7", "a Closed connection cannot become pending again (no enqueue when Closed; hang-up clears the write buffer)")
    ctx.guarded("R10.1", "cap", lambda: _either(ctx, "R10.1", cap, cap_inlined))
    ctx.guarded("R10.2", "refusal", lambda: _either(ctx, "R10.2", refusal, refusal_inlined))
    ctx.guarded("R10.3", "message", lambda: message(ctx))
    ctx.guarded("R10.4", "pairing", lambda: pairing(ctx, "R10.4"))
    ctx.guarded("R10.5", "leaks", lambda: leaks(ctx))
    ctx.guarded("R10.6", "sweep", lambda: sweep(ctx))
    ctx.guarded("R10.7", "closed", lambda: closed_enqueue(ctx, "R10.7"))
    ctx.guarded("R10.7", "hangup", lambda: hangup(ctx, "R10.7"))
    ctx.guarded("R10.7", "is_done", lambda: is_done(ctx, "R10.7"))
    ctx.rule("R10.9", "an I/O failure marks the connection Closed (= C09 R09.7), otherwise it is never reaped")
    from .c09 import failure_closes
    ctx.guarded("R10.9", "failure-closes", lambda: failure_closes(ctx, "R10.9"))
    ctx.rule("R10.8", "the in-flight counter returns to 0 once every yielded request is answered (C07 R07.6: += exactly what read() returns, -= 1 per response; C07 R07.1: everything counted is yielded, the yielded vector is only accumulated into)")
    from .c06 import _Remap
    from .c07 import counter
    ctx.guarded("R10.8", "counter", lambda: counter(_Remap(ctx, "R10.8")))
    # a request that is counted but never handed to the application can never be answered: its connection is never released
    from .c07 import ids
    ctx.guarded("R10.8", "yielded", lambda: ids(_Remap(ctx, "R10.8")))
    ctx.rule("R10.10", "descriptors received with a request that is then rejected do not stay open in the connection: every ParseError exit of try_read empties self.files (= C11 R11.1 for `files`)")
    from . import c11
    ctx.guarded("R10.10", "rejected-files", lambda: c11.reset(_Remap(ctx, "R10.10"), only_fields=("files",)))


def _either(ctx, rule, first, second):
    """Two decision procedures for the same clauses (today's division of labour between requests() and
    handle_new_connection, and the accept path as one piece of code); a violation only when neither establishes them."""
    from .c06 import _Rec
    a = _Rec(ctx)
    try:
        first(a)
    except AnalysisError as e:
        a.fail(rule, "cannot-establish|as-divided-today", str(e))
    if not a.failed():
        return a.replay(ctx)
    b = _Rec(ctx)
    try:
        second(b)
    except AnalysisError as e:
        b.fail(rule, "cannot-establish|accept-path", str(e))
    if not b.failed() or len(b.failed()) < len(a.failed()):
        b.replay(ctx)
        ctx.ob(rule, "decided-on-the-accept-path", True, "the capacity test is not where it is today (%d clause(s) not matched); decided on requests() with handle_new_connection traversed inline" % len(a.failed()))
        return
    a.replay(ctx)
    for (r_, key, ok, msg, loc, witness) in b.failed():
        ctx.ob(r_, "accept-path|" + key, ok, "(accept path as one) " + msg, loc, witness)


def _accept_paths(ctx):
    """Paths of requests() with handle_new_connection (and new helpers) traversed inline that accept a connection:
    (fn, [(leaf, accept event, at capacity: True / False / None, serving: bool)])."""
    from ..lin import Lin, State
    from ..panics import Tr
    facts = ctx.facts
    mc = facts.const_int("server::MAX_CONNECTIONS")
    fn = facts.fn(srv.REQUESTS)
    ctx.touched(fn)
    if facts.has_fn(srv.HNC):
        ctx.touched(srv.HNC)
    lv = PathEnum(fn, facts, lower=True, inline_also=lambda p_, a_: p_ == srv.HNC, max_paths=60000).run()
    out = []
    for lf in lv:
        acc = calls(lf, "accept")
        if not acc:
            continue
        st = State()
        tr = Tr(facts, fn, st)
        LEN = None
        for e in lf.events:
            if e[0] == "call" and last_seg(e[3]) == "len" and e[4][2] and is_connections(e[4][2][0]) and LEN is None:
                LEN = tr.lin(e[4])
            if e[0] == "cond":
                tr.assume_cond(e[3], e[4])
        full = None
        if LEN is not None:
            st.sharpen()
            if st.inconsistent():
                continue
            if st.entails_eq(LEN - Lin.const(mc)):
                full = True
            else:
                s2 = st.copy()
                s2.add_eq(LEN - Lin.const(mc))
                s2.sharpen()
                if s2.inconsistent():
                    full = False
        i = lf.events.index(acc[0])
        serving = any(e[0] == "call" and (("HashMap" in e[3] and last_seg(e[3]) in ("insert", "entry", "try_insert")) or e[3] == S + "epoll_add") for e in lf.events[i:])
        out.append((lf, acc[0], full, serving))
    return fn, out


def cap_inlined(ctx):
    facts = ctx.facts
    mc = facts.const_int("server::MAX_CONNECTIONS")
    ctx.ob("R10.1", "MAX_CONNECTIONS", mc == 10, "MAX_CONNECTIONS evaluates to %d" % mc)
    fn, paths = _accept_paths(ctx)
    n = 0
    for lf, acc, full, serving in paths:
        if serving:
            n += 1
            ctx.ob("R10.1", "accept|behind-cap-test", full is False, "a connection is accepted for serving only on a path that established connections.len() != %d (established: at capacity = %s)" % (mc, full), fn.loc(acc[1]))
    ctx.ob("R10.1", "floor", n >= 1, "%d accepting-for-serving path(s) of requests()" % n)
    _insert_only_in_accept_path(ctx)


def refusal_inlined(ctx):
    fn, paths = _accept_paths(ctx)
    n = 0
    for lf, acc, full, serving in paths:
        if serving:
            continue
        n += 1
        from .c06 import direct_subterms

        def from_accept(t):
            for st_ in direct_subterms(t):
                if isinstance(st_, tuple) and st_:
                    src = payload_of(st_)
                    if src is not None and is_call(src, "accept"):
                        return True
            return False
        accepted = None
        for (t, c, _b) in lf.conds:
            from .util import result_test
            o = result_test(t, c, lambda y: is_call(y, "accept"))
            if o is not None:
                accepted = o == "ok"
        users = [e for e in lf.events if e[0] == "call" and any(from_accept(a) for a in e[4][2])]
        w = [e for e in users if last_seg(e[3]) == "write"]
        if accepted is False:
            n -= 1
            continue        # accept() itself failed: nobody was accepted, served or refused
        elif not w and full is not True:
            # accepted below capacity but not registered: an error exit of the serving branch (set_nonblocking failed, ...)
            n -= 1
            rk = ret_kind(lf)
            ctx.ob("R10.2", "accepted-then-error-exit", rk is not None and rk[0] in ("Err", "prop"), "a connection accepted below capacity that is neither registered nor answered lies on an error exit", fn.loc(acc[1]))
            continue
        else:
            ok = accepted is True and len(w) == 1 and len(users) == 1 and look(w[0][4][2][1]) in (("static", "server::SERVER_FULL_ERROR_MESSAGE"), ("deref", ("static", "server::SERVER_FULL_ERROR_MESSAGE")))
        ctx.ob("R10.2", "refusal|only-at-capacity", full is True, "a connection is accepted only to be refused on a path that established connections.len() == MAX_CONNECTIONS (established: %s)" % full, fn.loc(acc[1]))
        ctx.ob("R10.2", "refusal|accept-write-drop", ok, "at capacity: one accept, one write of SERVER_FULL_ERROR_MESSAGE to the accepted stream (a local nothing else receives, dropped when its scope ends), no epoll_add, no insertion", fn.loc(acc[1]))
    ctx.ob("R10.2", "floor", n >= 1, "%d refusing path(s) in requests()" % n)


def cap(ctx):
    facts = ctx.facts
    mc = facts.const_int("server::MAX_CONNECTIONS")
    ctx.ob("R10.1", "MAX_CONNECTIONS", mc == 10, "MAX_CONNECTIONS evaluates to %d" % mc)
    fn, lv = leaves(ctx, srv.HNC)
    n = 0
    for lf in lv:
        acc = calls(lf, "accept")
        full = None
        for (t, c, _b) in lf.conds:
            if t[0] == "bin" and is_call(look(t[2]), "len") and is_connections(look(t[2])[2][0]) and const_of(t[3]) == mc:
                tv = truth(c)
                if t[1] == "Eq":
                    full = tv
                elif t[1] == "Ne":
                    full = (not tv) if tv is not None else None
                elif t[1] == "Ge":
                    full = tv
                elif t[1] == "Lt":
                    full = (not tv) if tv is not None else None
        if acc:
            n += 1
            ctx.ob("R10.1", "accept|behind-cap-test", full is False, "a connection is accepted for serving only after connections.len() was found != %d" % mc, fn.loc(acc[0][1]))
        if full is True:
            rk = ret_kind(lf)
            e = look(rk[1]) if rk and rk[0] == "Err" else None
            ctx.ob("R10.1", "full|ServerFull", e is not None and e[0] == "agg" and e[2] == "ServerFull" and not acc, "at capacity handle_new_connection returns ServerFull without accepting", fn.loc(lf.bb))
    ctx.ob("R10.1", "floor", n >= 1, "%d accepting path(s) in handle_new_connection" % n)
    _insert_only_in_accept_path(ctx)


def _insert_only_in_accept_path(ctx):
    facts = ctx.facts
    # the insertion is only reachable through this function's closures
    ins = set()
    for f in facts.fns.values():
        for bb, t in f.calls():
            p = t["callee"].get("path") or ""
            if "HashMap" in p and last_seg(p) in ("insert", "entry", "extend", "try_insert") and "ClientConnection" in (t["callee"].get("full") or ""):
                ins.add(f.name)
    from .util import writer_roots
    roots = set()
    for x in ins:
        roots |= writer_roots(facts, x)
    ctx.ob("R10.1", "insert|only-in-accept-path", all(x.startswith(srv.HNC) for x in roots) and len(ins) == 1, "the connection map grows only in %s (on behalf of %s)" % (sorted(ins), sorted(roots)))
    _fresh_test_per_insert(ctx)


def _fresh_test_per_insert(ctx):
    """The capacity test speaks about the map as it is when it is made: one insertion later it is stale.  So no
    control-flow cycle may lead from one insertion to the next without passing the test again.  Growing code =
    the insertion itself, or a call of / a closure from a function that grows the map and contains no test of
    its own (a function with its own test -- handle_new_connection today -- is decided by the path clauses)."""
    from .util import local_callee
    from .c03 import sub_cycles
    facts = ctx.facts

    def is_insert(t):
        p = t["callee"].get("path") or ""
        return "HashMap" in p and last_seg(p) in ("insert", "entry", "extend", "try_insert") and "ClientConnection" in (t["callee"].get("full") or "")

    def is_test(t):
        p = t["callee"].get("path") or ""
        return "HashMap" in p and last_seg(p) == "len" and "ClientConnection" in (t["callee"].get("full") or "")

    tests = {f.name: {bb for bb, t in f.calls() if is_test(t)} for f in facts.fns.values()}
    # a helper that makes the test (is_full(), has_room(), ...) and inserts nothing: calling it is testing
    inserting = {f.name for f in facts.fns.values() if any(is_insert(t) for _bb, t in f.calls())}
    more = True
    while more:
        more = False
        for f in facts.fns.values():
            for bb, t in f.calls():
                g_ = local_callee(t)
                if g_ in tests and tests[g_] and g_ not in inserting and g_ != f.name and not facts.closures_of(g_) and len(facts.fns[g_].cyclic_blocks()) == 0 and bb not in tests[f.name]:
                    if g_.startswith(S) and not g_.startswith(srv.HNC) and g_ != srv.REQUESTS:
                        tests[f.name].add(bb)
                        more = True
    grow = {}
    untested = set()
    changed = True
    while changed:
        changed = False
        for f in facts.fns.values():
            g = set()
            for bb, t in f.calls():
                if is_insert(t) or local_callee(t) in untested:
                    g.add(bb)
            for bi, b in enumerate(f.blocks):
                if bi not in f.reachable or b["cleanup"]:
                    continue
                for s in b["stmts"]:
                    rv = s.get("rv") if s.get("k") == "assign" else None
                    if rv and rv.get("k") == "aggregate" and rv.get("agg") == "closure" and rv.get("path") in untested:
                        g.add(bi)
            if g != grow.get(f.name, set()):
                grow[f.name] = g
                changed = True
            if g and not tests[f.name] and f.name not in untested:
                untested.add(f.name)
                changed = True
    n = 0
    for name, g in sorted(grow.items()):
        if not g:
            continue
        f = facts.fns[name]
        ctx.touched(f)
        n += 1
        stale = set()
        for comp in sub_cycles(f, set(f.reachable) - tests[name]):
            stale |= set(comp) & g
        bb = min(stale) if stale else min(g)
        ctx.ob("R10.1", "insert|fresh-test-per-insert|" + name, not stale, "no cycle of %s leads from one growth of the connection map to the next without testing connections.len() again (%d growing block(s), %d testing block(s))" % (name, len(g), len(tests[name])), f.loc(bb))
    ctx.ob("R10.1", "insert|fresh-test-per-insert|floor", n >= 1, "%d function(s) contain code that grows the connection map" % n)


def refusal(ctx):
    facts = ctx.facts
    fn, lv = leaves(ctx, srv.REQUESTS)
    sdiscr = {n: d for d, n in facts.variant_discr("common::ServerError").items()}
    n = 0
    for lf in lv:
        is_full = any(t[0] == "discr" and look(t[1])[0] == "field" and look(t[1])[1][0] == "downcast" and is_call(look(look(t[1])[1][1]), srv.HNC) and c == ("eq", sdiscr["ServerFull"]) for (t, c, _b) in lf.conds)
        if not is_full:
            continue
        n += 1
        acc = calls(lf, "accept")
        bad = calls(lf, S + "epoll_add", "insert")
        # the accepted stream handed to a closure: `.and_then(|(stream, _)| ..)`, or `.map(|(stream, _)| ..)` when the outcome of
        # the courtesy write is deliberately not propagated (a refused client that has left must not fail the poll: D4)
        thens = [e for e in lf.events if e[0] == "call" and (last_seg(e[3]) == "and_then" or (last_seg(e[3]) == "map" and "Result" in e[3] and len(e[4][2]) == 2 and look(e[4][2][1])[0] == "closure" and any(is_call(x, "accept") for x in subterms(e[4][2][0]) if isinstance(x, tuple))))]
        # a closure that calls nothing (`.map(|_| ())`) is plumbing, not a user of the stream
        def _calls_something(ev):
            c_ = look(ev[4][2][1])
            return not (c_[0] == "closure" and c_[1] in facts.fns and not list(facts.fns[c_[1]].calls()))
        thens = [e for e in thens if _calls_something(e)]
        ok = len(acc) == 1 and not bad and len(thens) <= 1
        wrote = False
        if ok and not thens:
            # written out in sequence (possibly in a helper): accept()?; stream.write(MESSAGE)?; the stream
            # is a local that nothing else receives, so it is dropped (= closed) when its scope ends
            from .c06 import direct_subterms
            def from_accept(t):
                for st_ in direct_subterms(t):
                    if isinstance(st_, tuple) and st_:
                        src = payload_of(st_)
                        if src is not None and is_call(src, "accept"):
                            return True
                return False
            accepted = None
            for (t, c, _b) in lf.conds:
                if t[0] != "discr":
                    continue
                x = look(t[1])
                viabranch = is_call(x, "branch")
                if viabranch:
                    x = look(x[2][0])
                while is_call(x, "map_err") and x[2]:
                    x = look(x[2][0])
                if is_call(x, "accept"):
                    accepted = (c == ("eq", 0))
            if accepted is None:
                ok = False
            elif accepted:
                users = [e for e in lf.events if e[0] == "call" and any(from_accept(a) for a in e[4][2])]
                w = [e for e in users if last_seg(e[3]) == "write"]
                ok = len(w) == 1 and len(users) == 1 and look(w[0][4][2][1]) in (("static", "server::SERVER_FULL_ERROR_MESSAGE"), ("deref", ("static", "server::SERVER_FULL_ERROR_MESSAGE")))
                wrote = ok
            else:
                wrote = not calls(lf, "write")   # nothing was accepted: nothing to write to
        elif ok:
            clo = look(thens[0][4][2][1])
            src = look(thens[0][4][2][0])
            ok = clo[0] == "closure" and is_call(src, "map_err") and is_call(look(src[2][0]), "accept")
            if ok:
                fc, lc = leaves(ctx, clo[1])
                for l2 in lc:
                    w = calls(l2, "write")
                    if len(w) == 1 and look(w[0][4][2][1]) in (("static", "server::SERVER_FULL_ERROR_MESSAGE"), ("deref", ("static", "server::SERVER_FULL_ERROR_MESSAGE"))):
                        tgt = look(w[0][4][2][0])
                        wrote = tgt[0] == "field" and look(tgt[1]) == ("arg", 2)
        ctx.ob("R10.2", "refusal|accept-write-drop", ok and wrote, "ServerFull: one accept, one write of SERVER_FULL_ERROR_MESSAGE to the accepted stream (moved into the closure and dropped), no epoll_add, no insertion", fn.loc(lf.bb))
    ctx.ob("R10.2", "floor", n >= 1, "%d ServerFull path(s) in requests()" % n)


def message(ctx):
    b = ctx.facts.const_bytes("server::SERVER_FULL_ERROR_MESSAGE")
    head, sep, body = b.partition(b"\r\n\r\n")
    lines = head.split(b"\r\n")
    ctx.ob("R10.3", "status-line", lines[0] in (b"HTTP/1.1 503", b"HTTP/1.1 503 ") or lines[0].startswith(b"HTTP/1.1 503 "), "status line %r" % lines[0])
    hs = {}
    for l in lines[1:]:
        k, _, v = l.partition(b":")
        hs[k.strip().lower()] = v.strip()
    ctx.ob("R10.3", "connection-close", hs.get(b"connection") == b"close", "Connection: %r" % hs.get(b"connection"))
    cl = hs.get(b"content-length")
    ctx.ob("R10.3", "content-length-matches-body", sep == b"\r\n\r\n" and cl is not None and cl.isdigit() and int(cl) == len(body), "Content-Length %r vs actual body length %d" % (cl, len(body)))
    ctx.ob("R10.3", "body-40-bytes-json", len(body) == 40 and body.startswith(b"{") and body.endswith(b"}"), "body %r (%d bytes)" % (body, len(body)))


def leaks(ctx):
    n = 0
    for f in ctx.facts.fns.values():
        if f.d["span"]["file"] not in ("src/server.rs", "src/connection.rs", "src/request.rs"):
            continue
        for bb, t in f.calls():
            n += 1
            p = t["callee"].get("path") or ""
            if last_seg(p) in LEAKS or "ManuallyDrop" in p or p.endswith("mem::forget"):
                ctx.fail("R10.5", "leak-api|%s|%s" % (f.name, last_seg(p)), "%s calls %s: an owned descriptor can outlive its owner" % (f.name, p), f.loc(bb))
    ctx.ob("R10.5", "scanned", n >= 300, "%d call sites in server.rs/connection.rs/request.rs scanned for forget/into_raw_fd/leak/ManuallyDrop (floor 300)" % n)


def sweep(ctx):
    fn, lv = leaves(ctx, srv.REQUESTS)
    n = 0
    for lf in lv:
        rk = ret_kind(lf)
        if rk and rk[0] == "Ok":
            n += 1
            rt = [e for e in lf.events if e[0] == "call" and last_seg(e[3]) == "retain" and is_connections(e[4][2][0])]
            if not rt and srv.dead_sweep(ctx.facts, lf) is not None:
                rt = [None]     # the two-step sweep (collect the done ones, then remove each): R10.4 checks the removals
            ctx.ob("R10.6", "sweep-before-ok", len(rt) == 1, "requests() returns Ok only after the sweep (retain) ran", fn.loc(lf.bb))
    ctx.ob("R10.6", "floor", n >= 1, "%d Ok path(s)" % n)


def no_shadowing(ctx, rule):
    """Method resolution prefers a trait method whose receiver matches one probe step earlier (`&mut self` on a
    `&mut ClientConnection`) over the inherent method of the same name: a crate-local trait impl for a server /
    connection type that reuses the name of one of its inherent methods silently replaces it at unchanged call sites."""
    facts = ctx.facts
    inherent = {}
    for name in facts.fns:
        if name.startswith("<"):
            continue
        parts = name.split("::")
        if len(parts) >= 3 and not name.endswith("}"):
            inherent.setdefault("::".join(parts[:-1]).replace("::<T>", ""), set()).add(parts[-1])
    n = 0
    for name in sorted(facts.fns):
        if not name.startswith("<") or " as " not in name or name.endswith("}"):
            continue
        head, meth = name.rsplit(">::", 1)
        ty, tr = head[1:].split(" as ", 1)
        if tr.split("::")[0] in ("std", "core", "alloc"):
            continue        # a std trait (Display, Drop, From ...): not a name the crate can collide with on purpose
        tyk = ty.split("<")[0]
        n += 1
        clash = meth in inherent.get(tyk, set())
        ctx.ob(rule, "no-shadowing|%s" % name, not clash, "%s: a crate-local trait gives %s a method named like its inherent %s::%s; unchanged call sites may resolve to the trait method" % (name, tyk, tyk, meth), facts.fns[name].loc(0))
    ctx.ob(rule, "no-shadowing|scanned", True, "%d crate-local trait method(s) on crate types compared with the inherent methods" % n)


def is_done(ctx, rule):
    no_shadowing(ctx, rule)
    """On every path on which is_done() may return true, the three facts are established -- by a test on the path or by the
    returned expression itself (a conjunction): state == Closed, !pending_write(), in_flight_response_count == 0.
    Spellings: `a && b && c`, a `matches!` over the tuple, a helper of a private sub-struct traversed inline."""
    fn, lv = leaves(ctx, CC + "is_done", lower=True)
    true_paths = 0

    def atoms(t, c, out):
        """what the condition (t, c) establishes"""
        x = srv.state_test(ctx.facts, t, c)
        if x:
            out["state"] = x[1] if out.get("state") is None else (out["state"] & x[1])
            return
        y = look(t)
        neg = False
        while y[0] == "un" and y[1] == "Not":
            y, neg = look(y[2]), not neg
        tv = truth(c)
        if is_call(y, conn.P + "pending_write") and tv is not None:
            out["pending"] = tv != neg
            return
        fld = lambda z: look(z)[0] == "field" and look(z)[3] == "in_flight_response_count"
        if y[0] == "bin" and y[1] in ("Eq", "Ne") and tv is not None and ((fld(y[2]) and const_of(y[3]) == 0) or (fld(y[3]) and const_of(y[2]) == 0)):
            out["zero"] = (tv != neg) if y[1] == "Eq" else (tv == neg)
            return
        if fld(y) and not neg:
            if c == ("eq", 0):
                out["zero"] = True
            elif c[0] == "ne" and 0 in c[1]:
                out["zero"] = False
            return
        if y[0] == "bin" and y[1] in ("BitAnd",) and tv is True and not neg:
            atoms(y[2], ("ne", (0,)), out)
            atoms(y[3], ("ne", (0,)), out)

    for lf in lv:
        if lf.kind != "return":
            continue
        r = look(lf.ret())
        if r == ("const", False):
            continue
        true_paths += 1
        est = {}
        for (t, c, _b) in lf.conds:
            atoms(t, c, est)
        if r != ("const", True):
            atoms(r, ("ne", (0,)), est)      # the value returned is true
        st, pw, zero = est.get("state"), est.get("pending"), est.get("zero")
        ctx.ob(rule, "is_done|conditions", st == {"Closed"} and pw is False and zero is True, "is_done() can be true only with state == Closed (%s), !pending_write() (%s) and in_flight_response_count == 0 (%s)" % (sorted(st) if st else st, pw, zero), fn.loc(lf.bb))
    ctx.ob(rule, "is_done|one-true-path", true_paths == 1, "%d path(s) on which is_done() may be true" % true_paths, fn.loc(0))
