"""C11 -- a rejected request is never delivered later; parsing restarts clean after errors."""
from ..core import AnalysisError, term_s, subterms
from ..fmtdecode import format_pieces
from ..paths import PathEnum
from ..shapes import Shapes, TOP, shape_s
from . import srv, conn
from .conn import leaves, ret_kind, self_field
from .srv import CC, calls
from .util import const_of, is_call, last_seg, look, norm, truth, option_is_some

EXPLANATION = (
    "Static decision of the reset discipline: for every path on which the public "
    "HttpConnection::try_read can return Err(ParseError(_)) (path-sensitive dataflow over try_read plus "
    "constructor-shape analysis of the returned value, refined by the branch conditions of the path), "
    "the parser fields that are live into a fresh parse -- state, carry-over cursor, body accumulator, "
    "remaining-bytes counter, received descriptors, pending request -- are re-initialised to the values "
    "HttpConnection::new gives them after the last call that can write them; a helper is accepted as a "
    "reset only if every one of its paths performs exactly such writes.  At the server, the ParseError "
    "arm of ClientConnection::read discards the already parsed requests, queues exactly one 400 built "
    "from the error's Display, keeps the connection open and yields nothing from that read. "
    "The field list is closed over the struct: any further field written on the read side must be reset too; the "
    "parsers read the buffer only through slices with an explicit upper end, so stale bytes of a rejected request are out of reach. "
    "Under try_read the stream is read only by read_bytes' one receive and those bytes are what the parsers see, so nothing sent after a rejected request is dropped unparsed. "
    "Decides these clauses; equality with a fresh connection on all continuations follows by argument."
)
TRUSTED = ["Vec::clear / Option::take / mem::take reset their receiver"]
ASSUMPTIONS = ["the parser reads only bytes at or after the carry-over cursor (C01 R01.x)"]
NOT_DECIDED = "equality with a fresh connection on all continuations (follows from R11.1 by argument, not enumerated)"

# field -> predicate on the value assigned that counts as re-initialisation
BASE_FIELDS = ("state", "read_cursor", "body_vec", "body_bytes_to_be_read", "files", "pending_request")
FIELDS = BASE_FIELDS
# fields of HttpConnection that are not state of the request parser (frozen; one reason each)
NOT_PARSER_STATE = {
    "stream": "the transport",
    "buffer": "raw bytes; what is live in it is delimited by read_cursor, which is reset",
    "parsed_requests": "requests already accepted (C01 R01.4: only push_back / pop_front)",
    "response_queue": "output side (C06)",
    "response_buffer": "output side (C06)",
    "payload_max_size": "configuration, written by its setter only",
}


def parser_fields(ctx):
    """The listed parser fields plus every field of HttpConnection that is not in the frozen list above and is
    written by code running under try_read: such a field is state a rejected request can leave behind."""
    from .fields import field_writers
    from .util import roots_of
    facts = ctx.facts
    extra = []
    for f in [x["name"] for x in facts.struct_fields(conn.HC)]:
        if f in BASE_FIELDS or f in NOT_PARSER_STATE:
            continue
        if (conn.HC, f) in facts.embeds:
            # a private sub-struct grouping frozen fields: its members are judged under their frozen names
            roles = [r for (S_, _f), (P_, r) in facts.aliases.items() if S_ == facts.embeds[(conn.HC, f)]]
            ctx.ob("R11.1", "grouped-field|%s" % f, True, "HttpConnection.%s groups the frozen fields %s" % (f, sorted(roles)))
            continue        # every member is a frozen field: parser state or not, it is judged under its own name
        read_side = False
        for w in field_writers(facts, conn.HC, f):
            if w[0] == conn.P + "new":
                continue
            roots = roots_of(facts, w[0]) or {w[0]}
            if any(r.startswith(conn.P) and last_seg(r) in ("try_read", "read_and_parse", "parse_request_line", "parse_headers", "parse_body", "read_bytes", "recv_with_fds", "shift_buffer_left", "reset_parser") for r in roots):
                read_side = True
        ctx.ob("R11.1", "new-field|%s" % f, True, "HttpConnection.%s is not in the frozen field list: %s" % (f, "written on the read side, so it must be re-initialised on a ParseError like the other parser fields" if read_side else "never written on the read side, so a rejected request cannot leave anything in it"))
        if read_side:
            extra.append(f)
    return BASE_FIELDS + tuple(extra)


def run(ctx):
    ctx.rule("R11.1", "on every exit of try_read that can carry a ParseError the parser fields are re-initialised after their last possible write")
    ctx.rule("R11.2", "server: the ParseError arm discards parsed requests, queues exactly one 400 from the error's Display, stays open, yields nothing")
    ctx.guarded("R11.1", "reset", lambda: reset(ctx))
    ctx.guarded("R11.2", "server", lambda: server_400_arm(ctx, "R11.2"))
    ctx.rule("R11.3", "the buffer keeps the bytes of a rejected request beyond what was received since: the parsers read it only through slices with an explicit upper end, and those ends are the received end / the located CRLF / start + remaining (= C02 R02.5, C01 R01.5)")
    ctx.guarded("R11.3", "bounded", lambda: bounded_buffer_reads(ctx, "R11.3"))
    from .c06 import _Remap
    from . import c01, c02
    ctx.guarded("R11.3", "lines", lambda: c02.lines(_Remap(ctx, "R11.3")))
    ctx.guarded("R11.3", "body", lambda: c01.body(_Remap(ctx, "R11.3")))
    ctx.rule("R11.5", "nothing of a request can survive outside the connection: the crate keeps no thread-local or process-wide mutable state (no std::thread::LocalKey access, no std::sync::OnceLock/Mutex/atomic static), so what the reset re-initialises is all there is")
    ctx.guarded("R11.5", "no-global-state", lambda: no_global_state(ctx, "R11.5"))
    ctx.rule("R11.4", "every byte taken from the stream after a rejection reaches the parsers: under try_read the stream is touched only by the one receive of read_bytes, whose bytes land in the window the parsers are given (= C03 R03.1, C01 R01.6) -- a clean-up that reads and drops what is queued also drops the well-formed requests behind the rejected one")
    from . import c03
    ctx.guarded("R11.4", "stream", lambda: c03.stream(_Remap(ctx, "R11.4")))
    ctx.guarded("R11.4", "window", lambda: c01.window(_Remap(ctx, "R11.4")))


def no_global_state(ctx, rule):
    facts = ctx.facts
    bad = []
    n = 0
    for f in facts.fns.values():
        for bb, t in f.calls():
            n += 1
            p = t["callee"].get("path") or ""
            if p.startswith(("std::thread::LocalKey", "std::thread::local_impl", "std::sync::OnceLock", "std::sync::LazyLock", "std::sync::Mutex", "std::sync::RwLock", "std::cell::OnceCell", "std::sync::atomic")) or "::thread_local" in p:
                bad.append((f.name, p, bb))
    for (fname, p, bb) in bad[:6]:
        ctx.fail(rule, "no-global-state|%s|%s" % (fname, p.rsplit("::", 2)[-2] if p.count("::") >= 2 else p), "%s calls %s: state that outlives a request (and a connection) is not re-initialised by the parser reset" % (fname, p), facts.fns[fname].loc(bb))
    ctx.ob(rule, "no-global-state", not bad, "no thread-local / lock / once-cell / atomic access among the crate's %d call sites" % n)


def initial_values(ctx):
    """Values HttpConnection::new gives to the parser fields."""
    fn, lv = leaves(ctx, conn.P + "new")
    names = [f["name"] for f in ctx.facts.struct_fields(conn.HC)]
    init = {}
    for lf in lv:
        r = lf.ret()
        if r[0] != "agg" or r[1] != conn.HC:
            raise AnalysisError("HttpConnection::new does not return a literal")
        for f in FIELDS:
            from .util import struct_field_value
            v_ = struct_field_value(ctx.facts, r, f)
            if v_ is None:
                raise AnalysisError("HttpConnection::new: initial value of %s cannot be read from the literal" % f)
            init[f] = v_
    return init


def is_reset_value(field, v, init):
    v = look(v)
    i = look(init[field])
    if norm(v) == norm(i):
        return True
    if field in ("body_vec", "files"):
        return is_call(v, "new", "default", "with_capacity") or (v[0] == "call" and "vec" in v[1].lower() and not v[2])
    if field == "pending_request":
        return v[0] == "agg" and v[2] == "None"
    return False


def reset_events(lf, init, facts, reset_fns):
    """Index -> set of fields reset by event i; and index -> set of fields possibly written non-reset."""
    resets, dirty = {}, {}
    for i, e in enumerate(lf.events):
        if e[0] == "assign" and e[3].startswith("(*_1)."):
            f = e[3][len("(*_1)."):].split(".")[0]
            if f in FIELDS:
                if e[3] == "(*_1).%s" % f and is_reset_value(f, e[4], init):
                    resets.setdefault(i, set()).add(f)
                else:
                    dirty.setdefault(i, set()).add(f)
        elif e[0] == "call":
            path, ct = e[3], e[4]
            args = ct[2]
            if path in reset_fns and args and look(args[0]) == ("arg", 1):
                resets.setdefault(i, set()).update(reset_fns[path])
            elif path in facts.fns and args and any(look(a) == ("arg", 1) and True for a in args) and takes_mut_self(facts, path):
                dirty.setdefault(i, set()).update(FIELDS)
            else:
                # std call on a field of self by &mut
                for a in args[:1]:
                    x = look(a)
                    if x[0] == "field" and x[2] == conn.HC and x[3] in FIELDS and look(x[1]) == ("arg", 1) and a[0] == "ref" and a[2]:
                        f = x[3]
                        if last_seg(path) == "clear" or (last_seg(path) == "take" and f == "pending_request") or (last_seg(path) == "truncate" and const_of(args[1]) == 0):
                            resets.setdefault(i, set()).add(f)
                        elif last_seg(path) in ("take",) and "mem" in path:
                            resets.setdefault(i, set()).add(f)
                        elif last_seg(path) == "drain" and len(args) == 2 and look(args[1])[0] == "agg" and look(args[1])[1].startswith("std::ops::RangeFull"):
                            resets.setdefault(i, set()).add(f)      # drain(..) leaves the vector empty (whatever is done with the items)
                        else:
                            dirty.setdefault(i, set()).add(f)
    return resets, dirty


def takes_mut_self(facts, path):
    fn = facts.fns[path]
    if fn.nargs < 1:
        return False
    ty = fn.locals[1]["ty"]
    return ty.get("k") == "ref" and ty.get("mut") and ty["inner"].get("path") == conn.HC


def find_reset_fns(ctx, init):
    """Local methods of HttpConnection whose every path re-initialises a fixed set of parser fields and
    writes nothing else of them."""
    out = {}
    for name, fn in ctx.facts.fns.items():
        if not name.startswith(conn.P) or name in (conn.TRY_READ, conn.P + "new"):
            continue
        if not takes_mut_self(ctx.facts, name) or fn.nargs != 1:
            continue
        try:
            _, lv = leaves(ctx, name)
        except AnalysisError:
            continue
        common = None
        ok = True
        for lf in lv:
            if lf.kind != "return":
                ok = False
                break
            r, d = reset_events(lf, init, ctx.facts, {})
            if d:
                ok = False
                break
            s = set()
            for v in r.values():
                s |= v
            common = s if common is None else (common & s)
        if ok and common:
            out[name] = common
    return out


def refine_can_be_parse_error(facts, Sh, fn, lf):
    """Can the value returned on this leaf be Err(ParseError(_)), given the path's conditions?"""
    r = lf.ret()
    shapes = Sh.eval(r, fn)
    cdiscr = facts.variant_discr("common::ConnectionError")
    # conditions on the very value returned
    base = look(r)
    keep = set()
    for s in shapes:
        if s == TOP:
            keep.add(s)
            continue
        if s[0] != "Err":
            continue
        e = s[1] if len(s) > 1 else TOP
        if e != TOP and e[0] != "ParseError":
            continue
        keep.add(s)
    if not keep:
        return False
    pe = [d for d, n in cdiscr.items() if n == "ParseError"][0]
    errval = look(base[3][0]) if base[0] == "agg" and base[2] == "Err" and base[3] else None
    for (t, c, _b) in lf.conds:
        if t[0] != "discr":
            continue
        x = look(t[1])
        if errval is not None and norm(x) == norm(errval):
            # Err(e) is returned and this path has tested which error e is
            if c[0] == "eq" and c[1] != pe:
                return False
            if c[0] == "ne" and pe in c[1]:
                return False
        if norm(x) == norm(base):
            if c == ("eq", 0) or (c[0] == "ne" and 1 in c[1]):
                return False
        if x[0] == "field" and x[1][0] == "downcast" and x[1][2] == "Err" and norm(look(x[1][1])) == norm(base):
            pe = [d for d, n in cdiscr.items() if n == "ParseError"][0]
            if c[0] == "eq" and c[1] != pe:
                return False
            if c[0] == "ne" and pe in c[1]:
                return False
    return True


def reset(ctx, only_fields=None):
    global FIELDS
    facts = ctx.facts
    FIELDS = parser_fields(ctx)
    init = initial_values(ctx)
    reset_fns = find_reset_fns(ctx, init)
    ctx.note("reset helpers recognised: %s" % {k.split("::")[-1]: sorted(v) for k, v in reset_fns.items()})
    fn, lv = leaves(ctx, conn.TRY_READ, lower=True)    # a reset inside a map_err / or_else closure is a reset of try_read
    Sh = Shapes(facts)
    n = 0
    bad = {}
    for lf in lv:
        if lf.kind != "return":
            continue
        if not refine_can_be_parse_error(facts, Sh, fn, lf):
            continue
        n += 1
        resets, dirty = reset_events(lf, init, facts, reset_fns)
        # which call produced the error (for the report key)
        r = lf.ret()
        src = "?"
        for s in subterms(r):
            if isinstance(s, tuple) and s and s[0] == "call" and s[1] in facts.fns:
                src = s[1].split("::")[-1]
                break
        missing = []
        for f in FIELDS:
            last_dirty = max([i for i, fs in dirty.items() if f in fs], default=-1)
            last_reset = max([i for i, fs in resets.items() if f in fs], default=-1)
            if f == "pending_request" and last_dirty == -1 and last_reset == -1:
                missing.append(f)
            elif last_reset < last_dirty or last_reset == -1:
                missing.append(f)
        key = "exit-via-%s" % src
        if only_fields is not None:
            missing = [f for f in missing if f in only_fields]
        if missing:
            bad.setdefault(key, (lf, missing))
        else:
            ctx.ob("R11.1", key + "|reset", True, "ParseError exit through %s: all parser fields re-initialised after their last possible write" % src, fn.loc(lf.bb))
    for key, (lf, missing) in sorted(bad.items()):
        ctx.fail("R11.1", key + "|not-reset", "try_read can return Err(ParseError) on this path while %s keep what the rejected request left in them: the next bytes are parsed as a continuation of the rejected request" % ", ".join(missing), fn.loc(lf.bb), witness="blocks %s" % lf.trace[-8:])
    ctx.ob("R11.1", "floor", n >= 1, "%d path(s) of try_read can carry a ParseError (floor 1)" % n, fn.loc(0))
    # the parser proper must be able to fail with a ParseError at all (otherwise the rule is vacuous)
    pe = 0
    for name in (conn.PARSE_RL, conn.PARSE_H, conn.PARSE_B):
        f = facts.fn(name)
        for s in Sh.return_set(f):
            if s != TOP and s[0] == "Err" and s[1] != TOP and s[1][0] == "ParseError":
                pe += 1
    ctx.ob("R11.1", "parse-errors-exist", pe >= 10, "%d distinct ParseError shapes can leave the three line/body parsers (floor 10)" % pe)


def bounded_buffer_reads(ctx, rule):
    """Every use of self.buffer in the three parsers is buffer[a..b] (a Range / RangeTo with an upper end)."""
    n = 0
    bsz = ctx.facts.const_int("connection::BUFFER_SIZE")
    for name in (conn.PARSE_RL, conn.PARSE_H, conn.PARSE_B):
        fn, lv = leaves(ctx, name)
        seen = set()
        for lf in lv:
            for e in lf.events:
                if e[0] != "call":
                    continue
                args = e[4][2]
                for i, a in enumerate(args):
                    x = look(a)
                    if not (x[0] == "field" and x[2] == conn.HC and x[3] == "buffer"):
                        continue
                    key = (e[3], int(e[1]), getattr(e[1], "fn", None) and e[1].fn.name)
                    if key in seen:
                        continue
                    seen.add(key)
                    n += 1
                    ok = last_seg(e[3]) in ("len", "is_empty", "fill", "copy_within")      # the capacity, not the contents; overwriting / moving inside the buffer hands no byte to a parser
                    if not ok:
                        # the whole buffer is live on a path that established end == BUFFER_SIZE
                        for (t, c, _b) in lf.conds[:]:
                            if t[0] == "bin" and t[1] == "Eq" and truth(c) is True and bsz in (const_of(t[2]), const_of(t[3])) and any(look(z)[0] == "arg" for z in (t[2], t[3])):
                                ok = True
                        if not ok:
                            # ... however that was spelled (`end - start == BUFFER_SIZE` under `start == 0`, a helper): linear arithmetic
                            from ..lin import Lin, State
                            from ..panics import Tr
                            st = State()
                            tr = Tr(ctx.facts, fn, st)
                            for e2 in lf.events:
                                if e2[0] == "cond":
                                    tr.assume_cond(e2[3], e2[4])
                                if e2 is e:
                                    break
                            ok = fn.nargs >= 3 and st.entails_eq(tr.lin(("arg", 3)) - Lin.const(bsz))
                    if not ok and last_seg(e[3]) in ("index", "index_mut", "get", "get_mut") and i == 0 and len(args) == 2:
                        r = look(args[1])
                        ok = r[0] == "agg" and (r[1].startswith("std::ops::Range::") or r[1].startswith("std::ops::RangeTo") or r[1].startswith("std::ops::RangeInclusive") or r[1] in ("std::ops::Range", "std::ops::RangeTo", "std::ops::RangeInclusive", "std::ops::RangeToInclusive"))
                    ctx.ob(rule, "bounded|%s|%s" % (last_seg(name), last_seg(e[3])), ok, "%s uses self.buffer through %s: only a slice with an explicit upper end keeps stale bytes out of reach" % (last_seg(name), term_s(e[4])[:120]), fn.loc(e[1]))
    ctx.ob(rule, "bounded|floor", n >= 6, "%d uses of self.buffer in the three parsers inspected (floor 6)" % n)


def server_400_arm(ctx, rule):
    facts = ctx.facts
    fn, lv = leaves(ctx, CC + "read")
    cdiscr = {n: d for d, n in facts.variant_discr("common::ConnectionError").items()}
    n = 0
    for lf in lv:
        arm = None
        errterm = None
        for (t, c, _b) in lf.conds:
            x = look(t[1]) if t[0] == "discr" else None
            if x is not None and x[0] == "field" and x[1][0] == "downcast" and x[1][2] == "Err" and is_call(look(x[1][1]), conn.TRY_READ):
                if c[0] == "eq":
                    arm = c[1]
                    errterm = x
        if arm != cdiscr["ParseError"]:
            continue
        if lf.kind == "loop":
            continue
        n += 1
        rk = ret_kind(lf)
        news = calls(lf, "response::Response::new")
        enq = calls(lf, conn.P + "enqueue_response")
        pops = calls(lf, conn.P + "pop_parsed_request")
        closed = any(e[0] == "assign" and e[3] == "(*_1).state" and srv.state_const(facts, e[4]) == "Closed" for e in lf.events)
        ok_new = len(news) == 1 and look(news[0][4][2][1])[0] == "agg" and look(news[0][4][2][1])[2] == "BadRequest"
        ok_enq = len(enq) == 1
        body_ok = False
        for e in calls(lf, "response::Response::set_body"):
            b = look(e[4][2][1])
            if is_call(b, "common::Body::new"):
                try:
                    ps = format_pieces(b[2][0])
                    for p in ps:
                        if p[0] == "arg" and p[2] == "new_display":
                            a = look(p[1])
                            if a[0] == "field" and a[1][0] == "downcast" and a[1][2] == "ParseError" and norm(look(a[1][1])) == norm(errterm):
                                body_ok = True
                except AnalysisError:
                    pass
        if rk and rk[0] == "prop":
            continue
        if rk and rk[0] == "Err" and look(rk[1])[0] == "agg" and look(rk[1])[2] == "Overflow":
            continue     # the counter's overflow guard written as an explicit match (C09 R09.1/R09.11 deal with it)
        yields_nothing = rk is not None and rk[0] == "Ok" and srv.read_yield(facts, lf)["empty"]
        drained = len(pops) >= 1 or srv.from_fn_drains(facts, lf, ("for_each", "count", "last", "extend", "collect", "fold"))
        ctx.ob(rule, "400|one-bad-request-queued", ok_new and ok_enq, "ParseError arm: exactly one Response::new(_, BadRequest) is queued (new=%d, enqueue=%d)" % (len(news), len(enq)), fn.loc(lf.bb))
        ctx.ob(rule, "400|body-is-error-display", body_ok, "its body is formatted from Display of the ParseError payload matched", fn.loc(lf.bb))
        ctx.ob(rule, "400|stays-open", not closed, "the connection is not closed by a parse error", fn.loc(lf.bb))
        ctx.ob(rule, "400|yields-nothing", yields_nothing, "no request is yielded from that read", fn.loc(lf.bb))
        ctx.ob(rule, "400|earlier-requests-discarded", drained, "requests parsed before the error are popped and dropped", fn.loc(lf.bb))
    ctx.ob(rule, "400|floor", n >= 2, "%d ParseError-arm path(s) inspected (floor 2)" % n)
