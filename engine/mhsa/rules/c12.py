"""C12 -- descriptors passed with a request are delivered once, in order, never leaked."""
from ..core import AnalysisError, term_s, subterms
from . import conn
from .c06 import fifo
from .conn import leaves, ret_kind, self_field
from .util import payload_of, result_outcome, const_of, is_call, last_seg, look, norm, truth, option_is_some

EXPLANATION = (
    "Static decision of what Rust's ownership does not already give: there is exactly one "
    "File::from_raw_fd in the crate, applied once to each of the first fd_count elements (in order) of "
    "the very array the receive call filled, the array holding SCM_MAX_FD = 253 entries; the received "
    "files are appended to the connection's list on every path that received them, including the path "
    "that then reports end of stream; a completed request is queued only after the whole list was moved "
    "into it by an order-preserving chain (drain(..) + collect); the list is mutated only by extend / "
    "drain / clear, taken only by the completion step and the parser reset, and a request under construction "
    "starts with an empty list (the completion step assigns the field); none of try_clone, dup, into_raw_fd, as_raw_fd->from_raw_fd, mem::forget, "
    "ManuallyDrop is applied in connection.rs / request.rs; between the receive and the wrapping the descriptor array is left alone "
    "(no libc call, no store into it), and the received files / Request.files are written only by the read side. With File: !Clone and drop-closes these "
    "imply exactly-once, ordered, leak-free delivery."
)
TRUSTED = ["ScmSocket::recv_with_fds stores fd_count <= fds.len() descriptors in order", "File is !Clone and closes on drop", "Vec::drain(..)/extend/collect preserve order"]
ASSUMPTIONS = []
NOT_DECIDED = "nothing further at this level; descriptors pending at a parse error are C11's"
BAD = ("try_clone", "dup", "dup2", "into_raw_fd", "forget", "leak", "from_raw_fd", "as_raw_fd", "into_raw")
REORDER = ("rev", "sort", "sort_by", "sort_unstable", "swap", "filter", "skip", "step_by", "reverse", "dedup", "retain", "take", "swap_remove", "pop", "rotate_left", "rotate_right")

POSITIVE_CONTROLS = [("R12.4", "apis")]


def run(ctx):
    ctx.rule("R12.1", "one File::from_raw_fd, mapped once over the first fd_count entries of the array the receive filled (253 entries)")
    ctx.rule("R12.2", "received files are appended to self.files on every receiving path, before the zero-byte (ConnectionClosed) return")
    ctx.rule("R12.3", "a completed request is queued only after the whole list was moved into it")
    ctx.rule("R12.4", "no duplication / leak API on descriptors in connection.rs / request.rs")
    ctx.rule("R12.5", "the chain from the list to Request.files preserves order; the list is mutated only by extend/drain/clear")
    ctx.rule("R12.6", "every receive goes through the descriptor-aware wrapper: the only call that touches the stream under try_read is the one recvmsg (a plain read would make the kernel discard descriptors queued with the bytes) (= C03 R03.1)")
    from .c06 import _Remap
    from . import c03
    ctx.guarded("R12.6", "stream", lambda: c03.stream(_Remap(ctx, "R12.6")))
    ctx.rule("R12.7", "the received files and Request.files are written only by the read side, the latter only where a request is created and at the hand-over on completion (= C01 R01.10): descriptors adopted earlier would be overwritten, and so closed, by that hand-over")
    from . import c01
    ctx.guarded("R12.7", "read-side-owns", lambda: c01.read_side_owns(_Remap(ctx, "R12.7"), "R01.10", fields=("files",)))
    ctx.rule("R12.8", "between the receive and the wrapping the descriptor array is left alone: no foreign call (fcntl, dup, close) and no store into it on the receive path -- a descriptor swapped for a duplicate leaves the original open for ever")
    ctx.guarded("R12.8", "array-untouched", lambda: array_untouched(ctx))
    ctx.guarded("R12.1", "wrap", lambda: wrap(ctx))
    ctx.guarded("R12.2", "append", lambda: append(ctx))
    ctx.guarded("R12.3", "move", lambda: move(ctx))
    ctx.guarded("R12.4", "apis", lambda: apis(ctx))
    ctx.guarded("R12.5", "mutators", lambda: fifo(ctx, "R12.5", "files", {"extend", "drain", "clear", "append", "extend_from_slice", "take", "push", "reserve", "reserve_exact"}, floor=2))


def array_untouched(ctx):
    facts = ctx.facts
    n = 0
    for name in (conn.RECV, conn.READ_BYTES):
        if not facts.has_fn(name):
            continue
        f = facts.fn(name)
        ctx.touched(f)
        n += 1
        foreign = sorted({(t["callee"].get("path") or "") for _bb, t in f.calls() if (t["callee"].get("path") or "").startswith("libc::")})
        ctx.ob("R12.8", "no-foreign-call|%s" % name.rsplit("::", 1)[-1], not foreign, "%s makes no libc call of its own (found %s): the receive goes through ScmSocket::recv_with_fds and the descriptors through File::from_raw_fd" % (name.rsplit("::", 1)[-1], foreign), f.loc(0))
        # stores into a local array of i32 (the descriptor array) other than its initialisation
        arrays = [i for i, l in enumerate(f.locals) if (l["ty"].get("k") == "array" and (l["ty"].get("elem") or {}).get("s") in ("i32", "std::os::fd::RawFd"))]
        stores = []
        for bi, si, place, rv in f.assigns():
            if place["proj"] and place["local"] in arrays:
                stores.append(bi)
            if place["proj"] and place["proj"][0]["k"] == "deref":
                ty = f.locals[place["local"]]["ty"]
                if ty.get("k") == "ref" and ty.get("mut") and (ty.get("to") or ty.get("inner") or {}).get("s") == "i32":
                    stores.append(bi)
        ctx.ob("R12.8", "no-store-into-the-array|%s" % name.rsplit("::", 1)[-1], not stores, "%s stores nothing into the descriptor array or through a &mut i32 (blocks %s)" % (name.rsplit("::", 1)[-1], sorted(set(stores))[:6]), f.loc(stores[0] if stores else 0))
    ctx.ob("R12.8", "floor", n >= 1, "%d receive-side function(s) inspected" % n)


def wrap(ctx):
    facts = ctx.facts
    sites = []
    for f in facts.fns.values():
        for bb, t in f.calls():
            p = t["callee"].get("path") or ""
            if last_seg(p) == "from_raw_fd":
                sites.append((f.name, bb, (t["callee"].get("self_ty") or {}).get("s")))
    from .util import writer_roots
    conn_sites = [s for s in sites if s[0].startswith(conn.P)]
    ctx.ob("R12.1", "single-from_raw_fd", len(conn_sites) == 1 and conn_sites[0][2] == "std::fs::File" and all(r.startswith(conn.RECV) for r in writer_roots(facts, conn_sites[0][0])), "File::from_raw_fd sites in the connection: %s" % conn_sites)
    others = [s for s in sites if not s[0].startswith(conn.P) and s[2] == "std::fs::File"]
    ctx.ob("R12.1", "no-other-file-from_raw_fd", not others, "other File::from_raw_fd sites: %s" % others)
    scm = facts.const_int("connection::SCM_MAX_FD")
    ctx.ob("R12.1", "SCM_MAX_FD", scm == 253, "SCM_MAX_FD evaluates to %d" % scm)
    fn, lv = conn.receive_leaves(ctx)
    n = 0
    for lf in lv:
        rc = conn.os_receive_calls(lf)
        if not rc:
            continue
        if len(rc) != 1:
            ctx.fail("R12.1", "one-receive", "the receive path makes %d receive calls on one path" % len(rc), fn.loc(lf.bb))
            continue
        R = rc[0][4]
        if result_outcome(lf, R) != "ok" or lf.kind != "return":
            continue
        n += 1
        fds = look(R[2][2])
        while fds[0] == "mut":
            fds = look(fds[1])
        ok_arr = fds[0] == "repeat" and fds[2] == scm and fds[1] == ("const", 0)
        ctx.ob("R12.1", "array-size", ok_arr, "the descriptor array handed to the receive call is [0; SCM_MAX_FD] (%s)" % (fds[:3],), fn.loc(rc[0][1]))
        # what is appended to self.files on this path
        ext = [e for e in lf.events if e[0] == "call" and last_seg(e[3]) in ("extend", "append", "push", "extend_from_slice", "insert", "splice") and self_field(e[4][2][0], "files")]
        if not ext:
            # the wrapped descriptors pushed straight onto self.files, one per iteration of a loop this path ran to exhaustion
            direct = None
            for l in lv:
                if l.kind == "loop":
                    for e in l.events:
                        if e[0] == "call" and last_seg(e[3]) == "push" and "Vec" in e[3] and self_field(e[4][2][0], "files"):
                            direct = e[4][2][0]
            exhausted = any(t[0] == "discr" and is_call(look(t[1]), "next") and option_is_some(c) is False and any(is_call(s_, "take") for s_ in subterms(t) if isinstance(s_, tuple)) for (t, c, _b) in lf.conds)
            if direct is not None and exhausted:
                ok_loop, why = loop_form(ctx, fn, lv, direct, R, fds)
                ctx.ob("R12.1", "chain", ok_loop, "self.files is extended by pushing File::from_raw_fd(*fd) for fd in fds.iter().take(fd_count), in order, and changed by nothing else on the receive path (%s)" % why, fn.loc(lf.bb))
                continue
        if len(ext) != 1 or last_seg(ext[0][3]) not in ("extend", "append"):
            ctx.fail("R12.1", "result-shape", "after a successful receive the wrapped descriptors are not appended to self.files exactly once (%s)" % [last_seg(e[3]) for e in ext], fn.loc(lf.bb))
            continue
        files = _strip_mut(ext[0][4][2][1])
        chain = []
        x = files
        while x[0] == "call" and x[2]:
            chain.append(last_seg(x[1]))
            x = _strip_mut(x[2][0])
        if chain and chain[0] in ("new", "with_capacity"):
            # the same thing written as a loop: for fd in fds.iter().take(fd_count) { files.push(File::from_raw_fd(*fd)) }
            ok_loop, why = loop_form(ctx, fn, lv, files, R, fds)
            ctx.ob("R12.1", "chain", ok_loop, "files is filled by pushing File::from_raw_fd(*fd) for fd in fds.iter().take(fd_count), in order, and changed by nothing else (%s)" % why, fn.loc(lf.bb))
            continue
        # collect(map(take(iter(&fds), fd_count), closure)) -- or the same iterator handed to extend() directly
        ok_chain = chain in (["collect", "map", "take", "iter"], ["map", "take", "iter"]) and x[0] == "repeat"
        ctx.ob("R12.1", "chain", ok_chain, "the files appended are fds.iter().take(fd_count).map(from_raw_fd), in order (chain %s)" % chain, fn.loc(lf.bb))
        if ok_chain:
            mp = files if chain[0] == "map" else _strip_mut(files[2][0])
            tk = _strip_mut(mp[2][0])
            cnt = look(tk[2][1])
            ok_cnt = cnt[0] == "field" and cnt[3] == "1" and payload_of(cnt[1]) is not None and norm(payload_of(cnt[1])) == norm(R)
            ctx.ob("R12.1", "count-is-fd_count", ok_cnt, "take(n) uses the descriptor count the receive call returned", fn.loc(lf.bb))
            clo = look(mp[2][1])
            ok_clo = clo[0] == "closure"
            if ok_clo:
                fc, lc = leaves(ctx, clo[1])
                for l2 in lc:
                    r = look(l2.ret())
                    ok_clo = is_call(r, "from_raw_fd") and look(r[2][0]) in (("deref", ("arg", 2)), ("arg", 2)) and len([e for e in l2.events if e[0] == "call"]) == 1
            ctx.ob("R12.1", "closure-wraps-each-once", ok_clo, "the mapped closure is exactly File::from_raw_fd(*fd)", fn.loc(lf.bb))
    ctx.ob("R12.1", "floor", n >= 1, "%d path(s) of the receive path after a successful receive" % n)


def _strip_mut(t):
    t = look(t)
    while t[0] == "mut":
        t = look(t[1])
    return t


def loop_form(ctx, fn, lv, files, R, fds):
    base = norm(_strip_mut(files))
    n = 0
    why = "no loop found"
    ok = False
    for l in lv:
        if l.kind != "loop":
            continue
        frs = [e for e in l.events if e[0] == "call" and last_seg(e[3]) == "from_raw_fd"]
        if not frs:
            continue
        n += 1
        pushes = [e for e in l.events if e[0] == "call" and last_seg(e[3]) == "push" and "Vec" in e[3]]
        if len(frs) != 1 or len(pushes) != 1:
            return False, "%d from_raw_fd / %d push per iteration" % (len(frs), len(pushes))
        if norm(_strip_mut(pushes[0][4][2][0])) != base or norm(look(pushes[0][4][2][1])) != norm(frs[0][4]):
            return False, "the wrapped descriptor is not what is pushed onto the returned vector"
        src = payload_of(frs[0][4][2][0])
        if src is None or not is_call(src, "next"):
            return False, "from_raw_fd is not applied to the loop's item"
        it = _strip_mut(src[2][0])
        if is_call(it, "into_iter"):
            it = _strip_mut(it[2][0])
        if not (is_call(it, "take") and is_call(look(it[2][0]), "iter")):
            return False, "the loop is not over fds.iter().take(n)"
        arr = _strip_mut(look(it[2][0])[2][0])
        cnt = look(it[2][1])
        if norm(arr) != norm(fds):
            return False, "the loop is not over the descriptor array of the receive call"
        if not (cnt[0] == "field" and cnt[3] == "1" and payload_of(cnt[1]) is not None and norm(payload_of(cnt[1])) == norm(R)):
            return False, "take(n) does not use the descriptor count the receive call returned"
        ok = True
        why = "loop form"
    if n != 1:
        return False, "%d loops wrap descriptors" % n
    # nothing else changes the vector (order!)
    for l in lv:
        for e in l.events:
            if e[0] == "call" and last_seg(e[3]) not in ("push", "reserve", "reserve_exact"):      # reserving capacity changes no element
                for a in e[4][2]:
                    if a[0] == "ref" and a[2] and norm(_strip_mut(a[1])) == base:
                        return False, "the vector is also changed by %s" % last_seg(e[3])
    return ok, why


def _direct_push_loops(lv):
    """loop leaves that push onto self.files; every one of them lies after a successful receive"""
    found = False
    for l in lv:
        if l.kind != "loop":
            continue
        if any(e[0] == "call" and last_seg(e[3]) == "push" and "Vec" in e[3] and self_field(e[4][2][0], "files") for e in l.events):
            rc = conn.os_receive_calls(l)
            if not rc or result_outcome(l, rc[0][4]) != "ok":
                return False
            found = True
    return found


def append(ctx):
    """On the receive path: after a successful receive the wrapped descriptors are appended to self.files (which descriptors
    and in which order: R12.1), also on the path that then reports end-of-stream; a failed receive appends nothing."""
    fn, lv = conn.receive_leaves(ctx)
    n = 0
    for lf in lv:
        rc = conn.os_receive_calls(lf)
        if not rc or lf.kind != "return":
            continue
        received = result_outcome(lf, rc[0][4]) == "ok"
        ext = [e for e in lf.events if e[0] == "call" and last_seg(e[3]) in ("extend", "append", "push", "extend_from_slice", "insert", "splice") and self_field(e[4][2][0], "files")]
        rk = ret_kind(lf)
        if received and not ext and _direct_push_loops(lv):
            # pushed one by one inside the loop over the received descriptors (R12.1 decides which and in which order); the
            # loop precedes every return of a receiving path, the end-of-stream one included
            n += 1
            closed = rk is not None and rk[0] == "Err" and look(rk[1])[0] == "agg" and look(rk[1])[2] == "ConnectionClosed"
            ran = any(t[0] == "discr" and is_call(look(t[1]), "next") and option_is_some(c) is False for (t, c, _b) in lf.conds)
            ctx.ob("R12.2", "appended|%s" % ("eof-path" if closed else "data-path"), ran, "the files just received are appended to self.files%s" % (" before ConnectionClosed is returned" if closed else ""), fn.loc(lf.bb))
            continue
        if received:
            n += 1
            ok = len(ext) == 1 and last_seg(ext[0][3]) in ("extend", "append")
            if ok:
                # the source derives from this very receive call (R12.1 checks how)
                ok = any(isinstance(x, tuple) and x and norm(x) == norm(rc[0][4]) for x in subterms(ext[0][4][2][1]))
            closed = rk is not None and rk[0] == "Err" and look(rk[1])[0] == "agg" and look(rk[1])[2] == "ConnectionClosed"
            ctx.ob("R12.2", "appended|%s" % ("eof-path" if closed else "data-path"), ok, "the files just received are appended to self.files%s" % (" before ConnectionClosed is returned" if closed else ""), fn.loc(lf.bb))
        else:
            ctx.ob("R12.2", "failed-receive|nothing-appended", not ext, "a failed receive appends nothing", fn.loc(lf.bb))
    ctx.ob("R12.2", "floor", n >= 2, "%d receiving paths (floor 2: data and end-of-stream)" % n)


def _moved_item_by_item(lf, lv, upto):
    """The queueing path ran a loop over self.files.drain(..) to exhaustion, and every iteration of that loop pushes the
    item it was handed (and nothing else) onto the files list of some request."""
    def strip(t):
        t = look(t)
        while t[0] == "mut" or (t[0] == "call" and last_seg(t[1]) in ("into_iter", "by_ref") and t[2]):
            t = look(t[1]) if t[0] == "mut" else look(t[2][0])
        return t
    drains = []
    for e in lf.events[:upto]:
        if e[0] == "cond" and e[3][0] == "discr" and is_call(look(e[3][1]), "next") and option_is_some(e[4]) is False:
            it = strip(look(e[3][1])[2][0])
            if is_call(it, "drain") and "Vec" in it[1] and self_field(it[2][0], "files") and look(it[2][1])[0] == "agg" and "RangeFull" in look(it[2][1])[1]:
                drains.append(norm(it))
    if len(drains) != 1:
        return False
    bodies = 0
    for l2 in lv:
        if l2.kind != "loop":
            continue
        for j, e in enumerate(l2.events):
            if e[0] == "cond" and e[3][0] == "discr" and is_call(look(e[3][1]), "next") and option_is_some(e[4]) is True and norm(strip(look(e[3][1])[2][0])) == drains[0]:
                nx = look(e[3][1])
                pushes = [p for p in l2.events[j:] if p[0] == "call" and last_seg(p[3]) in ("push", "push_back", "insert", "extend", "push_front")]
                good = len(pushes) == 1 and last_seg(pushes[0][3]) == "push" and "Vec" in pushes[0][3]
                if good:
                    tgt, item = look(pushes[0][4][2][0]), look(pushes[0][4][2][1])
                    while tgt[0] == "mut":
                        tgt = look(tgt[1])
                    good = tgt[0] == "field" and tgt[3] == "files" and tgt[2] == "request::Request" and payload_of(item) is not None and norm(payload_of(item)) == norm(nx)
                if not good:
                    return False
                bodies += 1
                break
    return bodies >= 1


def move(ctx):
    name = conn.parse_loop_fn(ctx)
    fn, lv = leaves(ctx, name, lower=True)      # `pending.take().map(|mut r| { r.files = ..; r })`: the closure is part of the path
    n = 0
    for lf in lv:
        for i, e in enumerate(lf.events):
            if e[0] == "call" and "VecDeque" in e[3] and self_field(e[4][2][0], "parsed_requests") and last_seg(e[3]) in ("push_back", "push_front", "insert"):
                pushed = look(e[4][2][1])
                if is_call(pushed, "unwrap", "expect") and look(pushed[2][0])[0] == "agg" and look(pushed[2][0])[2] == "None":
                    continue        # the None arm of a combinator on the taken request: the unwrap panics before anything is queued (C03 decides that it cannot be taken)
                n += 1
                # the last assignment to <pushed>.files before the push
                fa = [a for a in lf.events[:i] if a[0] == "assign" and a[3].endswith(".files") and not a[3].startswith("(*_1)")]
                literal = None
                if pushed[0] == "agg" and pushed[1] == "request::Request":
                    # `Request { files, ..pending_request }`: the files component of the literal that is queued
                    nm = [f["name"] for f in ctx.facts.struct_fields("request::Request")]
                    literal = pushed[3][nm.index("files")]
                ok = len(fa) >= 1 or literal is not None
                chain = []
                if not ok and _moved_item_by_item(lf, lv, i):
                    # `for f in self.files.drain(..) { request.files.push(f) }`: every item, in order, into the request's (empty) list
                    chain = ["drain", "push-each"]
                    ctx.ob("R12.3", "whole-list-moved-before-queue", True, "before a completed request is queued, every item of self.files.drain(..) is pushed, in order, onto request.files (chain %s)" % chain, fn.loc(e[1]))
                    ctx.ob("R12.5", "order-preserving", True, "the chain from self.files to Request.files keeps the order (%s)" % chain, fn.loc(e[1]))
                    took = [a for a in lf.events[:i] if a[0] == "call" and last_seg(a[3]) == "take" and self_field(a[4][2][0], "pending_request")]
                    ctx.ob("R12.3", "pushed-is-pending-request", len(took) == 1, "the queued value is the pending request taken out of self", fn.loc(e[1]))
                    continue
                if ok:
                    v = look(literal if literal is not None else fa[-1][4])
                    x = v
                    while x[0] == "call" and x[2]:
                        chain.append("mem::take" if x[1] == "std::mem::take" else last_seg(x[1]))
                        x = look(x[2][0])
                        while x[0] == "mut":
                            x = look(x[1])
                    src_ok = self_field(x, "files")
                    whole = False
                    if chain == ["collect", "drain"]:
                        d = look(v[2][0])
                        r = look(d[2][1])
                        whole = r[0] == "agg" and "RangeFull" in r[1]
                    elif chain == ["mem::take"]:
                        whole = True
                    ok = src_ok and whole and not [c for c in chain if c in REORDER]
                ctx.ob("R12.3", "whole-list-moved-before-queue", ok, "before a completed request is queued, request.files = self.files.drain(..).collect() (chain %s)" % chain, fn.loc(e[1]))
                ctx.ob("R12.5", "order-preserving", ok and not [c for c in chain if c in REORDER], "the chain from self.files to Request.files keeps the order (%s)" % chain, fn.loc(e[1]))
                # the value pushed is the pending request taken from self
                took = [a for a in lf.events[:i] if a[0] == "call" and last_seg(a[3]) == "take" and self_field(a[4][2][0], "pending_request")]
                ctx.ob("R12.3", "pushed-is-pending-request", len(took) == 1, "the queued value is the pending request taken out of self", fn.loc(e[1]))
    ctx.ob("R12.3", "floor", n >= 1, "%d queueing site path(s) (floor 1)" % n)
    # The completion step *assigns* the list to the pending request's files: whatever that field held before is dropped
    # (closed).  So until then it holds nothing: a Request under construction starts with an empty list, and the
    # connection's list is taken only at completion (or cleared by the reset).
    from ..core import Terms
    from .util import roots_of
    facts = ctx.facts
    n_lit = 0
    for f in facts.fns.values():
        if f.d["span"]["file"] != "src/connection.rs":
            continue
        for bi, si, place, rv in f.assigns():
            if rv["k"] == "aggregate" and rv.get("agg") == "adt" and rv["adt"] == "request::Request":
                ctx.touched(f)
                n_lit += 1
                idx = rv["fields"].index("files") if "files" in rv["fields"] else None
                if idx is None:
                    nm = [x["name"] for x in facts.struct_fields("request::Request")]
                    idx = nm.index("files")
                x = look(Terms(f).operand(rv["ops"][idx]))
                empty = x[0] == "call" and not x[2] and (last_seg(x[1]) in ("new", "default") and ("Vec" in x[1] or "Default" in x[1]))
                at_completion = (roots_of(facts, f.name) or {f.name}) <= {name}
                ctx.ob("R12.3", "request-under-construction|no-files|%s" % f.name.split("::")[-1], empty or at_completion, "a Request literal outside the completion step starts with an empty files list (here: %s)" % term_s(x)[:80], f.loc(bi, si))
    ctx.ob("R12.3", "request-under-construction|floor", n_lit >= 1, "%d Request literal(s) in connection.rs inspected (floor 1)" % n_lit)
    takers = 0
    taker_roots = set()
    for f in facts.fns.values():
        from .fields import mut_borrow_consumers
        for site, bi, t in mut_borrow_consumers(f, conn.HC, "files"):
            callee = (t["callee"].get("path") if t else None) or ""
            seg = last_seg(callee)
            if t is not None:
                # handed to a helper that is not in the frozen list: what the helper does with it counts
                from .util import local_callee, is_new_fn
                from .fields import param_consumers
                lc = local_callee(t)
                if lc in facts.fns and is_new_fn(lc):
                    g = facts.fns[lc]
                    for i, a in enumerate(t["args"]):
                        ty = g.locals[i + 1]["ty"] if i + 1 < len(g.locals) else {}
                        if a["k"] in ("copy", "move") and not a["place"]["proj"] and ty.get("k") == "ref" and ty.get("mut"):
                            inner = [last_seg((x["callee"].get("path") or "")) if x else "escapes" for x in param_consumers(g, i + 1)]
                            tk = [x for x in inner if x in TAKING]
                            if tk:
                                seg = tk[0]
            if seg in TAKING | {"append"} and not (seg == "append" and _is_receiver(f, t, site)):
                takers += 1
                roots = roots_of(facts, f.name) or {f.name}
                taker_roots |= roots
                ctx.ob("R12.3", "list-taken-only-at-completion-or-reset|%s|%s" % (f.name.split("::")[-1], seg), roots <= {name, conn.P + "reset_parser", conn.TRY_READ}, "self.files is emptied (%s) in %s on behalf of %s: only the completion step (moves it into the request) and the parser reset may do that" % (seg, f.name, sorted(roots)), f.loc(site[0], site[1]))
    ctx.ob("R12.3", "list-taken|floor", takers >= 1 and name in taker_roots, "%d site(s) that take or clear self.files, on behalf of %s (floor: one, used by the completion step)" % (takers, sorted(taker_roots)))


TAKING = {"drain", "take", "clear", "split_off", "truncate", "retain", "pop", "remove", "swap_remove", "replace", "swap"}


def _is_receiver(f, t, site):
    """is the `&mut self.files` taken at `site` the receiver (first argument) of the call t?  (`self.files.append(&mut new)` adds, `x.append(&mut self.files)` takes)"""
    a0 = t["args"][0]
    if a0["k"] not in ("copy", "move") or a0["place"]["proj"]:
        return False
    holders = set()
    for bi, si, place, rv in f.assigns():
        if (bi, si) == tuple(site) and not place["proj"]:
            holders.add(place["local"])
    changed = True
    while changed:
        changed = False
        for bi, si, place, rv in f.assigns():
            if place["proj"] or place["local"] in holders:
                continue
            if rv["k"] == "use" and rv["op"]["k"] in ("copy", "move") and not rv["op"]["place"]["proj"] and rv["op"]["place"]["local"] in holders:
                holders.add(place["local"]); changed = True
            elif rv["k"] in ("ref", "rawptr") and rv["place"]["local"] in holders and [e["k"] for e in rv["place"]["proj"]] == ["deref"]:
                holders.add(place["local"]); changed = True
    return a0["place"]["local"] in holders


def apis(ctx):
    from .util import writer_roots
    n = 0
    for f in ctx.facts.fns.values():
        if f.d["span"]["file"] not in ("src/connection.rs", "src/request.rs"):
            continue
        for bb, t in f.calls():
            n += 1
            p = t["callee"].get("path") or ""
            seg = last_seg(p)
            if seg in BAD and not (seg == "from_raw_fd" and all(r.startswith(conn.RECV) for r in writer_roots(ctx.facts, f.name))):
                ctx.fail("R12.4", "api|%s|%s" % (f.name, seg), "%s calls %s: a received descriptor could be duplicated, leaked or re-wrapped" % (f.name, p), f.loc(bb))
            if "ManuallyDrop" in p:
                ctx.fail("R12.4", "api|%s|ManuallyDrop" % f.name, "%s uses ManuallyDrop" % f.name, f.loc(bb))
    ctx.ob("R12.4", "scanned", n >= 150, "%d call sites in connection.rs / request.rs scanned (floor 150)" % n)
