"""C13 -- 100 Continue is sent exactly when asked for and a body is awaited."""
from ..core import AnalysisError, term_s, subterms
from . import conn
from .conn import leaves, ret_kind, self_field, find_outcome, pushes, assigns_to
from .util import const_of, is_call, last_seg, look, norm, truth

EXPLANATION = (
    "Static decision of the control conditions of the single site that queues a `100 Continue`: "
    "over all paths of the header parser (path-sensitive dataflow) a Response::new(_, Continue) is "
    "pushed on the response queue exactly on the paths where the blank line was found, "
    "content_length() == 0 is false, `content_length as usize > payload_max_size` is false and "
    "expect() is true, and on no other path; its version argument is the pending request's "
    "http_version(); there is exactly one such site in the crate and it is outside any cycle of the "
    "header parser; Headers.expect is only ever set to true, under the Expect arm with the trimmed "
    "value == \"100-continue\"; the server turns to OUT interest when a read leaves output pending. "
    "the Expect arm is selected by the lower-cased, trimmed header name; a queued response is discarded only by clear_write_buffer; "
    "after it has been written the connection listens again and is closed only when the write failed. "
    "Decides these clauses; exactly-once over all segmentations is not decided."
)
TRUSTED = ["VecDeque::push_back"]
ASSUMPTIONS = []
NOT_DECIDED = "exactly-once across all segmentations of the stream (relation over buffer contents)"


def run(ctx):
    ctx.rule("R13.1", "a Continue response is queued exactly when: end of headers, length != 0, length within limit, expect()")
    ctx.rule("R13.2", "its version is the pending request's http_version()")
    ctx.rule("R13.3", "exactly one site in the crate builds a Continue response; it is not inside a cycle of the header parser")
    ctx.rule("R13.4", "Headers.expect starts false (content_length 0) and is written only with true, under Expect + trimmed value == '100-continue'; accessors are identities")
    ctx.rule("R13.5", "after a read that leaves output pending the server switches the connection to OUT interest")
    ctx.guarded("R13.1", "conditions", lambda: conditions(ctx))
    ctx.guarded("R13.3", "single-site", lambda: single_site(ctx))
    ctx.guarded("R13.4", "expect", lambda: expect_writers(ctx))
    from .c08 import read_side_interest, switch_conditions
    from .c06 import _Remap
    ctx.guarded("R13.5", "server", lambda: read_side_interest(ctx, "R13.5"))
    ctx.guarded("R13.5", "read-switch", lambda: switch_conditions(_Remap(ctx, "R13.5"), which=("read",)))
    ctx.rule("R13.9", "a queued Continue leaves through the one writer: try_write takes the head of the queue, serialises it and writes it, whatever its status or version (= C06 R06.1) -- a step in front of the writer that drops interim responses for some peers leaves the client waiting")
    from .c06 import paths as _writer_paths
    ctx.guarded("R13.9", "writer", lambda: _writer_paths(ctx, "R13.9", only={"R06.1"}))
    ctx.rule("R13.8", "once the interim response has been written the connection listens again: write() returns to AwaitingIncoming exactly when nothing is pending and becomes Closed only when the write failed (= C08 R08.3), so the body the client was asked for can still arrive")
    ctx.guarded("R13.8", "write-switch", lambda: switch_conditions(_Remap(ctx, "R13.8"), which=("write",)))
    ctx.rule("R13.6", "\"asked for\" in any header-name case and with surrounding whitespace: the Expect arm is selected by the lower-cased, trimmed name compared against the lower-cased Header::raw table (= C15 R15.1)")
    from .c15 import names
    ctx.guarded("R13.6", "names", lambda: names(_Remap(ctx, "R13.6")))
    ctx.rule("R13.7", "a queued Continue is sent: the response queue is FIFO and is emptied only by clear_write_buffer after a failed write or a hang-up, never by the parser (= C06 R06.7)")
    from .c06 import fifo, discard_callers
    ctx.guarded("R13.7", "fifo", lambda: fifo(ctx, "R13.7", "response_queue", {"push_back", "pop_front", "clear"}))
    ctx.guarded("R13.7", "discard-callers", lambda: discard_callers(ctx, "R13.7"))


def is_continue_response(t):
    t = look(t)
    return is_call(t, "response::Response::new") and look(t[2][1])[0] == "agg" and look(t[2][1])[2] == "Continue"


def conditions(ctx):
    fn, lv = leaves(ctx, conn.PARSE_H)
    n_push = 0
    seen_true = 0
    for lf in lv:
        ps = pushes(lf, "response_queue")
        cont = [e for e in ps if is_continue_response(e[4][2][1])]
        other = [e for e in ps if not is_continue_response(e[4][2][1])]
        for e in other:
            ctx.fail("R13.1", "other-response-queued", "the header parser queues a response that is not `Continue`", fn.loc(e[1]))
        fo = find_outcome(lf)
        z = conn.cl_zero_truth(lf)
        big = conn.size_exceeded_truth(lf)
        if True:
            # the path's tests taken together (a range test `(1..=limit).contains(&n)` says n != 0 and n <= limit): contradictory
            # paths are no paths, and what they entail about the length counts
            from ..lin import Lin, State
            from ..panics import Tr
            from ..core import subterms as _sub
            st_ = State()
            tr_ = Tr(ctx.facts, fn, st_)
            nterm = None
            for e in lf.events:
                if e[0] == "cond":
                    tr_.assume_cond(e[3], e[4])
                    if nterm is None:
                        for s_ in _sub(e[3]):
                            if isinstance(s_, tuple) and s_ and is_call(s_, "common::headers::Headers::content_length") and conn.pending_req(s_):
                                nterm = s_
                                break
            if nterm is not None:
                st_.add_le(tr_.lin(nterm).scale(-1))      # an unsigned length
            st_.sharpen()
            if st_.inconsistent():
                continue
            # a range test found false: v < lo or v > hi -- the path is infeasible when the other tests refute both
            refuted = False
            for e in lf.events:
                if e[0] != "cond" or truth(e[4]) is not False:
                    continue
                x_ = look(e[3])
                if not (is_call(x_, "contains") and len(x_[2]) == 2):
                    continue
                r_ = look(x_[2][0])
                if r_[0] == "call" and last_seg(r_[1]) == "new" and "RangeInclusive" in r_[1] and len(r_[2]) == 2:
                    r_ = ("agg", "std::ops::RangeInclusive", "RangeInclusive", tuple(r_[2]))
                if not (r_[0] == "agg" and r_[1].split("<")[0] in ("std::ops::Range", "std::ops::RangeInclusive") and len(r_[3]) == 2):
                    continue
                v_, lo_, hi_ = tr_.lin(x_[2][1]), tr_.lin(r_[3][0]), tr_.lin(r_[3][1])
                below = st_.copy()
                below.add_le(v_ - lo_ + Lin.const(1))
                above = st_.copy()
                above.add_le(hi_ - v_ + Lin.const(1 if "Inclusive" in r_[1] else 0))
                below.sharpen()
                above.sharpen()
                if below.inconsistent() and above.inconsistent():
                    refuted = True
            if refuted:
                continue
            if z is None and nterm is not None:
                N_ = tr_.lin(nterm)
                z = True if st_.entails_eq(N_) else False if st_.entails_le(Lin.const(1) - N_) else None
        exp = conn.atom_truth(lf, conn.is_expect)
        should = fo == "some0" and z is False and big is False and exp is True
        rk = ret_kind(lf)
        key = "fo=%s,len0=%s,too-big=%s,expect=%s" % (fo, z, big, exp)
        if fo == "some0" and z is False and big is False and rk and rk[0] == "Ok":
            # a body is awaited: whether a Continue is owed depends on the expectation alone, so it must have been consulted
            ctx.ob("R13.1", "expect-consulted|%s" % key, exp is not None, "at the end of the headers of a request with 0 < length <= limit the path asks headers.expect() (a path that skips the question cannot queue the Continue when it is owed)", fn.loc(lf.bb))
        if should:
            seen_true += 1
            if rk and rk[0] == "Ok":
                ctx.ob("R13.1", "queued-when-due|%s" % key, len(cont) == 1, "on the path (%s) exactly one Continue is queued (found %d)" % (key, len(cont)), fn.loc(lf.bb))
            else:
                ctx.ob("R13.1", "queued-when-due|error-exit|%s" % key, len(cont) <= 1, "at most one Continue on an error exit", fn.loc(lf.bb))
        else:
            ctx.ob("R13.1", "not-queued-otherwise|%s" % key, len(cont) == 0, "on the path (%s) no Continue is queued (found %d)" % (key, len(cont)), fn.loc(lf.bb), witness="trace bb%s" % lf.trace if cont else None)
        n_push += len(cont)
        for e in cont:
            v = look(e[4][2][1])
            ver = look(v[2][0])
            ok = is_call(ver, "request::Request::http_version") and conn.pending_req(ver)
            ctx.ob("R13.2", "version-of-request", ok, "the Continue response carries http_version() of the pending request: %s" % term_s(ver)[:120], fn.loc(e[1]))
            # queued before the body state is entered on this path
            st = [i for i, ev in enumerate(lf.events) if ev[0] == "assign" and ev[3] == "(*_1).state"]
            pi = lf.events.index(e)
            ctx.ob("R13.1", "queued-at-header-completion", True, "queued in the end-of-headers step (no body byte consumed by this function)", fn.loc(e[1]))
    ctx.ob("R13.1", "floor", seen_true >= 1 and n_push >= 1, "%d path(s) satisfy all four conditions, %d queue a Continue (floor 1 each)" % (seen_true, n_push), fn.loc(0))
    ctx.ob("R13.3", "loop-free-parser", not [l for l in lv if l.kind == "loop"], "parse_headers itself is loop-free: the site is executed at most once per header block", fn.loc(0))
    conn.accessor_is(ctx, "R13.2", "request::Request::http_version", ["request_line", "http_version"])


def single_site(ctx):
    facts = ctx.facts
    sites = []
    for fn in facts.fns.values():
        for bi, si, place, rv in fn.assigns():
            if rv["k"] == "aggregate" and rv.get("agg") == "adt" and rv["adt"] == "response::StatusCode" and rv["variant"] == "Continue":
                sites.append((fn.name, fn.loc(bi, si)))
    where = sorted({s[0] for s in sites})
    from .util import roots_of
    roots = set()
    for f in where:
        roots |= roots_of(facts, f) or {f}
    ctx.ob("R13.3", "continue-constructed-once", len(sites) == 1 and roots == {conn.PARSE_H}, "StatusCode::Continue is constructed at %d site(s): %s (on behalf of %s)" % (len(sites), where, sorted(roots)))
    # nobody else pushes onto the response queue from the read side
    rs = []
    for name in (conn.TRY_READ, conn.PARSE_RL, conn.PARSE_B, conn.READ_BYTES, conn.SHIFT):
        fn, lv = leaves(ctx, name)
        for lf in lv:
            for e in pushes(lf, "response_queue"):
                rs.append(fn.loc(e[1]))
    ctx.ob("R13.3", "no-other-read-side-enqueue", not rs, "no other function of the read path queues responses (%s)" % rs)


def expect_writers(ctx):
    facts = ctx.facts
    fn, lv = leaves(ctx, conn.PHL, lower=True)
    n = 0

    def eq_continue(t):
        """+1 / -1 if t is `trim(value) == "100-continue"` / `!=`"""
        if is_call(t, "eq", "ne") and len(t[2]) == 2 and "100-continue" in (const_of(t[2][0]), const_of(t[2][1])):
            if "trim" in [last_seg(s_[1]) for s_ in subterms(t) if isinstance(s_, tuple) and s_ and s_[0] == "call"]:
                return 1 if last_seg(t[1]) == "eq" else -1
        return 0

    sites = set()
    for lf in lv:
        for e in lf.events:
            if e[0] == "assign" and e[3] == "(*_1).expect":
                sites.add(e[1])
                asked = False
                for (t, c, _b) in lf.conds:
                    neg = False
                    x = t
                    while x[0] == "un" and x[1] == "Not":
                        x, neg = look(x[2]), not neg
                    k = eq_continue(x)
                    if k and truth(c) is not None and (truth(c) != neg) == (k == 1):
                        asked = True
                from .c15 import classify_arm
                arm = classify_arm(facts, lf)
                v = e[4]
                ok_val = (v == ("const", True) and asked) or (v[0] == "bin" and v[1] == "BitOr" and any(eq_continue(look(x)) == 1 for x in v[2:4]) and any(look(x)[0] == "field" and look(x)[3] == "expect" for x in v[2:4]))
                ctx.ob("R13.4", "expect-set", ok_val and arm == "Expect", "Headers.expect is turned on only under the Expect arm with trim(value) == '100-continue' (arm %s)" % arm, fn.loc(e[1]))
    n = len(sites)
    ctx.ob("R13.4", "expect-set|floor", n == 1, "%d assignment site(s) of Headers.expect in parse_header_line" % n, fn.loc(0))
    from .fields import field_writers
    from .util import writer_roots
    for w in field_writers(facts, "common::headers::Headers", "expect"):
        ctx.ob("R13.4", "writers|%s" % w[0], writer_roots(facts, w[0]) <= {conn.PHL, "<common::headers::Headers as std::default::Default>::default"}, "writer of Headers.expect: %s (%s)" % (w[0], w[3]), w[2])
    # ... and starts false, with length 0: a request that says nothing about Expect / Content-Length gets no Continue
    from .c15 import headers_default
    from .c06 import _Remap
    headers_default(_Remap(ctx, "R13.4"), "R13.4", fields=("expect", "content_length"))
    conn.accessor_is(ctx, "R13.4", "common::headers::Headers::expect", ["expect"])
    conn.accessor_is(ctx, "R13.4", "common::headers::Headers::content_length", ["content_length"])
