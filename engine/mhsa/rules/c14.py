"""C14 -- one-shot request parsing agrees with the incremental connection parser."""
from ..core import AnalysisError, term_s, subterms
from . import conn
from .c02 import incremental_tolerated
from .c15 import block
from .conn import leaves, ret_kind
from .util import result_test, option_test, propagated_error, payload_of, const_of, is_call, last_seg, look, norm, option_is_some, truth

EXPLANATION = (
    "Static decision of the structural agreement of the two parsers: both reach RequestLine::try_from "
    "for the first line, Headers::parse_header_line for every header line and find line ends with "
    "find(_, CRLF); both tolerate exactly {Ok, UnsupportedValue} from the line parser; every rejection "
    "of the one-shot parser is enumerated from its MIR paths and mapped to a clause of the statement "
    "(length >= max, no CRLF, short line, request-line error, no header terminator, header error, GET "
    "with body, body shorter than / different from Content-Length) -- a new rejection fails closed; the "
    "accepted value is built from the same atoms (request line slice up to the first CRLF, header block "
    "between, body after the blank line); the threshold of the short-line gate is evaluated and does not exceed the shortest acceptable request line. Decides these clauses, not field-by-field equality on inputs."
)
TRUSTED = ["slice indexing and find()"]
ASSUMPTIONS = []
NOT_DECIDED = "field-by-field equality of the two parsers on all inputs"

ONE = "request::Request::try_from"


def run(ctx):
    ctx.rule("R14.1", "both parsers use the same atoms: RequestLine::try_from, Headers::parse_header_line, find(_, CRLF)")
    ctx.rule("R14.2", "both parsers tolerate exactly {Ok, UnsupportedValue} from the line parser")
    ctx.rule("R14.3", "every rejection of the one-shot parser is one of the documented ones; accepted value built from the documented slices")
    ctx.guarded("R14.1", "atoms", lambda: atoms(ctx))
    ctx.guarded("R14.2", "incremental", lambda: incremental_tolerated(ctx, "R14.2"))
    ctx.guarded("R14.2", "block", lambda: block(ctx, "R14.2"))
    ctx.guarded("R14.3", "rejections", lambda: rejections(ctx))
    ctx.rule("R14.6", "the incremental parser skips nothing the one-shot parser would have to parse: the line parsers go on only by parsing (= C02 R02.11) and refuse only for the enumerated reasons (= C02 R02.10)")
    from . import c02 as _c02
    from .c06 import _Remap as _Remap14b
    ctx.guarded("R14.6", "progress", lambda: _c02.progress(_Remap14b(ctx, "R14.6"), "R02.11"))
    ctx.guarded("R14.6", "rejections", lambda: _c02.rejections(_Remap14b(ctx, "R14.6"), "R02.10"))
    ctx.rule("R14.5", "what both parsers store for a header line is what Headers::parse_header_line stores: the Headers fields and the custom map are written only there (= C15 R15.2-R15.6, writers enumerated) -- a normalisation applied on one path only (when the connection hands the request over, say) makes the two results differ")
    from . import c15 as _c15
    from .c06 import _Remap as _Remap14
    ctx.guarded("R14.5", "header-line", lambda: _c15.line(_Remap14(ctx, "R14.5")))
    ctx.rule("R14.4", "the incremental parser's body is the same Content-Length bytes the one-shot parser slices: body accumulation and carry-over cursor rules (C01 R01.2/R01.5)")
    from .c06 import _Remap
    from . import c01
    ctx.guarded("R14.4", "body", lambda: c01.body(_Remap(ctx, "R14.4")))
    ctx.guarded("R14.4", "cursor", lambda: c01.cursor_defined(_Remap(ctx, "R14.4")))


def callees(facts, name):
    fn = facts.fn(name)
    out = {}
    for bb, t in fn.calls():
        p = t["callee"].get("path")
        out.setdefault(p, []).append((bb, t))
    return fn, out


def reaches(facts, name, target):
    """Does `name` call `target` directly or through helpers that are not in the frozen list?"""
    from .util import reaches_via_new
    return reaches_via_new(facts, facts.fn(name), target)


def atoms(ctx):
    facts = ctx.facts
    fo, co = callees(facts, ONE)
    frl, crl = callees(facts, conn.PARSE_RL)
    fh, ch = callees(facts, conn.PARSE_H)
    fb, cb = callees(facts, "common::headers::Headers::try_from")
    ctx.touched(fo, frl, fh, fb)
    ctx.ob("R14.1", "one-shot|request-line", reaches(facts, ONE, "request::RequestLine::try_from"), "one-shot parser calls RequestLine::try_from", fo.loc(0))
    ctx.ob("R14.1", "incremental|request-line", reaches(facts, conn.PARSE_RL, "request::RequestLine::try_from"), "incremental parser calls RequestLine::try_from", frl.loc(0))
    ctx.ob("R14.1", "one-shot|header-block", reaches(facts, ONE, "common::headers::Headers::try_from"), "one-shot parser calls Headers::try_from", fo.loc(0))
    ctx.ob("R14.1", "block|header-line", reaches(facts, "common::headers::Headers::try_from", conn.PHL), "Headers::try_from calls parse_header_line", fb.loc(0))
    ctx.ob("R14.1", "incremental|header-line", reaches(facts, conn.PARSE_H, conn.PHL), "incremental parser calls parse_header_line", fh.loc(0))
    # needles of find()
    from ..paths import PathEnum
    def needles(name):
        fn, lv = leaves(ctx, name)
        s = set()
        for lf in lv:
            for e in lf.events:
                if e[0] == "call" and e[3] == "request::find":
                    s.add(conn.const_bytes(e[4][2][1]))
        return s
    ctx.ob("R14.1", "incremental|needle|request-line", needles(conn.PARSE_RL) == {b"\r\n"}, "request-line end is found with find(_, CRLF): %s" % needles(conn.PARSE_RL), frl.loc(0))
    ctx.ob("R14.1", "incremental|needle|headers", needles(conn.PARSE_H) == {b"\r\n"}, "header-line end is found with find(_, CRLF): %s" % needles(conn.PARSE_H), fh.loc(0))
    ctx.ob("R14.1", "one-shot|needles", needles(ONE) == {b"\r\n", b"\r\n\r\n"}, "one-shot parser looks for CRLF and CRLFCRLF: %s" % needles(ONE), fo.loc(0))
    find_shape(ctx)


def find_shape(ctx):
    # find is first-occurrence search by windows/position
    ff, lf_ = leaves(ctx, "request::find")
    for lf in lf_:
        r = look(lf.ret())
        ok = is_call(r, "position") and is_call(look(r[2][0]), "windows") and look(look(r[2][0])[2][0]) == ("arg", 1)
        if ok:
            w = look(r[2][0])
            ok = is_call(look(w[2][1]), "len") and look(look(w[2][1])[2][0]) == ("arg", 2)
        ctx.ob("R14.1", "find|first-window", ok, "find(bytes, seq) = bytes.windows(seq.len()).position(== seq)", ff.loc(0))


def rejections(ctx):
    fn, lv = leaves(ctx, ONE, lower=True)
    is_arg = lambda t: look(t) == ("arg", 1)

    def first_crlf(t):
        t = look(t)
        return is_call(t, "request::find") and is_arg(t[2][0]) and conn.const_bytes(t[2][1]) == b"\r\n"

    def rl_end(t):
        t = look(t)
        return payload_of(t) is not None and first_crlf(payload_of(t))

    def split_half(t, which):
        """t is half `which` of bytes.split_at(end of the request line): the same two slices as bytes[..e] / bytes[e..]"""
        t = look(t)
        if t[0] == "field" and t[3] == which and is_call(look(t[1]), "split_at"):
            sp = look(t[1])
            return len(sp[2]) == 2 and is_arg(sp[2][0]) and rl_end(sp[2][1])
        return False

    def rl_slice(t):
        t = look(t)
        if split_half(t, "0"):
            return True
        if not is_call(t, "index") or not is_arg(t[2][0]):
            return False
        r = look(t[2][1])
        return r[0] == "agg" and r[1].startswith("std::ops::RangeTo") and rl_end(r[3][0])

    def tail(t):
        t = look(t)
        if split_half(t, "1"):
            return True
        if not is_call(t, "index") or not is_arg(t[2][0]):
            return False
        r = look(t[2][1])
        return r[0] == "agg" and r[1].startswith("std::ops::RangeFrom") and rl_end(r[3][0])

    def term_find(t):
        t = look(t)
        return is_call(t, "request::find") and tail(t[2][0]) and conn.const_bytes(t[2][1]) == b"\r\n\r\n"

    def classify(t, c):
        tv = truth(c)
        if t[0] == "bin" and t[1] == "Ge" and is_call(look(t[2]), "len") and is_arg(look(t[2])[2][0]) and tv:
            x = look(t[3])
            if x[0] == "field" and x[1][0] == "downcast" and look(x[1][1]) == ("arg", 2):
                return "length>=max"
        if t[0] == "bin" and t[1] == "Eq" and tv and const_of(t[3]) == 0 and is_call(look(t[2]), "saturating_sub"):
            # `limit.saturating_sub(bytes.len()) == 0` is `bytes.len() >= limit`
            a_, b_ = look(look(t[2])[2][0]), look(look(t[2])[2][1])
            if a_[0] == "field" and a_[1][0] == "downcast" and look(a_[1][1]) == ("arg", 2) and is_call(b_, "len") and is_arg(b_[2][0]):
                return "length>=max"
        if option_test(t, c, first_crlf) == "none":
            return "no-crlf"
        if t[0] == "bin" and t[1] == "Lt" and rl_end(t[2]) and is_call(look(t[3]), "request::RequestLine::min_len") and tv:
            return "short-line"         # the length of bytes[..end of line] is that end
        # `body.len().checked_sub(content_length)`: None = shorter than announced, Some(n != 0) = longer
        def body_minus_length(y):
            y = look(y)
            return is_call(y, "checked_sub") and len(y[2]) == 2 and is_call(look(y[2][0]), "len") and is_call(look(strip_cast(y[2][1])), "common::headers::Headers::content_length")
        if option_test(t, c, body_minus_length) == "none":
            return "body-shorter-than-length"
        x_ = look(t)
        if payload_of(x_) is not None and x_[0] != "bin" and body_minus_length(payload_of(x_)) and c[0] == "ne" and 0 in c[1]:
            return "body-length-mismatch"
        # `content_length.abs_diff(body.len()) != 0` (either order)
        if t[0] == "bin" and t[1] in ("Ne", "Eq") and const_of(t[3]) == 0 and tv == (t[1] == "Ne") and is_call(look(t[2]), "abs_diff"):
            a_, b_ = [look(strip_cast(z)) for z in look(t[2])[2]]
            if (is_call(a_, "len") and is_call(b_, "common::headers::Headers::content_length")) or (is_call(b_, "len") and is_call(a_, "common::headers::Headers::content_length")):
                return "body-length-mismatch"
        if t[0] == "bin" and t[1] == "Lt" and is_call(look(t[2]), "len") and rl_slice(look(t[2])[2][0]) and is_call(look(t[3]), "request::RequestLine::min_len") and tv:
            return "short-line"
        if result_test(t, c, lambda src: is_call(src, "request::RequestLine::try_from") and rl_slice(src[2][0])) == "err":
            return "request-line-error"
        if result_test(t, c, lambda src: is_call(src, "common::headers::Headers::try_from")) == "err":
            return "header-error"
        if option_test(t, c, term_find) == "none":
            return "no-header-terminator"
        if is_call(t, "eq") and tv:
            a, b = look(t[2][0]), look(t[2][1])
            names = {x[3] if x[0] == "field" else (x[2] if x[0] == "agg" else (x[1] if x[0] == "const" else None)) for x in (a, b)}
            if "method" in names and ("Get" in names or b"\x00" in names):
                return "get-with-body"
        if t[0] == "bin" and t[1] == "Lt" and tv and is_call(look(t[3]).__class__ and look(strip_cast(t[3])), "common::headers::Headers::content_length"):
            return "body-shorter-than-length"
        if t[0] == "bin" and t[1] == "Eq" and tv is False and is_call(look(strip_cast(t[3])), "common::headers::Headers::content_length") and is_call(look(t[2]), "len"):
            return "body-length-mismatch"
        if t[0] == "bin" and t[1] == "Ne" and tv and is_call(look(strip_cast(t[3])), "common::headers::Headers::content_length") and is_call(look(t[2]), "len"):
            return "body-length-mismatch"
        return None

    def strip_cast(t):
        t = look(t)
        while t[0] == "cast":
            t = look(t[1])
        return t

    seen = {}
    n_ok = 0
    for lf in lv:
        rk = ret_kind(lf)
        if rk is None:
            continue
        if rk[0] == "Ok":
            n_ok += 1
            continue
        if not lf.conds:
            ctx.fail("R14.3", "unconditional-rejection", "the one-shot parser rejects without any test", fn.loc(lf.bb))
            continue
        t, c, bb = lf.conds[-1]
        cause = classify(t, c)
        if cause is None:
            ctx.fail("R14.3", "rejection|unrecognised|%s" % term_s(norm(t))[:80], "the one-shot parser rejects on a condition that is not one of the documented causes: %s %s" % (term_s(t)[:160], c), fn.loc(bb))
            continue
        seen.setdefault(cause, 0)
        seen[cause] += 1
        good = True
        if cause in ("request-line-error", "header-error"):
            want_src = "request::RequestLine::try_from" if cause == "request-line-error" else "common::headers::Headers::try_from"
            if rk[0] == "prop":
                good = is_call(propagated_error(rk[1])[0], want_src) and propagated_error(rk[1])[1] is None
            else:
                e = look(rk[1]) if rk[0] == "Err" else None
                good = e is not None and e[0] == "field" and e[1][0] == "downcast" and e[1][2] == "Err" and is_call(look(e[1][1]), want_src)
        else:
            e = look(rk[1]) if rk[0] == "Err" else (propagated_error(rk[1])[1] if rk[0] == "prop" else None)
            good = e is not None and e[0] == "agg" and e[2] == "InvalidRequest"
        ctx.ob("R14.3", "rejection|%s" % cause, good, "rejection cause '%s' returns %s" % (cause, "the parser's own error" if cause.endswith("-error") else "InvalidRequest"), fn.loc(bb))
    want = {"length>=max", "no-crlf", "short-line", "request-line-error", "no-header-terminator", "header-error", "get-with-body", "body-shorter-than-length", "body-length-mismatch"}
    # "shorter than the declared length" is a special case of "length differs": a parser that only makes the second test rejects the same inputs
    required = want - {"body-shorter-than-length"}
    ctx.ob("R14.3", "rejections|complete", required <= set(seen) <= want, "rejection causes found: %s; missing: %s" % (sorted(seen), sorted(required - set(seen))), fn.loc(0))
    # the length gate may only reject lines no request line can fit in: method SP 1-byte-URI SP version
    if "short-line" in seen:
        from ..tables import eval_usize, enum_const_table
        fm, fv = ctx.facts.fn("common::Method::raw"), ctx.facts.fn("common::Version::raw")
        shortest = min(len(v) for v in enum_const_table(ctx.facts, fm, "common::Method").values()) + 1 + 1 + 1 + min(len(v) for v in enum_const_table(ctx.facts, fv, "common::Version").values())
        fml, lml = leaves(ctx, "request::RequestLine::min_len")
        vals = {eval_usize(ctx.facts, l.ret()) for l in lml if l.kind == "return"}
        ok = bool(vals) and None not in vals and max(vals) <= shortest
        ctx.ob("R14.3", "rejection|short-line|threshold", ok, "RequestLine::min_len() evaluates to %s; the shortest request line the incremental parser accepts has %d bytes (shortest method + SP + 1 + SP + shortest version), so a larger threshold makes the one-shot parser reject what the connection delivers" % (sorted(vals, key=str), shortest), fml.loc(0))
    ctx.ob("R14.3", "accepting-paths", n_ok >= 3, "%d accepting paths (floor 3: no headers / headers without body / with body)" % n_ok, fn.loc(0))
    # accepted value
    names = [f["name"] for f in ctx.facts.struct_fields("request::Request")]
    for lf in lv:
        rk = ret_kind(lf)
        if rk is None or rk[0] != "Ok":
            continue
        r = look(rk[1])
        ok = r[0] == "agg" and r[1] == "request::Request"
        if not ok:
            ctx.fail("R14.3", "accept|shape", "Ok does not carry a Request literal", fn.loc(lf.bb))
            continue
        rl = r[3][names.index("request_line")]
        ok_rl = payload_of(rl) is not None and is_call(payload_of(rl), "request::RequestLine::try_from") and rl_slice(payload_of(rl)[2][0])
        h = look(r[3][names.index("headers")])
        ok_h = is_call(h, "default") or (payload_of(h) is not None and is_call(payload_of(h), "common::headers::Headers::try_from"))
        b = look(r[3][names.index("body")])
        ok_b = (b[0] == "agg" and b[2] == "None") or (b[0] == "agg" and b[2] == "Some" and is_call(look(b[3][0]), "common::Body::new"))
        fl = look(r[3][names.index("files")])
        ok_f = is_call(fl, "new") and "Vec" in fl[1]
        ctx.ob("R14.3", "accept|fields|bb%d" % lf.trace[-3], ok_rl and ok_h and ok_b and ok_f, "accepted request = (RequestLine of bytes before the first CRLF: %s, headers: %s, body: %s, no files: %s)" % (ok_rl, ok_h, ok_b, ok_f), fn.loc(lf.bb))
