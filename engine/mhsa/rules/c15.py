"""C15 -- header rules: case-insensitive names, trimmed values, tolerant vs fatal faults."""
from ..core import AnalysisError, term_s, subterms
from ..paths import PathEnum
from ..shapes import Shapes, shape_s, TOP
from ..tables import enum_const_table, string_matcher
from .fields import field_writers
from .util import writer_roots, propagated_error, payload_of, result_test, option_test, tested_call, CASEFOLD, LOWER, NEUTRAL_STR, TRIM, const_of, is_call, last_seg, look, norm, option_is_some, transforms, truth

EXPLANATION = (
    "Static decision of the header-line parser by path-sensitive dataflow over Headers::parse_header_line, "
    "Header::try_from, Headers::try_from and Encoding::try_from: the name table is the lower-cased image "
    "of Header::raw compared after a lower-casing call and trim; the line is split with splitn(2, ':'); "
    "in every recognised-header arm the value is interpreted only through trim(); per arm the set of "
    "error constructors that can reach the return is exactly the documented one (tolerant "
    "UnsupportedValue for Content-Type/Accept/Transfer-Encoding/Expect, fatal InvalidValue for "
    "Content-Length, Encoding::try_from's errors for Accept-Encoding, none for Server/custom); "
    "content_length/accept are overwritten on every accepted occurrence, expect/chunked only ever set "
    "to true; Content-Length is parsed as u32; the block parser applies the line parser to the pieces of "
    "split(\"\\r\\n\") up to the first empty one and tolerates exactly {Ok, UnsupportedValue}. "
    "The connection, the other caller of the line parser, tolerates the same set. "
    "Decides these clauses for all header bytes; does not enumerate inputs."
)
TRUSTED = ["str::{splitn,split,trim,parse::<u32>,contains,eq}, String::make_ascii_lowercase, HashMap::insert (last wins)"]
ASSUMPTIONS = ["std string functions behave as documented"]
NOT_DECIDED = "exhaustive equality with an independent statement of the rules on sampled inputs"

H = "common::headers::Headers"
PHL = "common::headers::Headers::parse_header_line"

ARM_ERRORS = {
    "ContentLength": {"HeaderError(InvalidValue)"},
    "ContentType": {"HeaderError(UnsupportedValue)"},
    "Accept": {"HeaderError(UnsupportedValue)"},
    "TransferEncoding": {"HeaderError(UnsupportedValue)"},
    "Expect": {"HeaderError(UnsupportedValue)"},
    "Server": set(),
    "AcceptEncoding": {"InvalidRequest", "HeaderError(InvalidValue)", "HeaderError(InvalidUtf8String)"},
    "<custom>": set(),
    "<no-colon>": {"HeaderError(InvalidFormat)"},
    "<not-utf8>": {"HeaderError(InvalidUtf8String)"},
}


def err_name(s):
    """'HeaderError(InvalidValue)' for shape ('Err', ('HeaderError', ('InvalidValue', ...)))"""
    if s == TOP:
        return "?"
    if s[0] != "Err":
        return None
    e = s[1] if len(s) > 1 else TOP
    if e == TOP:
        return "?"
    if e[0] == "HeaderError":
        inner = e[1] if len(e) > 1 else TOP
        return "HeaderError(%s)" % (inner[0] if inner != TOP else "?")
    return e[0]


def run(ctx):
    ctx.rule("R15.1", "recognised names: lower-cased + trimmed input compared against the lower-cased Header::raw table")
    ctx.rule("R15.2", "values are interpreted only through trim(); custom entries are (trim(name), trim(value)) inserted with HashMap::insert")
    ctx.rule("R15.3", "per header arm, the set of error constructors that can reach the return is the documented one")
    ctx.rule("R15.4", "content_length/accept overwritten on every accepted occurrence; expect/chunked only ever set to true")
    ctx.rule("R15.5", "Content-Length parsed with str::parse::<u32> and stored in a u32")
    ctx.rule("R15.6", "a header line is split with splitn(2, ':') and needs both parts")
    ctx.rule("R15.7", "Headers::try_from applies parse_header_line to each piece of split(\"\\r\\n\") up to the first empty one, tolerating exactly {Ok, UnsupportedValue}")
    ctx.rule("R15.9", "Encoding::try_from: empty -> Err; identity;q=0 -> Err; *;q=0 without 'identity' -> Err; otherwise Ok")
    ctx.guarded("R15.1", "names", lambda: names(ctx))
    ctx.guarded("R15.3", "line", lambda: line(ctx))
    ctx.guarded("R15.7", "block", lambda: block(ctx, "R15.7"))
    ctx.guarded("R15.9", "encoding", lambda: encoding(ctx))
    ctx.rule("R15.10", "which Content-Type / Accept values are supported: MediaType::try_from accepts exactly the two canonical spellings modulo surrounding whitespace, case-sensitively (= C16 R16.1 MediaType)")
    from .c06 import _Remap
    from .c16 import media_type
    ctx.guarded("R15.10", "media-type", lambda: media_type(_Remap(ctx, "R15.10")))
    ctx.rule("R15.11", "\"ignored without rejecting the request\" also on the connection: the incremental parser, the other caller of parse_header_line, continues after exactly {Ok, UnsupportedValue} (= C02 R02.3)")
    from .c02 import incremental_tolerated
    ctx.guarded("R15.11", "incremental", lambda: incremental_tolerated(_Remap(ctx, "R15.11"), "R02.3"))


def names(ctx):
    facts = ctx.facts
    f_try, f_raw = facts.fn("common::headers::Header::try_from"), facts.fn("common::headers::Header::raw")
    ctx.touched(f_try, f_raw)
    raw = enum_const_table(facts, f_raw, "common::headers::Header")
    from ..tables import table_search
    H_ = "common::headers::Header"
    ts = table_search(facts, f_try, H_)
    info = {}
    if ts is not None:
        # written as a search of a table of all headers for the one whose name matches
        ci = ts["mode"] == "ascii-ci"
        tbl = raw if ts["item_fn"] == f_raw.name else enum_const_table(facts, facts.fns[ts["item_fn"]], H_)
        acc = {}
        for v in ts["variants"]:
            b = tbl[v]
            k_ = (b if isinstance(b, bytes) else str(b).encode()).decode("latin-1")
            acc.setdefault(k_.lower() if ci else k_, v)
        subjects, other_ok = [ts["subject"]], []
        info["ci"] = ci
    else:
        from ..tables import pair_table_loop
        pt = pair_table_loop(facts, f_try, H_)
        if pt is not None:
            # a loop over a literal table of (name, header) pairs, returning the header of the first name that matches
            ci = pt["mode"] == "ascii-ci"
            acc = {}
            for k_, v in pt["pairs"]:
                acc.setdefault(k_.lower() if ci else k_, v)
            subjects, other_ok = [pt["subject"]], []
            info["ci"] = ci
        else:
            acc, subjects, other_ok = string_matcher(facts, f_try, info=info, adt=H_)
            acc = {(k_.decode("latin-1") if isinstance(k_, bytes) else k_): v for k_, v in acc.items()}
    ci = bool(info.get("ci"))
    ctx.ob("R15.1", "names|only-by-comparison", not other_ok, "every Ok of Header::try_from is selected by a comparison with a constant", f_try.loc(0))
    ctx.ob("R15.1", "names|one-subject", len({norm(s) for s in subjects}) == 1, "all comparisons test the same derived string", f_try.loc(0))
    want = {}
    for var, b in raw.items():
        s = (b if isinstance(b, bytes) else b.encode()).decode("latin-1")
        want[s.lower()] = var
    for s, var in want.items():
        ctx.ob("R15.1", "names|recognises|%s" % var, acc.get(s) == var, "lower-cased %r -> %s (found %s)" % (s, var, acc.get(s)), f_try.loc(0))
    for s, var in acc.items():
        ctx.ob("R15.1", "names|accepts|%s" % s, want.get(s) == var, "compared constant %r -> %s is the lower-cased canonical name" % (s, var), f_try.loc(0))
        ctx.ob("R15.1", "names|constant-is-lowercase|%s" % s, (s == s.lower() or ci) and s == s.strip(), "constant %r is lower-case (or compared ignoring ASCII case) and has no surrounding space" % s, f_try.loc(0))
    for subj in subjects[:1]:
        tr = transforms(subj)
        ctx.ob("R15.1", "names|case-insensitive", (ci or any(x in LOWER for x in tr)) and not any(x in CASEFOLD and x not in LOWER for x in tr), "the compared string is lower-cased first, or compared with eq_ignore_ascii_case (calls: %s)" % tr, f_try.loc(0))
        ctx.ob("R15.1", "names|trimmed", "trim" in tr, "the compared string passes through trim()", f_try.loc(0))
        unknown = [x for x in tr if x not in NEUTRAL_STR and x not in TRIM and x not in CASEFOLD]
        ctx.ob("R15.1", "names|known-normalisers", not unknown, "only identity/trim/lower-case calls between input and comparison (unrecognised: %s)" % unknown, f_try.loc(0))
        ctx.ob("R15.1", "names|subject-is-input", any(s == ("arg", 1) for s in subterms(subj)), "the compared string derives from the argument", f_try.loc(0))


def line_split(t):
    """If t is one of the two parts the header line is split into: (i, split call) with i = 0 (name) or
    1 (value).  Two spellings: collect(splitn(S, 2, ':'))[i]  and  the i-th component of split_once(S, ':')."""
    t = look(t)
    if is_call(t, "index") and isinstance(const_of(t[2][1]), int) and is_call(look(t[2][0]), "collect") and is_call(look(look(t[2][0])[2][0]), "splitn"):
        return const_of(t[2][1]), look(look(t[2][0])[2][0])
    if t[0] == "field" and t[3] in ("0", "1"):
        src = payload_of(t[1])
        if src is not None and is_call(src, "split_once"):
            return int(t[3]), src
    # `let mut it = s.splitn(2, ':'); match (it.next(), it.next())`: the k-th item of the iterator
    src = payload_of(t)
    if src is not None and is_call(src, "next") and src[2]:
        it = look(src[2][0])
        k = 0
        while it[0] == "mut":
            if last_seg(it[2]) != "next":
                return None
            it = look(it[1])
            k += 1
        if is_call(it, "splitn") and k in (0, 1):
            return k, it
    return None


def entries_index(t, i):
    """t is the name (i = 0) or value (i = 1) part of the split header line."""
    r = line_split(t)
    return r is not None and r[0] == i


def value_uses(term, acc, parent=None):
    """Collect (occurrence of entry[1], parent call name) pairs inside a term."""
    if not isinstance(term, tuple) or not term:
        return
    if entries_index(term, 1):
        acc.append(parent)
        return
    if term[0] == "call":
        args = term[2]
        if is_call(term, "map_err", "ok_or", "ok_or_else") and term[1].split("::")[0] in ("std", "core") and args:
            args = args[:1]   # the second argument only builds the error value; it does not interpret the header
        for a in args:
            value_uses(a, acc, term[1])
        return
    if term[0] in ("ref", "deref"):
        value_uses(term[1], acc, parent)
        return
    for x in term[1:]:
        if isinstance(x, tuple) and x and isinstance(x[0], str):
            value_uses(x, acc, parent)
        elif isinstance(x, tuple):
            for y in x:
                if isinstance(y, tuple):
                    value_uses(y, acc, parent)


def classify_arm(facts, lf):
    hdiscr = facts.variant_discr("common::headers::Header")
    arm = None
    for (t, c, _bb) in lf.conds:
        if result_test(t, c, lambda y: is_call(y, "from_utf8") and look(y[2][0]) == ("arg", 2)) == "err":
            return "<not-utf8>"
        if t[0] == "bin" and t[1] in ("Ne", "Eq") and is_call(look(t[2]), "len") and const_of(t[3]) == 2:
            tv = truth(c)
            if (t[1] == "Ne" and tv) or (t[1] == "Eq" and tv is False):
                return "<no-colon>"
        if option_test(t, c, lambda y: is_call(y, "split_once")) == "none":
            return "<no-colon>"
        if t[0] == "discr" and is_call(look(t[1]), "next") and option_is_some(c) is False and line_split(("payload", look(t[1]))) is not None:
            return "<no-colon>"     # `match (it.next(), it.next())` over splitn(2, ':'): a piece is missing
        if result_test(t, c, lambda y: is_call(y, "common::headers::Header::try_from")) == "err":
            arm = "<custom>"
        if t[0] == "discr" and payload_of(t[1]) is not None and is_call(payload_of(t[1]), "common::headers::Header::try_from"):
            if c[0] == "eq":
                arm = hdiscr.get(c[1])
            else:
                arm = "<wildcard:%s>" % (c[1],)
    return arm


def line(ctx):
    facts = ctx.facts
    fn = facts.fn(PHL)
    ctx.touched(fn)
    leaves = PathEnum(fn, facts, lower=True).run()    # closures given to map_err / ok_or_else build the errors: part of the function
    ctx.ob("R15.3", "loop-free", not [l for l in leaves if l.kind == "loop"], "parse_header_line is loop-free (%d paths)" % len(leaves), fn.loc(0))
    S = Shapes(facts)
    arms = {}
    for lf in leaves:
        if lf.kind != "return":
            continue
        arm = classify_arm(facts, lf)
        if arm is None:
            ctx.fail("R15.3", "unclassified-path|bb%s" % lf.trace[-2:], "a path through parse_header_line is not selected by utf-8 validity, the colon split or the header name", fn.loc(lf.bb))
            continue
        arms.setdefault(arm, []).append(lf)
    # R15.6 the split
    split_ok = False

    def utf8_of_arg(src):
        u = payload_of(src)
        return u is not None and is_call(u, "from_utf8") and look(u[2][0]) == ("arg", 2)

    for lf in leaves:
        for (t, c, _bb) in lf.conds:
            if t[0] == "bin" and t[1] in ("Ne", "Eq") and is_call(look(t[2]), "len"):
                coll = look(look(t[2])[2][0])
                if is_call(coll, "collect"):
                    sp = look(coll[2][0])
                    if is_call(sp, "splitn"):
                        split_ok = utf8_of_arg(sp[2][0]) and const_of(sp[2][1]) == 2 and const_of(sp[2][2]) == 58 and const_of(t[3]) == 2
            if t[0] == "discr" and is_call(look(t[1]), "next"):
                ls_ = line_split(("payload", look(t[1])))
                if ls_ is not None and ls_[0] == 1:
                    # the second item of splitn(2, ':') exists exactly when there is a colon
                    sp = ls_[1]
                    split_ok = sp[1].startswith("core::str") and utf8_of_arg(sp[2][0]) and const_of(sp[2][1]) == 2 and const_of(sp[2][2]) == 58
            y, _o = tested_call(t, c)
            if y is not None and is_call(y, "split_once"):
                # split_once(':') = (before the first colon, everything after it), None without a colon
                split_ok = utf8_of_arg(y[2][0]) and const_of(y[2][1]) == 58
    ctx.ob("R15.6", "splitn-2-colon", split_ok, "the line (as UTF-8 of the argument) is split with splitn(2, ':') and both parts are required", fn.loc(0))
    # R15.3 per arm error sets
    for arm in ARM_ERRORS:
        if arm not in arms:
            ctx.fail("R15.3", "arm-missing|%s" % arm, "no path for arm %s in parse_header_line" % arm, fn.loc(0))
    for arm, lfs in sorted(arms.items()):
        if arm not in ARM_ERRORS:
            ctx.fail("R15.3", "arm-unknown|%s" % arm, "parse_header_line has an arm the checker does not know (%s): fail closed" % arm, fn.loc(lfs[0].bb))
            continue
        errs = set()
        oks = 0
        for lf in lfs:
            for s in S.eval(lf.ret(), fn):
                n = err_name(s)
                if n is None:
                    oks += 1
                else:
                    errs.add(n)
        want = ARM_ERRORS[arm]
        ctx.ob("R15.3", "arm-errors|%s" % arm, errs == want, "arm %s can return errors %s (documented: %s)" % (arm, sorted(errs), sorted(want)), fn.loc(lfs[0].bb))
        # whether a line is a fault is decided by the line alone: no test on a rejecting path reads the Headers gathered
        # so far (a "conflicting Content-Length" guard makes an acceptable value fatal depending on what came before)
        for lf in lfs:
            rets = S.eval(lf.ret(), fn)
            if not any(err_name(s_) is not None for s_ in rets):
                continue
            reads_self = [t for (t, c, _bb) in lf.conds if any(isinstance(x, tuple) and x and x[0] == "field" and look(x[1]) == ("arg", 1) for x in subterms(t))]
            ctx.ob("R15.3", "arm-fault-decided-by-the-line|%s|bb%d" % (arm, lf.bb), not reads_self, "arm %s: a rejecting path tests only the line (tests that read self: %s)" % (arm, [term_s(t)[:60] for t in reads_self][:2]), fn.loc(lf.bb))
        if arm not in ("<no-colon>", "<not-utf8>"):
            ctx.ob("R15.3", "arm-accepts|%s" % arm, oks >= 1, "arm %s has an accepting path" % arm, fn.loc(lfs[0].bb))
    # R15.2 trim discipline + R15.4 writers
    recognised = [a for a in arms if not a.startswith("<")]
    for arm in recognised:
        for lf in arms[arm]:
            uses = []
            for (t, c, _bb) in lf.conds:
                value_uses(t, uses)
            for e in lf.events:
                if e[0] == "assign" and e[3].startswith("(*_1)"):
                    value_uses(e[4], uses)
            r = lf.ret()
            if r[0] == "call":
                value_uses(r, uses)
            bad = [u for u in uses if u is None or last_seg(u) != "trim"]
            if arm == "AcceptEncoding" and "common::headers::Encoding::try_from" in bad and encoding_trims_itself(facts):
                bad = [u for u in bad if u != "common::headers::Encoding::try_from"]
            if arm != "Server":
                ctx.ob("R15.2", "trim|%s|bb%d" % (arm, lf.trace[-2] if len(lf.trace) > 1 else lf.bb), not bad, "arm %s: the value is interpreted only through trim() (%d uses, untrimmed via %s)" % (arm, len(uses), bad), fn.loc(lf.bb))
    uses_total = 0
    for arm in ("ContentLength", "ContentType", "Accept", "TransferEncoding", "Expect", "AcceptEncoding"):
        n = 0
        for lf in arms.get(arm, []):
            u = []
            for (t, c, _bb) in lf.conds:
                value_uses(t, u)
            r = lf.ret()
            if r[0] == "call":
                value_uses(r, u)
            n += len(u)
        uses_total += n
        ctx.ob("R15.2", "interprets-value|%s" % arm, n >= 1, "arm %s actually looks at the value (%d uses)" % (arm, n), fn.loc(0))
    # custom entries
    for lf in arms.get("<custom>", []):
        ev = [e for e in lf.events if e[0] == "call" and e[3] == "common::headers::Headers::insert_custom_header"]
        ok = len(ev) == 1
        if ok:
            a = ev[0][4][2]
            k, v = look(a[1]), look(a[2])
            ok = look(a[0]) == ("arg", 1) and is_call(k, "to_string", "to_owned", "from", "into") and is_call(look(k[2][0]), "trim") and entries_index(look(k[2][0])[2][0], 0) and is_call(v, "to_string", "to_owned", "from", "into") and is_call(look(v[2][0]), "trim") and entries_index(look(v[2][0])[2][0], 1)
        ctx.ob("R15.2", "custom|trimmed-pair", ok, "an unrecognised name is stored as (trim(name), trim(value))", fn.loc(lf.bb))
    fi = facts.fn("common::headers::Headers::insert_custom_header")
    ctx.touched(fi)
    for lf in PathEnum(fi, facts).run():
        ev = [e for e in lf.events if e[0] == "call" and "HashMap" in e[3]]
        ok = len(ev) == 1 and last_seg(ev[0][3]) == "insert" and look(ev[0][4][2][1]) == ("arg", 2) and look(ev[0][4][2][2]) == ("arg", 3)
        r = lf.ret()
        ctx.ob("R15.2", "custom|hashmap-insert", ok and r[0] == "agg" and r[2] == "Ok", "insert_custom_header is HashMap::insert(key, value) (last occurrence wins) and returns Ok", fi.loc(0))
    # R15.4
    # setters of Headers that are in the frozen list (so not traversed inline) and store their argument unchanged: calling one is the write
    id_setters = {}
    for nm_, f_ in facts.fns.items():
        if nm_.startswith(H + "::") and f_.nargs == 2 and f_.d["kind"] != "closure":
            try:
                fl_ = [l_ for l_ in PathEnum(f_, facts).run()]
            except AnalysisError:
                continue
            tg = set()
            for l_ in fl_:
                aa = [e for e in l_.events if e[0] == "assign" and e[3].startswith("(*_1).")]
                if l_.kind == "return" and len(aa) == 1 and look(aa[0][4]) == ("arg", 2) and len([e for e in l_.events if e[0] == "call"]) == 0:
                    tg.add(aa[0][3][len("(*_1)."):])
                else:
                    tg.add(None)
            if len(tg) == 1 and None not in tg:
                id_setters[nm_] = tg.pop()

    def assigns(lf, field):
        out = [e for e in lf.events if e[0] == "assign" and e[3] == "(*_1).%s" % field]
        for e in lf.events:
            if e[0] == "call" and id_setters.get(e[3]) == field and look(e[4][2][0]) == ("arg", 1):
                out.append(("assign", e[1], None, "(*_1).%s" % field, e[4][2][1], None))
        return out

    for arm, field in (("ContentLength", "content_length"), ("Accept", "accept")):
        for lf in arms.get(arm, []):
            r = lf.ret()
            isok = r[0] == "agg" and r[2] == "Ok"
            a = assigns(lf, field)
            if isok:
                good = len(a) == 1
                if good:
                    v = look(a[0][4])
                    src = "parse" if field == "content_length" else "common::headers::MediaType::try_from"
                    good = payload_of(v) is not None and is_call(payload_of(v), src)
                ctx.ob("R15.4", "last-wins|%s" % field, good, "an accepted %s line overwrites self.%s with the parsed value" % (arm, field), fn.loc(lf.bb))
            else:
                ctx.ob("R15.4", "rejected-does-not-write|%s" % field, not a, "a rejected %s line leaves self.%s alone" % (arm, field), fn.loc(lf.bb))
    for arm, field, const in (("Expect", "expect", "100-continue"), ("TransferEncoding", "chunked", "chunked")):
        setters = 0

        def eq_const(t):
            """+1 / -1 if t is `x == const` / `x != const` on a str, else 0"""
            if is_call(t, "eq", "ne") and len(t[2]) == 2 and (const_of(t[2][1]) == const or const_of(t[2][0]) == const):
                return 1 if last_seg(t[1]) == "eq" else -1
            return 0

        for lf in arms.get(arm, []):
            a = assigns(lf, field)
            asked = False
            for (t, c, _bb) in lf.conds:
                neg = False
                x = t
                while x[0] == "un" and x[1] == "Not":
                    x, neg = look(x[2]), not neg
                k = eq_const(x)
                tv = truth(c)
                if k and tv is not None:
                    if (tv != neg) == (k == 1):
                        asked = True
            # `self.flag |= value == CONST`: can only ever turn the flag on, whatever the path
            ors = [e for e in a if e[4][0] == "bin" and e[4][1] == "BitOr" and any(eq_const(look(x)) == 1 for x in e[4][2:4]) and any(look(x)[0] == "field" and look(x)[3] == field for x in e[4][2:4])]
            if ors and len(ors) == len(a):
                setters += 1
                ctx.ob("R15.4", "any-wins|%s|set" % field, len(a) == 1, "self.%s |= (value == %r): the flag can only be turned on" % (field, const), fn.loc(lf.bb))
            elif asked:
                setters += 1
                ctx.ob("R15.4", "any-wins|%s|set" % field, len(a) == 1 and a[0][4] == ("const", True), "a %s line asking for %r sets self.%s = true" % (arm, const, field), fn.loc(lf.bb))
            else:
                ctx.ob("R15.4", "any-wins|%s|untouched|bb%d" % (field, lf.trace[-2]), not a, "any other %s value leaves self.%s alone" % (arm, field), fn.loc(lf.bb))
        ctx.ob("R15.4", "any-wins|%s|has-setter" % field, setters >= 1, "a path sets self.%s (found %d)" % (field, setters), fn.loc(0))
    # all writers of the four fields in the crate
    allowed = {
        "content_length": {PHL, "<common::headers::Headers as std::default::Default>::default"},
        "expect": {PHL, "<common::headers::Headers as std::default::Default>::default"},
        "chunked": {PHL, "<common::headers::Headers as std::default::Default>::default"},
        "accept": {PHL, "<common::headers::Headers as std::default::Default>::default", "common::headers::Headers::set_accept"},
        "custom_entries": {"common::headers::Headers::insert_custom_header", "<common::headers::Headers as std::default::Default>::default"},
    }
    for field, ok_fns in allowed.items():
        for w in field_writers(facts, H, field):
            ctx.ob("R15.4", "writers|%s|%s" % (field, w[0]), writer_roots(facts, w[0]) <= ok_fns, "writer of Headers.%s: %s (%s)" % (field, w[0], w[3]), w[2])
    # other arms write nothing
    for arm in arms:
        for lf in arms[arm]:
            w = [e for e in lf.events if e[0] == "assign" and e[3].startswith("(*_1).")]
            fields = {e[3].split(".")[-1] for e in w}
            expect = {"ContentLength": {"content_length"}, "Accept": {"accept"}, "Expect": {"expect"}, "TransferEncoding": {"chunked"}}.get(arm, set())
            ctx.ob("R15.4", "arm-writes|%s|bb%d" % (arm, lf.trace[-2] if len(lf.trace) > 1 else 0), fields <= expect, "arm %s writes only %s (writes %s)" % (arm, sorted(expect), sorted(fields)), fn.loc(lf.bb))
    # R15.5
    n = 0
    from .util import calls_with_helpers
    for fn_, bb, t in calls_with_helpers(facts, fn, "parse"):
        targs = [x["s"] for x in t["callee"].get("targs", [])]
        n += 1
        ctx.ob("R15.5", "parse-u32", targs == ["u32"], "Content-Length parsed with str::parse::<%s>" % ",".join(targs), fn.loc(bb))
    ctx.ob("R15.5", "one-parse", n == 1, "%d parse call(s) in parse_header_line" % n, fn.loc(0))
    fty = [f for f in facts.struct_fields(H) if f["name"] == "content_length"]
    ctx.ob("R15.5", "field-u32", fty and fty[0]["ty"]["s"] == "u32", "Headers.content_length is a %s" % (fty[0]["ty"]["s"] if fty else "?"))
    headers_default(ctx, "R15.4")


def headers_default(ctx, rule, fields=("content_length", "expect", "chunked", "custom_entries", "accept")):
    """What a request starts from: Headers::default() is length 0, expect false, chunked false, no custom entries, accept PlainText
    (as literals or as Default::default() of the field type)."""
    facts = ctx.facts
    fd = facts.fn("<common::headers::Headers as std::default::Default>::default")
    ctx.touched(fd)
    names_ = [f["name"] for f in facts.struct_fields(H)]
    want = {"content_length": 0, "expect": False, "chunked": False}
    n = 0
    for lf in PathEnum(fd, facts).run():
        r = lf.ret()
        n += 1
        if not (r[0] == "agg" and r[1] == H):
            ctx.fail(rule, "default|not-a-literal", "Headers::default does not return a literal", fd.loc(0))
            continue
        for f in fields:
            v = look(r[3][names_.index(f)])
            if f == "accept":
                ok = v[0] == "agg" and v[2] == "PlainText"
            elif f == "custom_entries":
                ok = v[0] == "call" and not v[2] and last_seg(v[1]) in ("default", "new")
            else:
                ok = (v[0] == "call" and not v[2] and last_seg(v[1]) == "default") or (v[0] == "const" and v[1] == want[f] and type(v[1]) is type(want[f]))
            ctx.ob(rule, "default|%s" % f, ok, "Headers::default().%s is %s" % (f, {"accept": "PlainText", "custom_entries": "empty"}.get(f, repr(want.get(f)))), fd.loc(0))
    ctx.ob(rule, "default|floor", n >= 1, "%d path(s) of Headers::default inspected" % n, fd.loc(0))


def result_pattern(conds, is_result):
    """Constructor pattern established on this path for the value R with is_result(R):
    'Ok' | ('Err', name-or-None, inner-or-None, exact: bool)."""
    state = None
    for (t, c, _bb) in conds:
        if t[0] != "discr":
            continue
        x = look(t[1])
        if is_result(x):
            if c == ("eq", 0) or (c[0] == "ne" and 1 in c[1] and 0 not in c[1]):
                return "Ok"
            if (c == ("eq", 1) or (c[0] == "ne" and 0 in c[1])) and state is None:
                state = ["Err", None, None]
        elif x[0] == "field" and x[1][0] == "downcast" and x[1][2] == "Err" and is_result(look(x[1][1])) and state:
            state[1] = c
        elif x[0] == "field" and x[1][0] == "downcast" and x[1][2] == "HeaderError" and state:
            state[2] = c
    return tuple(state) if state else None


def tolerated_set(ctx, rule, key, fn, leaves, is_result, continues, returns_err_of):
    """Check that the outcomes of parse_header_line that do not return are exactly
    {Ok, Err(HeaderError(UnsupportedValue))} and every other outcome returns that error."""
    facts = ctx.facts
    rdiscr = facts.variant_discr("common::RequestError")
    hdiscr = facts.variant_discr("common::HttpHeaderError")
    he = [d for d, n in rdiscr.items() if n == "HeaderError"][0]
    uv = [d for d, n in hdiscr.items() if n == "UnsupportedValue"][0]
    tolerated = set()
    fatal = set()
    n = 0
    for lf in leaves:
        pat = result_pattern(lf.conds, is_result)
        if pat is None:
            continue
        n += 1
        if pat == "Ok":
            desc = "Ok"
        else:
            c1, c2 = pat[1], pat[2]
            if c1 is None:
                desc = "Err(*)"
            elif c1 == ("eq", he):
                if c2 == ("eq", uv):
                    desc = "Err(HeaderError(UnsupportedValue))"
                elif c2 is not None and c2[0] == "eq":
                    desc = "Err(HeaderError(%s))" % hdiscr.get(c2[1])
                elif c2 is not None and c2[0] == "ne":
                    desc = "Err(HeaderError(not %s))" % sorted(hdiscr.get(x) for x in c2[1])
                else:
                    desc = "Err(HeaderError(*))"
            elif c1[0] == "eq":
                desc = "Err(%s)" % rdiscr.get(c1[1])
            else:
                desc = "Err(not %s)" % sorted(rdiscr.get(x) for x in c1[1])
        cont = continues(lf)
        if cont is None:
            continue  # leaves the parser for an unrelated reason (e.g. a checked_add guard)
        if cont:
            tolerated.add(desc)
        else:
            fatal.add(desc)
            ctx.ob(rule, "%s|fatal-returns-the-error|%s" % (key, desc), returns_err_of(lf), "outcome %s returns the line parser's error" % desc, fn.loc(lf.bb))
    want = {"Ok", "Err(HeaderError(UnsupportedValue))"}
    ctx.ob(rule, "%s|tolerated-set" % key, tolerated == want, "outcomes of parse_header_line after which parsing continues: %s (must be exactly Ok and UnsupportedValue)" % sorted(tolerated), fn.loc(0))
    covers = {"Err(not ['HeaderError'])", "Err(HeaderError(not ['UnsupportedValue']))"}
    ctx.ob(rule, "%s|fatal-set" % key, fatal == covers, "outcomes that abort: %s" % sorted(fatal), fn.loc(0))
    ctx.ob(rule, "%s|floor" % key, n >= 4, "%d paths through the result of parse_header_line classified (floor 4)" % n, fn.loc(0))


def block(ctx, rule):
    facts = ctx.facts
    fn = facts.fn("common::headers::Headers::try_from")
    ctx.touched(fn)
    leaves = PathEnum(fn, facts).run()

    def is_phl(x):
        return is_call(x, PHL)

    def continues(lf):
        return lf.kind == "loop"

    def returns_err_of(lf):
        r = lf.ret()
        if lf.kind == "return" and is_call(look(r), "from_residual"):
            src, errv = propagated_error(r)      # `line_parser(..)?`: the parser's own error
            return errv is None and is_phl(src)
        if not (lf.kind == "return" and r[0] == "agg" and r[2] == "Err"):
            return False
        e = look(r[3][0])
        return e[0] == "field" and e[1][0] == "downcast" and e[1][2] == "Err" and is_phl(look(e[1][1]))

    tolerated_set(ctx, rule, "block", fn, leaves, is_phl, continues, returns_err_of)
    # iteration: split("\r\n") over the utf-8 text of the argument, stop at the first empty piece
    it_ok = emp_ok = line_ok = False
    for lf in leaves:
        for (t, c, _bb) in lf.conds:
            if t[0] == "discr" and is_call(look(t[1]), "next"):
                it = look(look(t[1])[2][0])
                while is_call(it, "into_iter") or it[0] == "mut":
                    it = look(it[2][0]) if it[0] == "call" else look(it[1])
                stops = False
                if is_call(it, "take_while") and len(it[2]) == 2:
                    # split(..).take_while(|l| !l.is_empty()): the iteration itself ends at the first empty piece
                    clo = look(it[2][1])
                    if clo[0] == "closure" and clo[1] in facts.fns:
                        stops = True
                        for l2 in PathEnum(facts.fns[clo[1]], facts).run():
                            r2 = look(l2.ret())
                            stops = stops and r2[0] == "un" and r2[1] == "Not" and is_call(look(r2[2]), "is_empty") and look(look(r2[2])[2][0]) in (("arg", 2), ("deref", ("arg", 2)))
                    it = look(it[2][0])
                    while is_call(it, "into_iter") or it[0] == "mut":
                        it = look(it[2][0]) if it[0] == "call" else look(it[1])
                if is_call(it, "split") and const_of(it[2][1]) == "\r\n":
                    u = payload_of(it[2][0])
                    if u is not None and is_call(u, "from_utf8") and look(u[2][0]) == ("arg", 1):
                        it_ok = True
                        if stops and option_is_some(c) is False and lf.kind == "return" and lf.ret()[0] == "agg" and lf.ret()[2] == "Ok":
                            emp_ok = True
            if is_call(t, "is_empty") and truth(c) is True and lf.kind == "return":
                r = lf.ret()
                if r[0] == "agg" and r[2] == "Ok":
                    emp_ok = True
        for e in lf.events:
            if e[0] == "call" and e[3] == PHL:
                a = look(e[4][2][1])
                if payload_of(a) is not None and is_call(payload_of(a), "next"):
                    line_ok = True
    ctx.ob(rule, "block|split-crlf", it_ok, "the block is iterated as split(\"\\r\\n\") of its UTF-8 text", fn.loc(0))
    ctx.ob(rule, "block|stops-at-empty", emp_ok, "the first empty piece ends parsing with Ok", fn.loc(0))
    ctx.ob(rule, "block|each-piece-parsed", line_ok, "each non-empty piece is handed to parse_header_line", fn.loc(0))
    # the Headers value returned is the one the lines were parsed into
    ok_ret = True
    for lf in leaves:
        if lf.kind == "return":
            r = lf.ret()
            if r[0] == "agg" and r[2] == "Ok":
                v = look(r[3][0])
                while v[0] == "mut":
                    v = look(v[1])
                ok_ret = ok_ret and is_call(v, "default")
    ctx.ob(rule, "block|returns-parsed-headers", ok_ret, "Ok carries the Headers the lines were parsed into (starting from default)", fn.loc(0))


def _is_text(t):
    """The argument of Encoding::try_from decoded: the Ok payload of from_utf8(arg1)."""
    src = payload_of(look(t)) if isinstance(t, tuple) and t else None
    return src is not None and is_call(src, "from_utf8") and look(src[2][0]) == ("arg", 1)


def _text_uses(term, acc, parent=None):
    if not isinstance(term, tuple) or not term:
        return
    if _is_text(term):
        acc.append(parent)
        return
    if term[0] == "call":
        for a in term[2]:
            _text_uses(a, acc, term[1])
        return
    if term[0] in ("ref", "deref"):
        _text_uses(term[1], acc, parent)
        return
    for x in term[1:]:
        if isinstance(x, tuple) and x and isinstance(x[0], str):
            _text_uses(x, acc, parent)
        elif isinstance(x, tuple):
            for y in x:
                if isinstance(y, tuple):
                    _text_uses(y, acc, parent)


def encoding_trims_itself(facts):
    """Encoding::try_from may be handed the untrimmed value when it does the caller's part itself: the decoded
    text is looked at only through trim(), and the trimmed text is tested for emptiness with the empty case
    rejected (the test on the raw bytes is not that test: blanks are not empty)."""
    fn = facts.fn("common::headers::Encoding::try_from")
    only_trimmed = True
    empty_rejected = False
    n = 0
    for lf in PathEnum(fn, facts).run():
        for (t, c, _bb) in lf.conds:
            uses = []
            _text_uses(t, uses)
            n += len(uses)
            if any(u is None or last_seg(u) != "trim" for u in uses):
                only_trimmed = False
            tv = truth(c)
            x = t
            while x[0] == "un" and x[1] == "Not":
                x = look(x[2])
                tv = None if tv is None else not tv
            if is_call(x, "is_empty") and is_call(look(x[2][0]), "trim") and _is_text(look(x[2][0])[2][0]) and tv is True:
                r = lf.ret() if lf.kind == "return" else None
                if r is not None and r[0] == "agg" and r[2] == "Err":
                    empty_rejected = True
    return only_trimmed and empty_rejected and n > 0


def encoding(ctx):
    facts = ctx.facts
    fn = facts.fn("common::headers::Encoding::try_from")
    ctx.touched(fn)
    leaves = PathEnum(fn, facts).run()
    seen = set()
    for lf in leaves:
        def cond(pred, want):
            for (t, c, _bb) in lf.conds:
                tv = truth(c)
                while t[0] == "un" and t[1] == "Not":
                    t = look(t[2])
                    tv = None if tv is None else not tv
                if pred(t) and tv is want:
                    return True
            return False

        empty = cond(lambda t: is_call(t, "is_empty") and (look(t[2][0]) == ("arg", 1) or (is_call(look(t[2][0]), "trim") and _is_text(look(t[2][0])[2][0]))), True)
        r = lf.ret()
        isok = lf.kind == "return" and r[0] == "agg" and r[2] == "Ok"
        iserr = lf.kind == "return" and r[0] == "agg" and r[2] == "Err"
        if empty:
            seen.add("empty")
            ctx.ob("R15.9", "empty-rejected", iserr, "an empty value is rejected", fn.loc(lf.bb))
            continue
        idq = cond(lambda t: is_call(t, "eq") and const_of(t[2][1]) == "identity;q=0", True)
        starq = cond(lambda t: is_call(t, "eq") and const_of(t[2][1]) == "*;q=0", True)
        has_id = cond(lambda t: is_call(t, "contains") and const_of(t[2][1]) == "identity", True)
        no_id = cond(lambda t: is_call(t, "contains") and const_of(t[2][1]) == "identity", False)
        if idq:
            seen.add("identity;q=0")
            ctx.ob("R15.9", "identity-q0-rejected", iserr, "an element equal to 'identity;q=0' rejects the header", fn.loc(lf.bb))
        elif starq and no_id:
            seen.add("*;q=0")
            ctx.ob("R15.9", "star-q0-rejected", iserr, "'*;q=0' with no mention of identity rejects the header", fn.loc(lf.bb))
        elif starq and has_id:
            seen.add("*;q=0+identity")
            ctx.ob("R15.9", "star-q0-with-identity-continues", lf.kind == "loop" or isok, "'*;q=0' with identity mentioned is acceptable", fn.loc(lf.bb))
        elif lf.kind == "return" and iserr and any(t[0] == "discr" and is_call(look(t[1]), "find", "position") and "Iterator" in look(t[1])[1] for (t, c, _bb) in lf.conds):
            pass     # the rejection of the search form: judged below
        elif lf.kind == "return" and iserr:
            nonutf = cond(lambda t: t[0] == "discr" and is_call(look(t[1]), "from_utf8"), None) or any(t[0] == "discr" and is_call(look(t[1]), "from_utf8") and c == ("eq", 1) for (t, c, _bb) in lf.conds)
            seen.add("non-utf8" if nonutf else "other-error")
            ctx.ob("R15.9", "other-error|bb%d" % lf.trace[-2], nonutf, "the only other rejection is invalid UTF-8", fn.loc(lf.bb))
    # the search form: text.split(',').find(|e| <e rules identity out>) -> Some(e) => Err, None => Ok
    finder = None
    for lf in leaves:
        for (t, c, _bb) in lf.conds:
            if t[0] == "discr" and is_call(look(t[1]), "find", "position") and "Iterator" in look(t[1])[1]:
                finder = look(t[1])
    if finder is not None and not ({"identity;q=0", "*;q=0"} <= seen):
        it = look(finder[2][0])
        while it[0] == "mut":
            it = look(it[1])
        clo = look(finder[2][1])
        src_ok = is_call(it, "split") and const_of(it[2][1]) in (44, ",") and clo[0] == "closure" and clo[1] in facts.fns
        text = it[2][0] if src_ok else None
        verdicts = set()
        subj_ok_f = False
        if src_ok:
            cf = facts.fns[clo[1]]
            ctx.touched(cf)
            for l2 in PathEnum(cf, facts, start_env={"_1": clo} if False else None).run():
                def cond2(pred, want):
                    for (t, c, _bb) in l2.conds:
                        tv = truth(c)
                        while t[0] == "un" and t[1] == "Not":
                            t = look(t[2])
                            tv = None if tv is None else not tv
                        if pred(t) and tv is want:
                            return True
                    return False
                r2 = look(l2.ret())
                neg = False
                while r2[0] == "un" and r2[1] == "Not":
                    r2, neg = look(r2[2]), not neg
                if r2[0] == "field" and look(r2[1]) == ("arg", 1) and str(r2[3]).isdigit() and int(r2[3]) < len(clo[2]):
                    # a value computed before the search and captured by the predicate (`let mentioned = text.contains("identity")`)
                    r2 = look(clo[2][int(r2[3])])
                    while r2[0] == "un" and r2[1] == "Not":
                        r2, neg = look(r2[2]), not neg
                idq = cond2(lambda t: is_call(t, "eq") and const_of(t[2][1]) == "identity;q=0", True)
                starq = cond2(lambda t: is_call(t, "eq") and const_of(t[2][1]) == "*;q=0", True)
                for (t, c, _bb) in l2.conds:
                    if is_call(t, "eq") and const_of(t[2][1]) == "identity;q=0":
                        sj = look(t[2][0])
                        trs = transforms(sj)
                        subj_ok_f = is_call(sj, "trim") and not any(x in CASEFOLD for x in trs) and any(x == ("arg", 2) for x in subterms(sj))
                val = None
                if r2[0] == "const" and isinstance(r2[1], bool):
                    val = r2[1] != neg
                elif is_call(r2, "contains") and const_of(r2[2][1]) == "identity":
                    val = "mentions" if not neg else "not-mentions"
                if idq:
                    verdicts.add(("identity;q=0", val))
                elif starq:
                    verdicts.add(("*;q=0", val))
                else:
                    verdicts.add(("other", val))
        want_v = {("identity;q=0", True), ("*;q=0", "not-mentions"), ("other", False)}
        ctx.ob("R15.9", "search|element-classifier", src_ok and verdicts == want_v, "the search predicate over the comma pieces is: 'identity;q=0' -> offending; '*;q=0' -> offending iff the header does not mention identity; anything else -> fine (found %s)" % sorted(verdicts, key=str), fn.loc(0))
        outcome = {}
        for lf in leaves:
            for (t, c, _bb) in lf.conds:
                if t[0] == "discr" and norm(look(t[1])) == norm(finder) and option_is_some(c) is not None and lf.kind == "return":
                    r = lf.ret()
                    outcome[option_is_some(c)] = r[2] if r[0] == "agg" else "?"
        ctx.ob("R15.9", "search|outcome", outcome == {True: "Err", False: "Ok"}, "an offending element rejects the header, none accepts it (%s)" % outcome, fn.loc(0))
        if src_ok and verdicts == want_v and outcome == {True: "Err", False: "Ok"}:
            seen |= {"identity;q=0", "*;q=0", "*;q=0+identity"}
            seen.discard("other-error")
        ctx.ob("R15.9", "element-is-trimmed-comma-piece", subj_ok_f, "each comma-separated element is compared after trim(), case-sensitively", fn.loc(0))
        ctx.ob("R15.9", "covered", {"empty", "identity;q=0", "*;q=0", "*;q=0+identity"} <= seen, "paths found: %s" % sorted(seen), fn.loc(0))
        return
    # element subject: trim(next(split(text, ',')))
    subj_ok = False
    for lf in leaves:
        for (t, c, _bb) in lf.conds:
            if is_call(t, "eq") and const_of(t[2][1]) == "identity;q=0":
                s = look(t[2][0])
                tr = transforms(s)
                subj_ok = is_call(s, "trim") and "split" in tr and not any(x in CASEFOLD for x in tr)
    ctx.ob("R15.9", "element-is-trimmed-comma-piece", subj_ok, "each comma-separated element is compared after trim(), case-sensitively", fn.loc(0))
    ctx.ob("R15.9", "covered", {"empty", "identity;q=0", "*;q=0", "*;q=0+identity"} <= seen, "paths found: %s" % sorted(seen), fn.loc(0))
