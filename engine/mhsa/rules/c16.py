"""C16 -- token and URI functions are exact, case-sensitive and round-trip."""
from ..core import AnalysisError, term_s
from ..paths import PathEnum
from ..tables import byte_matcher_language, enum_const_table, string_matcher, strip_refs
from .util import payload_of, CASEFOLD, NEUTRAL_STR, TRIM, cond_holds, const_of, is_call, last_seg, look, norm, transforms, truth

EXPLANATION = (
    "Static decision of the token tables: the exact accepted language of Method::try_from and "
    "Version::try_from is read off the decision tree of their MIR (every path to Ok must pin the "
    "length and every byte of the input) and compared with the image of raw(); MediaType::try_from's "
    "comparison chain, the normalising calls applied to its subject and the image of as_str() are "
    "compared; StatusCode::raw is checked to be the injective 3-digit table the variant names stand "
    "for; every value Uri::get_abs_path can return is classified (empty constant / whole URI under "
    "starts_with('/') / suffix starting where a byte test == '/' succeeded after the 'http://' prefix); "
    "the string it reads is the URI as given (Uri::new stores its argument unchanged). "
    "This decides the statement for all inputs given the semantics of str::{trim,starts_with,eq}; "
    "it decides these clauses, not run-time behaviour of std."
)
TRUSTED = ["semantics of str::trim / starts_with / PartialEq::eq, Iterator::position, slice pattern lowering"]
ASSUMPTIONS = ["std string functions behave as documented"]
NOT_DECIDED = "nothing beyond trusting std string primitives"

STATUS_NUMBERS = {
    "Continue": 100, "OK": 200, "NoContent": 204, "BadRequest": 400, "Unauthorized": 401,
    "NotFound": 404, "MethodNotAllowed": 405, "PayloadTooLarge": 413, "InternalServerError": 500,
    "NotImplemented": 501, "ServiceUnavailable": 503,
}


def lookup_language(facts, f_try, adt, raw, table):
    """The parser written as a search of a table of all values for the one whose canonical spelling equals the
    input:  ALL.iter().copied().find(|v| v.raw() == bytes).ok_or(err).  Its language is raw() over the table."""
    from ..tables import table_search
    ts = table_search(facts, f_try, adt)
    if ts is None or ts["conds"]:
        return None
    ci = ts["mode"] != "exact"
    if look(ts["subject"]) != ("arg", 1):
        return None
    try:
        tbl = table if ts["item_fn"] == raw else enum_const_table(facts, facts.fns[ts["item_fn"]], adt)
    except AnalysisError:
        return None
    discr = facts.variant_discr(adt)
    accept = {}
    for v in ts["variants"]:
        c = tbl[v]
        b = c if isinstance(c, bytes) else str(c).encode()
        accept.setdefault(b, v)      # find() returns the first match
    missing = [v for v in discr.values() if v not in ts["variants"]]
    inexact = ["the lookup table leaves out %s" % missing] if missing else []
    if ci:
        inexact.append("the table is searched with eq_ignore_ascii_case: every case variant of a canonical token is accepted (e.g. %r)" % (sorted(accept)[0].lower() if accept else b""))
    return accept, inexact


def token_roundtrip(ctx, rule, adt, try_from, raw):
    facts = ctx.facts
    f_try, f_raw = facts.fn(try_from), facts.fn(raw)
    ctx.touched(f_try, f_raw)
    table = enum_const_table(facts, f_raw, adt)
    lk = lookup_language(facts, f_try, adt, raw, table)
    accept, inexact = lk if lk is not None else byte_matcher_language(facts, f_try)
    for msg in inexact:
        ctx.fail(rule, "%s|inexact" % try_from, msg, f_try.loc(0))
    image = {}
    for var, c in table.items():
        b = c if isinstance(c, bytes) else str(c).encode()
        if b in image:
            ctx.fail(rule, "%s|raw-not-injective|%s" % (raw, var), "raw() maps %s and %s to the same bytes %r" % (var, image[b], b), f_raw.loc(0))
        image[b] = var
        ok = accept.get(b) == var
        ctx.ob(rule, "%s|roundtrip|%s" % (try_from, var), ok, "try_from(raw(%s)) = %s (raw = %r)" % (var, accept.get(b), b), f_try.loc(0))
    for b, var in accept.items():
        ok = image.get(b) == var
        ctx.ob(rule, "%s|accepts|%s" % (try_from, b.decode("latin-1")), ok,
               "accepted spelling %r -> %s %s" % (b, var, "is canonical" if ok else "is NOT in the image of raw() (canonical: %s)" % sorted(image)), f_try.loc(0))
    return accept, table


def run(ctx):
    facts = ctx.facts
    ctx.rule("R16.1", "Method/Version/MediaType parsers accept exactly the image of raw()/as_str() and parse(print(v)) = v")
    ctx.rule("R16.2", "StatusCode::raw maps every variant to its own distinct 3-digit HTTP code")
    ctx.rule("R16.3", "every value of Uri::get_abs_path is '' or a '/'-prefixed suffix located as the property says")

    ctx.guarded("R16.1", "Method", lambda: token_roundtrip(ctx, "R16.1", "common::Method", "common::Method::try_from", "common::Method::raw"))
    ctx.guarded("R16.1", "Version", lambda: token_roundtrip(ctx, "R16.1", "common::Version", "common::Version::try_from", "common::Version::raw"))

    def expected_tokens():
        f = facts.fn("common::Method::raw")
        t = enum_const_table(facts, f, "common::Method")
        want = {"Get": b"GET", "Put": b"PUT", "Patch": b"PATCH"}
        ctx.ob("R16.1", "Method|canonical-spellings", {k: (v if isinstance(v, bytes) else v.encode()) for k, v in t.items()} == want, "Method::raw table %r (expected GET/PUT/PATCH)" % t, f.loc(0))
        f = facts.fn("common::Version::raw")
        t = enum_const_table(facts, f, "common::Version")
        ctx.ob("R16.1", "Version|canonical-spellings", t == {"Http10": b"HTTP/1.0", "Http11": b"HTTP/1.1"}, "Version::raw table %r" % t, f.loc(0))

    ctx.guarded("R16.1", "canonical", expected_tokens)
    ctx.guarded("R16.1", "MediaType", lambda: media_type(ctx))
    ctx.guarded("R16.2", "StatusCode", lambda: status_table(ctx, "R16.2"))
    ctx.guarded("R16.3", "get_abs_path", lambda: abs_path(ctx))
    ctx.rule("R16.4", "\"the URI itself\": the string get_abs_path reads is the URI as given -- Uri::new stores String::from(its argument), Uri::try_from passes the whole UTF-8 slice (= C02 R02.4)")
    from .c06 import _Remap
    from .c02 import uri
    ctx.guarded("R16.4", "uri", lambda: uri(_Remap(ctx, "R16.4")))


def media_type(ctx):
    facts = ctx.facts
    f_try, f_str = facts.fn("common::headers::MediaType::try_from"), facts.fn("common::headers::MediaType::as_str")
    ctx.touched(f_try, f_str)
    table = enum_const_table(facts, f_str, "common::headers::MediaType")
    ctx.ob("R16.1", "MediaType|canonical-spellings", table == {"PlainText": "text/plain", "ApplicationJson": "application/json"}, "MediaType::as_str table %r" % table, f_str.loc(0))
    from ..tables import table_search
    MT = "common::headers::MediaType"
    ts = table_search(facts, f_try, MT)
    if ts is not None and ts["mode"] == "exact":
        # written as a search of a table of all media types for the one whose as_str() equals the (trimmed) input
        tbl = table if ts["item_fn"] == f_str.name else enum_const_table(facts, facts.fns[ts["item_fn"]], MT)
        acc = {}
        for v in ts["variants"]:
            acc.setdefault(tbl[v] if not isinstance(tbl[v], bytes) else tbl[v].decode("latin-1"), v)
        subjects, other_ok = [ts["subject"]], []
    else:
        acc, subjects, other_ok = string_matcher(facts, f_try, folds={"common::headers::MediaType::as_str": table})
    ctx.ob("R16.1", "MediaType|only-by-comparison", not other_ok, "every Ok return is selected by an == comparison with a constant (%d other Ok paths)" % len(other_ok), f_try.loc(0))
    ctx.ob("R16.1", "MediaType|one-subject", len({norm(s) for s in subjects}) == 1, "all comparisons test the same derived string (%d subjects)" % len(subjects), f_try.loc(0))
    image = {v: k for k, v in table.items()}
    for var, s in table.items():
        ctx.ob("R16.1", "MediaType|roundtrip|%s" % var, acc.get(s) == var, "try_from(as_str(%s)) = %s" % (var, acc.get(s)), f_try.loc(0))
    for s, var in acc.items():
        ctx.ob("R16.1", "MediaType|accepts|%s" % s, image.get(s) == var, "accepted spelling %r -> %s" % (s, var), f_try.loc(0))
    for subj in subjects[:1]:
        tr = transforms(subj)
        fold = [x for x in tr if x in CASEFOLD]
        unknown = [x for x in tr if x not in NEUTRAL_STR and x not in TRIM and x not in CASEFOLD]
        ctx.ob("R16.1", "MediaType|case-sensitive", not fold, "no case-folding call on the compared string (found %s)" % fold, f_try.loc(0))
        ctx.ob("R16.1", "MediaType|trimmed", "trim" in tr, "the compared string passes through trim() (surrounding whitespace ignored)", f_try.loc(0))
        ctx.ob("R16.1", "MediaType|known-normalisers", not unknown, "only identity/trim calls between the input and the comparison (unrecognised: %s)" % unknown, f_try.loc(0))
        from ..core import subterms
        ctx.ob("R16.1", "MediaType|subject-is-input", any(s == ("arg", 1) for s in subterms(subj)), "the compared string derives from the argument", f_try.loc(0))


def status_table(ctx, rule):
    facts = ctx.facts
    f = facts.fn("response::StatusCode::raw")
    ctx.touched(f)
    table = enum_const_table(facts, f, "response::StatusCode")
    seen = {}
    for var, c in table.items():
        b = c if isinstance(c, bytes) else str(c).encode()
        ok3 = len(b) == 3 and b.isdigit()
        ctx.ob(rule, "StatusCode|3-digits|%s" % var, ok3, "%s -> %r is three ASCII digits" % (var, b), f.loc(0))
        ctx.ob(rule, "StatusCode|distinct|%s" % var, b not in seen, "%s -> %r %s" % (var, b, "is distinct" if b not in seen else "duplicates %s" % seen.get(b)), f.loc(0))
        seen.setdefault(b, var)
        want = STATUS_NUMBERS.get(var)
        if want is None:
            ctx.fail(rule, "StatusCode|unknown-variant|%s" % var, "variant %s is not in the checker's table of HTTP codes (fail closed)" % var, f.loc(0))
        else:
            ctx.ob(rule, "StatusCode|number|%s" % var, ok3 and int(b) == want, "%s serializes as %r (HTTP code %d)" % (var, b, want), f.loc(0))
    return table


def abs_path(ctx):
    facts = ctx.facts
    fn = facts.fn("request::Uri::get_abs_path")
    ctx.touched(fn)
    leaves = PathEnum(fn, facts, lower=True).run()
    rets = [lf for lf in leaves if lf.kind == "return"]
    ctx.ob("R16.3", "loop-free", not [lf for lf in leaves if lf.kind == "loop"], "get_abs_path is loop-free (paths enumerated: %d)" % len(leaves), fn.loc(0))

    def whole(t):
        t = look(t)
        return t[0] == "field" and t[3] == "string" and look(t[1]) == ("arg", 1)

    whole_bytes = whole     # look() sees through as_bytes()

    def first_is_slash(t):
        """the URI's first byte is '/': starts_with('/') on the string, starts_with(b"/") on its bytes, or bytes.first() == Some(&b'/')"""
        if is_call(t, "starts_with"):
            return (whole(t[2][0]) and const_of(t[2][1]) in (47, "/")) or (whole_bytes(t[2][0]) and const_of(t[2][1]) == b"/")
        if is_call(t, "eq") and len(t[2]) == 2:
            for a, b in ((t[2][0], t[2][1]), (t[2][1], t[2][0])):
                x = look(a)
                if is_call(x, "first") and whole_bytes(x[2][0]) and const_of(b) == ("Some&", 47):
                    return True
        return False

    def range_from(t):
        if t[0] == "agg" and t[1].startswith("std::ops::RangeFrom"):
            return t[3][0]
        return None

    def slash_closure(t):
        if t[0] != "closure":
            return False
        c = facts.fns.get(t[1])
        if c is None:
            return False
        for lf in PathEnum(c, facts).run():
            r = lf.ret()
            if not (r[0] == "bin" and r[1] == "Eq" and {look(r[2])[0], look(r[3])[0]} == {"arg", "const"} and 47 in (const_of(r[2]), const_of(r[3]))):
                return False
        return True

    n = 0
    for lf in rets:
        r = lf.ret()
        n += 1
        v = look(r)
        key = "ret%d" % n
        if v[0] == "const":
            ctx.ob("R16.3", "value|%s" % lf.bb, v[1] == "", "returns the constant %r" % (v[1],), fn.loc(lf.bb))
            continue
        if whole(r):
            ok = cond_holds(lf.conds, first_is_slash)
            ctx.ob("R16.3", "value|whole-uri", ok, "returns the whole URI only under starts_with('/')", fn.loc(lf.bb))
            continue
        if is_call(v, "index"):
            base, rng = v[2][0], range_from(v[2][1])
            ok = False
            why = "returns a slice"

            def has_scheme():
                return cond_holds(lf.conds, lambda t: is_call(t, "starts_with") and whole(t[2][0]) and const_of(t[2][1]) in ("http://", b"http://"))

            def after_scheme(b):
                """b is the URI without its `http://` prefix: uri[7..] / uri[len("http://")..] under starts_with, or strip_prefix's payload."""
                b = look(b)
                if is_call(b, "index") and whole(b[2][0]):
                    r2 = range_from(look(b[2][1]))
                    r2 = look(r2) if r2 is not None else None
                    plen = None
                    if r2 is not None and is_call(r2, "len"):
                        plen = const_of(r2[2][0])
                    elif r2 is not None and r2[0] == "const":
                        plen = r2[1]
                    return has_scheme() and plen in ("http://", b"http://", 7)
                src = payload_of(b)
                return src is not None and is_call(src, "strip_prefix") and src[1].startswith("core::str::") and whole(src[2][0]) and const_of(src[2][1]) == "http://"

            def first_slash(st, hay):
                """st is where the first '/' of hay was found: position over its bytes with an == '/' test, or str::find(hay, '/')."""
                src = payload_of(st)
                if src is None:
                    return False
                if is_call(src, "position"):
                    it = look(src[2][0])
                    while it[0] == "mut":
                        it = look(it[1])
                    return is_call(it, "bytes", "iter", "into_iter") and it[2] and norm(look(it[2][0])) == norm(look(hay)) and slash_closure(look(src[2][1]))
                if src[0] == "call" and src[1].startswith("core::str::<impl str>::") and last_seg(src[1]) == "find" and norm(look(src[2][0])) == norm(look(hay)):
                    return const_of(src[2][1]) in (47, "/")
                return False

            if rng is not None:
                st = look(rng)
                if whole(base):
                    # uri[start..]: start = 7 + (first '/' in the bytes after the scheme), or 0 when the URI starts with '/'
                    from .util import as_sum
                    sm = as_sum(st)
                    if const_of(st) == 0:
                        ok = cond_holds(lf.conds, first_is_slash)
                        why = "returns uri[0..] under starts_with('/') (%s)" % ok
                    elif sm is not None:
                        for a_, p_ in (sm, (sm[1], sm[0])):
                            if const_of(a_) == 7 or (is_call(look(a_), "len") and const_of(look(a_)[2][0]) in ("http://", b"http://")):
                                src = payload_of(p_)
                                rest_ok = False
                                if src is not None and src[0] == "call" and src[1].startswith("core::str::<impl str>::") and last_seg(src[1]) == "find" and const_of(src[2][1]) in (47, "/"):
                                    rest_ok = after_scheme(src[2][0])
                                if src is not None and is_call(src, "position"):
                                    it = look(src[2][0])
                                    while it[0] == "mut":
                                        it = look(it[1])
                                    if is_call(it, "bytes", "iter", "into_iter") and it[2]:
                                        rest_ok = after_scheme(it[2][0]) and slash_closure(look(src[2][1]))
                                ok = ok or rest_ok
                        why = "returns uri[7 + p..] with p the position of the first '/' after the scheme (%s)" % ok
                elif after_scheme(base):
                    ok = first_slash(st, base)
                    why = "returns rest[p..] with rest the URI after 'http://' and p the position of its first '/' (%s)" % ok
            ctx.ob("R16.3", "value|after-authority", ok, why, fn.loc(lf.bb))
            continue
        ctx.fail("R16.3", "value|unrecognised|%s" % v[0], "a return value of get_abs_path is neither '' nor a recognised suffix of the URI: %s" % term_s(r)[:200], fn.loc(lf.bb))
    ctx.ob("R16.3", "returns-enumerated", n >= 3, "%d return paths classified (floor 3)" % n, fn.loc(0))
