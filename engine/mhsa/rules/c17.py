"""C17 -- router dispatches to exactly the handler registered for (method, prefix+path)."""
from ..core import AnalysisError, term_s, subterms
from ..fmtdecode import format_pieces
from ..paths import PathEnum
from ..tables import enum_const_table
from .fields import field_writers, mut_borrow_consumers
from .util import writer_roots, is_call, look, norm, option_is_some, transforms, last_seg, truth, payload_of
from ..symstr import symstr

EXPLANATION = (
    "Static decision of the router: the format templates that build the registration key and the "
    "lookup key are decoded from the MIR and compared (same literal skeleton `{}:{}`, first "
    "argument Method::to_str of the route's / request's method, remaining arguments prefix+path / "
    "the request's absolute path); Method::to_str constants are distinct and colon-free, so the key "
    "is injective in (method, path); on the Some outcome of the map lookup exactly one dynamic "
    "handle_request call is made on the object the lookup returned, on None none and a 404 is built; "
    "set_server(server_id) and set_content_type(media_type) lie on every path to the return and "
    "media_type is only ever ApplicationJson; add_route refuses an occupied entry without inserting. "
    "Given HashMap and format! semantics this decides the statement."
)
TRUSTED = ["HashMap::{entry,get}, VacantEntry::insert", "format! / fmt::Arguments template encoding of this toolchain (rust-src core/fmt/mod.rs)"]
ASSUMPTIONS = ["std collections behave as documented"]
NOT_DECIDED = "nothing beyond std semantics"

ROUTES = "router::HttpRoutes"


def self_field(t, name):
    t = look(t)
    return t[0] == "field" and t[3] == name and look(t[1]) == ("arg", 1)


def field_chain(t):
    """`self.a.b` -> [(adt_of_self, "a"), (adt_of_a, "b")]; None if t is not a field path of the first argument."""
    t = look(t)
    chain = []
    while t[0] == "field":
        chain.append((t[2], t[3]))
        t = look(t[1])
    if t != ("arg", 1) or not chain:
        return None
    return list(reversed(chain))


def resolve_in_ctor(facts, agg, chain):
    """The value the constructor's literal `agg` gives to the field path `chain`."""
    v = agg
    for adt, fld in chain:
        v = look(v)
        if v[0] != "agg" or v[1] != adt:
            return None
        names = [f["name"] for f in facts.struct_fields(adt)]
        if fld not in names:
            # the field lives in a grouping sub-struct (flattened by the fact loader): descend through it
            hit = None
            for (P, g), S in facts.embeds.items():
                if P != adt or g not in names:
                    continue
                for (S2, f2), (P2, role) in facts.aliases.items():
                    if S2 == S and role == fld:
                        hit = (g, S, f2)
            if hit is None:
                return None
            sub = look(v[3][names.index(hit[0])])
            if sub[0] != "agg" or sub[1] != hit[1]:
                return None
            snames = [f["name"] for f in facts.struct_fields(hit[1])]
            v = sub[3][snames.index(hit[2])]
            continue
        v = v[3][names.index(fld)]
    return look(v)


def skeleton(pieces):
    out = []
    for p in pieces:
        if p[0] == "lit":
            out.append(p[1])
        elif not out or out[-1] != "{}":
            out.append("{}")
    return out


def run(ctx):
    facts = ctx.facts
    ctx.rule("R17.1", "registration key and lookup key are built from the same template: to_str(method) ':' path")
    ctx.rule("R17.2", "Method::to_str constants are pairwise distinct and contain no ':' (key injective)")
    ctx.rule("R17.3", "exactly one handler call on the looked-up object on Some; none and a 404 on None")
    ctx.rule("R17.4", "server identity and content type are stamped on every path to the return")
    ctx.rule("R17.5", "add_route: Occupied -> Err without insertion; Vacant -> inserts the handler passed in")
    ctx.guarded("R17.1", "keys", lambda: keys(ctx))
    ctx.guarded("R17.2", "to_str", lambda: to_str(ctx))
    ctx.guarded("R17.3", "dispatch", lambda: dispatch(ctx))
    ctx.guarded("R17.5", "add_route", lambda: add_route(ctx))
    ctx.rule("R17.6", "the lookup path is the request's absolute path as C16 defines it (R16.3)")
    from .c06 import _Remap
    from .c16 import abs_path
    ctx.guarded("R17.6", "abs-path", lambda: abs_path(_Remap(ctx, "R17.6")))


def find_event(lf, pred):
    return [e for e in lf.events if e[0] == "call" and pred(e[3], e[4])]


def _routes_calls(lf, names):
    return [e for e in lf.events if e[0] == "call" and "HashMap" in e[3] and last_seg(e[3]) in names and e[4][2] and self_field(e[4][2][0], "routes")]


def _lv(ctx, name):
    """Return-leaves with helpers and the closures handed to Option/Result combinators traversed inline."""
    from .conn import leaves
    fn, lv = leaves(ctx, name, lower=True)
    return fn, [l for l in lv if l.kind == "return"]


def _is_abs_path_of_request(t):
    t = look(t)
    return is_call(t, "request::Uri::get_abs_path") and is_call(look(t[2][0]), "request::Request::uri") and look(look(t[2][0])[2][0]) == ("arg", 2)


def _prefix_absent(lf):
    """the path established that request.uri().get_abs_path() does not start with self.prefix (strip_prefix -> None / starts_with false)"""
    from .util import option_test, truth
    for (t, c, _b) in lf.conds:
        if option_test(t, c, lambda y: is_call(y, "strip_prefix") and _is_abs_path_of_request(y[2][0]) and self_field(y[2][1], "prefix")) == "none":
            return True
        x = look(t)
        if is_call(x, "starts_with") and _is_abs_path_of_request(x[2][0]) and self_field(x[2][1], "prefix") and truth(c) is False:
            return True
    return False


def _rejoin_prefix(ps):
    """P ++ (S.strip_prefix(P) payload) is S: the pieces of a key that strips the prefix only to prepend it again."""
    out = []
    for p in ps:
        if out and p[0] == "sym" and out[-1][0] == "sym":
            src = payload_of(look(p[1]))
            if src is not None and is_call(src, "strip_prefix") and len(src[2]) == 2 and norm(look(src[2][1])) == norm(look(out[-1][1])):
                out[-1] = ("sym", look(src[2][0]))
                continue
        out.append(p)
    return out


def keys(ctx):
    facts = ctx.facts
    fa, la = _lv(ctx, "router::HttpRoutes::<T>::add_route")
    fh, lh = _lv(ctx, "router::HttpRoutes::<T>::handle_http_request")
    ctx.ob("R17.1", "paths", len(la) >= 2 and len(lh) >= 2, "add_route has %d return paths, handle_http_request %d (floor 2 each)" % (len(la), len(lh)))

    def show(ps):
        return " ".join(repr(p[1]) if p[0] == "lit" else "<%s>" % term_s(p[1])[:40] for p in ps)

    # registration: every key handed to the route table on a path is  to_str(method) ':' self.prefix path
    n = 0
    for lf in la:
        ev = _routes_calls(lf, ("entry", "contains_key", "insert", "get", "get_mut", "try_insert"))
        ctx.ob("R17.1", "add_route|table-access|bb%d" % lf.bb, 1 <= len(ev) <= 2, "%d access(es) to self.routes on this path of add_route" % len(ev), fa.loc(lf.bb))
        for e in ev:
            n += 1
            try:
                ps = symstr(e[4][2][1], lf)
            except AnalysisError as ex:
                ctx.fail("R17.1", "add_route|key|cannot-evaluate", "registration key cannot be evaluated: %s" % ex, fa.loc(e[1]))
                continue
            ok = (len(ps) == 4 and ps[0][0] == "sym" and is_call(ps[0][1], "common::Method::to_str") and look(ps[0][1][2][0]) == ("arg", 2)
                  and ps[1] == ("lit", ":") and ps[2][0] == "sym" and self_field(ps[2][1], "prefix") and ps[3][0] == "sym" and look(ps[3][1]) == ("arg", 3))
            ctx.ob("R17.1", "add_route|key", ok, "registration key = to_str(method) ':' self.prefix path; found: %s" % show(ps), fa.loc(e[1]))
    ctx.ob("R17.1", "add_route|floor", n >= 2, "%d registration keys evaluated (floor 2)" % n)
    m = 0
    for lf in lh:
        ev = _routes_calls(lf, ("get", "get_mut", "contains_key", "entry", "remove", "get_key_value"))
        if not ev and _prefix_absent(lf):
            # the request path does not start with the prefix every registered key carries: a miss without consulting the table
            ctx.ob("R17.1", "lookup|prefix-absent|bb%d" % lf.bb, True, "a path that does not start with self.prefix cannot match a registered key (every key is method ':' prefix path): no lookup needed", fh.loc(lf.bb))
            continue
        ctx.ob("R17.1", "lookup|get|bb%d" % lf.bb, len(ev) == 1 and last_seg(ev[0][3]) == "get", "one HashMap::get on self.routes per path", fh.loc(lf.bb))
        for e in ev:
            m += 1
            try:
                ps = _rejoin_prefix(symstr(e[4][2][1], lf))
            except AnalysisError as ex:
                ctx.fail("R17.1", "lookup|key|cannot-evaluate", "lookup key cannot be evaluated: %s" % ex, fh.loc(e[1]))
                continue
            ok = len(ps) == 3 and ps[0][0] == "sym" and ps[1] == ("lit", ":") and ps[2][0] == "sym"
            if ok:
                a0, a1 = ps[0][1], ps[2][1]
                ok = (is_call(a0, "common::Method::to_str") and is_call(look(a0[2][0]), "request::Request::method") and look(look(a0[2][0])[2][0]) == ("arg", 2)
                      and is_call(a1, "request::Uri::get_abs_path") and is_call(look(a1[2][0]), "request::Request::uri") and look(look(a1[2][0])[2][0]) == ("arg", 2))
            ctx.ob("R17.1", "lookup|key", ok, "lookup key = to_str(request.method()) ':' request.uri().get_abs_path(); found: %s" % show(ps), fh.loc(e[1]))
    ctx.ob("R17.1", "lookup|floor", m >= 2, "%d lookup keys evaluated (floor 2)" % m)
    # accessor identities used by the lookup key
    for name, field in (("request::Request::method", "method"), ("request::Request::uri", "uri")):
        f = facts.fn(name)
        ctx.touched(f)
        for lf in PathEnum(f, facts).run():
            r = look(lf.ret())
            ok = r[0] == "field" and r[3] == field and look(r[1])[0] == "field" and look(r[1])[3] == "request_line" and look(look(r[1])[1]) == ("arg", 1)
            ctx.ob("R17.1", "accessor|%s" % name, ok, "%s returns self.request_line.%s" % (name, field), f.loc(0))


def to_str(ctx):
    facts = ctx.facts
    f = facts.fn("common::Method::to_str")
    ctx.touched(f)
    t = enum_const_table(facts, f, "common::Method")
    seen = {}
    for var, s in t.items():
        s = s if isinstance(s, str) else s.decode("latin-1")
        ctx.ob("R17.2", "to_str|no-colon|%s" % var, ":" not in s and s != "", "to_str(%s) = %r contains no ':' and is not empty" % (var, s), f.loc(0))
        ctx.ob("R17.2", "to_str|distinct|%s" % var, s not in seen, "to_str(%s) = %r distinct" % (var, s), f.loc(0))
        seen[s] = var


def dispatch(ctx):
    facts = ctx.facts
    fh, leaves = _lv(ctx, "router::HttpRoutes::<T>::handle_http_request")
    seen = set()
    fnew, lnew = _lv(ctx, "router::HttpRoutes::<T>::new")
    ctor = [look(l.ret()) for l in lnew]
    if not ctor or any(not (a_[0] == "agg" and a_[1] == ROUTES) for a_ in ctor):
        ctx.fail("R17.4", "new|not-a-literal", "HttpRoutes::new does not return a literal", fnew.loc(0))
        ctor = []
    used_chains = set()
    for lf in leaves:
        some = None
        got = None
        for (t, c, _bb) in lf.conds:
            if t[0] == "discr" and is_call(look(t[1]), "get") and "HashMap" in look(t[1])[1]:
                some = option_is_some(c)
                got = look(t[1])
        if some is None and _prefix_absent(lf):
            some = False        # a path that lacks the prefix of every registered key: a miss established without the table
        seen.add(some)
        handler_calls = [e for e in lf.events if e[0] == "call" and last_seg(e[3]) == "handle_request"]
        other_dyn = [e for e in lf.events if e[0] == "call" and e[3] == "<fnptr>"]
        new_calls = [e for e in lf.events if e[0] == "call" and e[3] == "response::Response::new"]
        if some is True:
            ok = len(handler_calls) == 1 and not other_dyn and not new_calls
            on_obj = False
            if len(handler_calls) == 1:
                recv = handler_calls[0][4][2]
                on_obj = any(norm(s) == norm(got) for s in subterms(recv[0]) if isinstance(s, tuple)) and look(recv[1]) == ("arg", 2) and look(recv[2]) == ("arg", 3)
            ctx.ob("R17.3", "some|one-handler-call", ok and on_obj, "route found: exactly one handle_request call, on the object the lookup returned, with (request, argument) as given (calls=%d, receiver-from-lookup=%s)" % (len(handler_calls), on_obj), fh.loc(lf.bb))
        elif some is False:
            ok = not handler_calls and not other_dyn and len(new_calls) == 1
            nf = False
            if len(new_calls) == 1:
                a = new_calls[0][4][2]
                nf = a[0][0] == "agg" and a[0][2] == "Http11" and a[1][0] == "agg" and a[1][2] == "NotFound"
            ctx.ob("R17.3", "none|404", ok and nf, "no route: no handler call and Response::new(Http11, NotFound)", fh.loc(lf.bb))
        else:
            ctx.fail("R17.3", "undecided-path", "a path through handle_http_request does not branch on the lookup result", fh.loc(lf.bb))
        # R17.4 on this path
        resp_src = [e for e in lf.events if e[0] == "call" and (last_seg(e[3]) == "handle_request" or e[3] == "response::Response::new")]
        ss = [e for e in lf.events if e[0] == "call" and e[3] == "response::Response::set_server"]
        sc = [e for e in lf.events if e[0] == "call" and e[3] == "response::Response::set_content_type"]
        # what is stamped: resolved through the value HttpRoutes::new builds (the fields may live in a private sub-struct)
        ok_s = ok_c = False
        if ss:
            ch = field_chain(ss[-1][4][2][1])
            ok_s = ch is not None and bool(ctor) and all(resolve_in_ctor(facts, a_, ch) == ("arg", 1) for a_ in ctor)
            used_chains.update(tuple(ch[:i + 1]) for i in range(len(ch))) if ch else None
        if sc:
            v_ = look(sc[-1][4][2][1])
            ch = field_chain(v_)
            if ch is not None:
                vals = [resolve_in_ctor(facts, a_, ch) for a_ in ctor]
                ok_c = bool(vals) and all(x is not None and x[0] == "agg" and x[2] == "ApplicationJson" for x in vals)
                used_chains.update(tuple(ch[:i + 1]) for i in range(len(ch)))
            else:
                ok_c = v_[0] == "agg" and v_[2] == "ApplicationJson"
        ret = look(lf.ret())
        while ret[0] == "mut":
            ret = look(ret[1])
        same = len(resp_src) == 1 and norm(ret) == norm(resp_src[0][4])
        tgt_ok = True
        for e in ss[-1:] + sc[-1:]:
            tgt = look(e[4][2][0])
            while tgt[0] == "mut":
                tgt = look(tgt[1])
            tgt_ok = tgt_ok and len(resp_src) == 1 and norm(tgt) == norm(resp_src[0][4])
        ctx.ob("R17.4", "stamp|server|%s" % some, ok_s and tgt_ok, "set_server(self.server_id) applied to the response on this path", fh.loc(lf.bb))
        ctx.ob("R17.4", "stamp|content-type|%s" % some, ok_c and tgt_ok, "set_content_type(self.media_type) applied to the response on this path", fh.loc(lf.bb))
        ctx.ob("R17.4", "stamp|returned|%s" % some, same, "the stamped response is the value returned", fh.loc(lf.bb))
    ctx.ob("R17.3", "covered", seen == {True, False}, "both lookup outcomes have a path")
    # the fields read for the stamp (and the prefix) are written by the constructor only
    names = [f["name"] for f in facts.struct_fields(ROUTES)]
    for a_ in ctor:
        ok = "prefix" not in names or a_[3][names.index("prefix")] == ("arg", 2)
        ctx.ob("R17.4", "new|fields", ok, "HttpRoutes::new stores the prefix as given (the stamped server id / media type are resolved through its literal above)", fnew.loc(0))
    chains = set(used_chains) | ({((ROUTES, "prefix"),)} if "prefix" in names else set())
    for ch in sorted(chains):
        adt, fld = ch[-1]
        for w in field_writers(facts, adt, fld):
            ctx.ob("R17.4", "writers|%s|%s" % (fld, w[0]), writer_roots(facts, w[0]) == {"router::HttpRoutes::<T>::new"}, "writer of %s.%s: %s (%s)" % (adt.split("::")[-1], fld, w[0], w[3]), w[2])
    ctx.ob("R17.4", "writers|floor", len(chains) >= 2, "%d field(s) behind the stamp / prefix checked for writers (floor 2)" % len(chains))
    # set_server / set_content_type really store what they are given
    for name, hname, field in (("response::Response::set_server", "response::ResponseHeaders::set_server", "server"), ("response::Response::set_content_type", "response::ResponseHeaders::set_content_type", "content_type")):
        f1, f2 = facts.fn(name), facts.fn(hname)
        ctx.touched(f1, f2)
        for lf in PathEnum(f1, facts).run():
            ev = [e for e in lf.events if e[0] == "call" and e[3] == hname]
            ok = len(ev) == 1 and look(ev[0][4][2][0])[0] == "field" and look(ev[0][4][2][0])[3] == "headers" and look(ev[0][4][2][1]) == ("arg", 2)
            ctx.ob("R17.4", "setter|%s" % name, ok, "%s forwards its argument to %s on self.headers" % (name, hname), f1.loc(0))
        for lf in PathEnum(f2, facts).run():
            asg = [e for e in lf.events if e[0] == "assign" and e[3] == "(*_1).%s" % field]
            ok = len(asg) == 1
            if ok:
                v = look(asg[0][4])
                ok = v == ("arg", 2) or (is_call(v, "from", "to_owned", "to_string", "into") and look(v[2][0]) == ("arg", 2))
            if not asg:
                # `value.clone_into(&mut self.field)`: the same store, reusing the allocation
                ci = [e for e in lf.events if e[0] == "call" and last_seg(e[3]) == "clone_into" and len(e[4][2]) == 2]
                ok = len(ci) == 1 and look(ci[0][4][2][0]) == ("arg", 2) and self_field(ci[0][4][2][1], field)
                if not ok:
                    # `self.field.clear(); self.field.push_str(value)`: emptied, then exactly the argument appended
                    ops = [e for e in lf.events if e[0] == "call" and e[4][2] and self_field(e[4][2][0], field) and last_seg(e[3]) not in ("as_str", "len", "is_empty", "capacity", "deref", "as_ref")]
                    ok = [last_seg(e[3]) for e in ops] == ["clear", "push_str"] and look(ops[1][4][2][1]) == ("arg", 2)
            ctx.ob("R17.4", "setter|%s" % hname, ok, "%s stores its argument in self.%s" % (hname, field), f2.loc(0))


def add_route(ctx):
    facts = ctx.facts
    fa, leaves = _lv(ctx, "router::HttpRoutes::<T>::add_route")
    seen = set()
    for lf in leaves:
        occ = None
        ent = None
        tested_key = None
        for (t, c, _bb) in lf.conds:
            if t[0] == "discr" and is_call(look(t[1]), "entry"):
                ent = look(t[1])
                if c[0] == "eq":
                    occ = c[1] == 0  # Entry::Occupied = 0, Vacant = 1
                elif c[0] == "ne":
                    left = {0, 1} - set(c[1])      # `let Entry::Vacant(e) = .. else { .. }`: the else edge is "not Vacant"
                    if len(left) == 1:
                        occ = left == {0}
            x = t
            neg = False
            while x[0] == "un" and x[1] == "Not":
                x, neg = look(x[2]), not neg
            if is_call(x, "contains_key") and "HashMap" in x[1] and self_field(x[2][0], "routes") and truth(c) is not None:
                occ = truth(c) != neg
                tested_key = x[2][1]
        ins = [e for e in lf.events if e[0] == "call" and last_seg(e[3]) in ("insert", "insert_entry", "or_insert", "or_insert_with", "try_insert")]
        r = look(lf.ret())
        if occ is True:
            seen.add("occupied")
            ok = not ins and r[0] == "agg" and r[2] == "Err" and look(r[3][0])[0] == "agg" and look(r[3][0])[2] == "HandlerExist"
            ctx.ob("R17.5", "occupied|refused", ok, "an occupied key returns Err(HandlerExist) and inserts nothing", fa.loc(lf.bb))
        elif occ is False:
            seen.add("vacant")
            ok = len(ins) == 1 and r[0] == "agg" and r[2] == "Ok"
            if ok:
                a = ins[0][4][2]
                recv = look(a[0])
                if ent is not None:
                    ok = recv[0] == "field" and recv[1][0] == "downcast" and recv[1][2] == "Vacant" and norm(look(recv[1][1])) == norm(ent) and look(a[1]) == ("arg", 4)
                else:
                    # contains_key(k) false, then routes.insert(k', handler) with the same key
                    try:
                        same = tested_key is not None and len(a) == 3 and symstr(a[1], lf) == symstr(tested_key, lf)
                    except AnalysisError:
                        same = False
                    ok = self_field(a[0], "routes") and same and look(a[2]) == ("arg", 4)
            ctx.ob("R17.5", "vacant|inserted", ok, "a vacant key gets exactly the handler passed in and returns Ok", fa.loc(lf.bb))
        else:
            if ins and r[0] == "agg" and r[2] == "Err":
                # e.g. `if routes.insert(k, h).is_some() { return Err(HandlerExist) }`: the refusal comes after the overwrite
                ctx.fail("R17.5", "refused-after-insert", "add_route returns an error on a path that has already inserted into the route table: a refused registration replaces the handler that was there", fa.loc(ins[0][1]))
            ctx.fail("R17.5", "undecided-path", "a path through add_route is not decided by the key being occupied / vacant", fa.loc(lf.bb))
    ctx.ob("R17.5", "covered", seen == {"occupied", "vacant"}, "both outcomes have a path (%s)" % sorted(seen))
    # nobody else mutates the route table
    n = 0
    for fn in facts.fns.values():
        for site, bi, t in mut_borrow_consumers(fn, ROUTES, "routes"):
            n += 1
            callee = t["callee"].get("path") if t else None
            ok = fn.name == "router::HttpRoutes::<T>::add_route" and callee is not None and last_seg(callee) in ("entry", "insert")
            ctx.ob("R17.5", "routes-mutators|%s|%s" % (fn.name, last_seg(callee) if callee else "escapes"), ok, "&mut self.routes is handed to %s in %s" % (callee, fn.name), fn.loc(site[0], site[1]))
    for w in field_writers(facts, ROUTES, "routes"):
        if w[3] in ("assign", "assign-inside", "call-result"):
            ctx.fail("R17.5", "routes-writers|%s" % w[0], "route table overwritten in %s" % w[0], w[2])
    ctx.ob("R17.5", "routes-mutators|floor", n >= 1, "%d mutable uses of the route table inspected (floor 1)" % n)
