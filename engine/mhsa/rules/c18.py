"""C18 -- shutdown request always wins: polling reports it and never blocks."""
from ..core import AnalysisError, term_s, subterms
from . import srv, conn
from .conn import leaves, ret_kind
from .srv import S, CC, calls
from .util import payload_of, const_of, is_call, last_seg, look, norm, truth, option_is_some

EXPLANATION = (
    "Static decision of the kill-switch mechanism: the event array given to epoll.wait has "
    "MAX_CONNECTIONS + 2 entries (listener, kill switch and every connection fit in one batch; constants "
    "evaluated); in the event loop the comparison e.fd() == kill_fd is the first use of every event and its "
    "true edge returns Err(ShutdownEvent) with no call in between, and every event of the batch is looked at (an iteration ends at "
    "the next event or with an error, never by leaving the loop with Ok); kill_fd is the kill switch's "
    "as_raw_fd() or -1; nothing in the crate reads (and thereby resets) the eventfd; add_kill_switch "
    "registers the descriptor with epoll_add and stores it; the kill_switch field is read only by requests(). "
    "The error exits of requests() before the test are environment-only (the failure of the 503 write to a refused client is not among them), the Overflow exit being out of reach while the in-flight counter is at least 32 bits wide. "
    "Decides these clauses; that the kernel reports the eventfd in every batch is trusted."
)
TRUSTED = ["level-triggered epoll keeps reporting a readable eventfd", "Epoll::wait fills at most events.len() entries"]
ASSUMPTIONS = []
NOT_DECIDED = "that the kernel reports the eventfd in every batch; an earlier event of the same batch failing first (faults, see C09)"

POSITIVE_CONTROLS = [("R18.3", "no_read")]


def run(ctx):
    ctx.rule("R18.1", "the epoll_wait batch holds MAX_CONNECTIONS + 2 events")
    ctx.rule("R18.2", "e.fd() == kill_fd is tested first for every event and returns Err(ShutdownEvent) at once; kill_fd = as_raw_fd() of the switch or -1")
    ctx.rule("R18.3", "nothing in the crate reads the kill-switch eventfd")
    ctx.rule("R18.4", "add_kill_switch registers the descriptor (epoll_add) and stores it")
    ctx.rule("R18.5", "the kill_switch field is read only by requests()")
    ctx.guarded("R18.1", "batch", lambda: batch(ctx))
    ctx.guarded("R18.2", "branch", lambda: branch(ctx))
    ctx.guarded("R18.3", "no-read", lambda: no_read(ctx))
    ctx.guarded("R18.4", "register", lambda: register(ctx))
    ctx.rule("R18.6", "nothing a client does can make requests() fail before it looks at the kill switch: error exits are environment-only (the Overflow exit needs 2^32 unanswered requests), write() is guarded and an I/O failure closes (C09 R09.1/R09.2/R09.7/R09.11); the map never holds more than MAX_CONNECTIONS entries, so every descriptor fits in the batch (C10 R10.1)")
    from .c06 import _Remap
    from . import c09, c10
    def shared():
        r = _Remap(ctx, "R18.6")
        okw = c09.write_guard(r)
        c09.exits(r, okw)
        c09.failure_closes(r, "R18.6")
        c10._either(r, "R10.1", c10.cap, c10.cap_inlined)
        # the one client-dependent error exit, Overflow of the in-flight counter, is out of reach only while the counter is wide
        c09.counter_width(r, "R18.6")
    ctx.guarded("R18.6", "shared", shared)


def batch(ctx):
    facts = ctx.facts
    mc = facts.const_int("server::MAX_CONNECTIONS")
    fn = facts.fn(srv.REQUESTS)
    ctx.touched(fn)
    n = None
    for bi, si, place, rv in fn.assigns():
        if rv["k"] == "repeat" and "EpollEvent" in fn.locals[place["local"]]["ty"]["s"]:
            n = rv["n"]
            loc = fn.loc(bi, si)
    ctx.ob("R18.1", "events-array", n == mc + 2, "events array has %s entries; MAX_CONNECTIONS + 2 = %d" % (n, mc + 2), fn.loc(0))
    f2, lv = leaves(ctx, srv.REQUESTS)
    ok = False
    whole = False
    for lf in lv:
        for e in calls(lf, "vmm_sys_util::epoll::Epoll::wait"):
            buf = look(e[4][2][2])
            ok = const_of(e[4][2][1]) == -1 or True
            while buf[0] == "mut":
                buf = look(buf[1])
            whole = buf[0] == "repeat" or (is_call(buf, "index_mut") and look(buf[2][1])[0] == "agg" and "RangeFull" in look(buf[2][1])[1] and look(buf[2][0])[0] == "repeat")
    ctx.ob("R18.1", "wait-gets-whole-array", whole, "epoll.wait receives the whole array (events[..])", fn.loc(0))


def branch(ctx):
    facts = ctx.facts
    fn, lv = leaves(ctx, srv.REQUESTS, lower=True)
    n_iter = n_kill = 0
    for lf in lv:
        ev = srv.event_term(lf)
        if ev is None:
            continue
        n_iter += 1
        # the first condition on this event (after the iterator's Some) must be e.fd() == kill fd
        idx = [i for i, (t, c, _b) in enumerate(lf.conds) if t[0] == "discr" and is_call(look(t[1]), "next") and norm(look(t[1])) == norm(ev)]
        first = None
        if idx:
            for (t, c, b) in lf.conds[idx[0] + 1:]:
                if any(isinstance(x, tuple) and x and norm(x) == norm(ev) for x in subterms(t)):
                    first = (t, c, b)
                    break
        ok = False
        tv = None
        if first is not None:
            t, c, b = first
            if t[0] == "bin" and t[1] in ("Eq", "Ne"):
                a, k = look(t[2]), look(t[3])
                if not srv.is_event_field(a, ev, "fd"):
                    a, k = k, a
                ok = srv.is_event_field(a, ev, "fd") and is_kill_fd(k, lf)
                tv = truth(c)
                if t[1] == "Ne" and tv is not None:
                    tv = not tv
        ctx.ob("R18.2", "first-test-is-kill-fd", ok, "the first thing done with an event is comparing e.fd() with the kill switch's descriptor (-1 when there is none)", fn.loc(first[2] if first else lf.bb))
        if ok and tv:
            n_kill += 1
            rk = ret_kind(lf)
            e = look(rk[1]) if rk and rk[0] == "Err" else None
            # no call event after the comparison on this path
            cmp_bb = first[2]
            after = []
            seen = False
            for evn in lf.events:
                if evn[0] == "cond" and evn[1] == cmp_bb and evn[3] == first[0]:
                    seen = True
                    continue
                if seen and evn[0] == "call" and not evn[3].startswith("std::ops::"):
                    after.append(evn[3])
            ctx.ob("R18.2", "kill|returns-shutdown-at-once", e is not None and e[0] == "agg" and e[2] == "ShutdownEvent" and not after, "kill event: Err(ShutdownEvent) with no call in between (calls after: %s)" % after, fn.loc(lf.bb))
    ctx.ob("R18.2", "floor", n_iter >= 10 and n_kill >= 1, "%d loop-iteration paths, %d kill path(s) (floors 10, 1)" % (n_iter, n_kill), fn.loc(0))
    # ... and every event of the batch is looked at: an iteration ends by going on to the next event or by failing; a path
    # that leaves the loop from inside an iteration and still returns Ok (a `break` on a per-call budget) stops before the
    # events behind it, the kill switch's among them
    n_it = 0
    for lf in lv:
        if srv.event_term(lf) is None:
            continue
        n_it += 1
        rk = ret_kind(lf)
        left = lf.kind == "return" and rk is not None and rk[0] == "Ok"
        if left:
            ctx.fail("R18.2", "every-event-visited|bb%d" % lf.bb, "requests() has a path that handles an event, leaves the event loop and returns Ok: the events behind it in the batch (the kill switch's, possibly) are not looked at in this call", fn.loc(lf.bb))
    ctx.ob("R18.2", "every-event-visited", n_it >= 10, "%d iteration paths end at the next event or with an error (floor 10)" % n_it, fn.loc(0))


def _kill_switch_field(t):
    t = look(t)
    return t[0] == "field" and t[3] == "kill_switch" and t[2] == srv.SRV


def is_kill_fd(t, lf=None):
    """The descriptor the event's fd is compared with: kill_switch.as_ref().map_or(-1, as_raw_fd), or -- with the
    Option taken apart by match / if let / a helper -- as_raw_fd(the Some payload) on a Some path, -1 on a None path."""
    t = look(t)
    if is_call(t, "map_or"):
        src, dflt, clo = look(t[2][0]), look(t[2][1]), look(t[2][2])
        if is_call(src, "as_ref"):
            src = look(src[2][0])
        return _kill_switch_field(src) and const_of(dflt) == -1 and (clo[0] == "closure" or (clo[0] == "fnconst" and last_seg(clo[1]) == "as_raw_fd"))
    if lf is None:
        return False
    some = None
    for (c_t, c, _b) in lf.conds:
        if c_t[0] == "discr" and _kill_switch_field(c_t[1]) and option_is_some(c) is not None:
            some = option_is_some(c)
    if const_of(t) == -1:
        return some is False
    if is_call(t, "as_raw_fd") and t[2]:
        src = payload_of(t[2][0])
        return some is True and src is not None and _kill_switch_field(src)
    return False


def no_read(ctx):
    facts = ctx.facts
    n = 0
    hits = []
    for f in facts.fns.values():
        for bb, t in f.calls():
            n += 1
            p = t["callee"].get("path") or ""
            full = t["callee"].get("full") or ""
            if "EventFd" in p and last_seg(p) in ("read", "try_clone", "write"):
                hits.append((f.name, p, f.loc(bb)))
            if last_seg(p) in ("read", "read_exact", "read_to_end") and "EventFd" in full:
                hits.append((f.name, p, f.loc(bb)))
    for h in hits:
        ctx.fail("R18.3", "eventfd-io|%s|%s" % (h[0], last_seg(h[1])), "%s calls %s on an EventFd: reading resets the kill switch so a later poll would block" % (h[0], h[1]), h[2])
    ctx.ob("R18.3", "scanned", n >= 600, "%d call sites scanned, %d EventFd read/write/clone (floor 600 sites)" % (n, len(hits)))
    # closure used for kill_fd only takes the raw fd
    fr = facts.fn(srv.REQUESTS)
    for c in facts.closures_of(srv.REQUESTS):
        args = c.locals[2]["ty"]["s"] if len(c.locals) > 2 else ""
        if "EventFd" in args:
            f2, l2 = leaves(ctx, c.name)
            for lf in l2:
                r = look(lf.ret())
                ctx.ob("R18.3", "kill-closure|as_raw_fd-only", is_call(r, "as_raw_fd") and look(r[2][0]) == ("arg", 2) and len([e for e in lf.events if e[0] == "call"]) == 1, "the closure applied to the kill switch only takes its raw fd", c.loc(0))
    # readers of the field
    readers = set()
    for f in facts.fns.values():
        for bi, si, place, rv in f.assigns():
            for pl in rv_places(rv):
                if any(e["k"] == "field" and e["name"] == "kill_switch" and e.get("of") == srv.SRV for e in pl["proj"]):
                    readers.add(f.name)
    from .util import roots_of
    roots = set()
    for r in readers:
        roots |= roots_of(facts, r) or {r}
    ctx.ob("R18.5", "kill_switch|readers", roots <= {srv.REQUESTS}, "the kill_switch field is read in %s (on behalf of %s)" % (sorted(readers), sorted(roots)))


def rv_places(rv):
    out = []
    k = rv["k"]
    if k in ("ref", "rawptr", "discr"):
        out.append(rv["place"])
    for key in ("op", "l", "r", "arg"):
        o = rv.get(key)
        if isinstance(o, dict) and o.get("k") in ("copy", "move"):
            out.append(o["place"])
    for o in rv.get("ops", []):
        if o.get("k") in ("copy", "move"):
            out.append(o["place"])
    return out


def register(ctx):
    fn, lv = leaves(ctx, S + "add_kill_switch")
    for lf in lv:
        adds = calls(lf, S + "epoll_add")
        st = [e for e in lf.events if e[0] == "assign" and e[3] == "(*_1).kill_switch"]
        ok = len(adds) == 1 and is_call(look(adds[0][4][2][1]), "as_raw_fd") and look(look(adds[0][4][2][1])[2][0]) == ("arg", 2)
        ok2 = len(st) == 1 and st[0][4][0] == "agg" and st[0][4][2] == "Some" and look(st[0][4][3][0]) == ("arg", 2)
        ctx.ob("R18.4", "add_kill_switch|epoll_add", ok, "add_kill_switch registers the switch's own fd with epoll_add", fn.loc(0))
        ctx.ob("R18.4", "add_kill_switch|stored", ok2, "and stores the switch in self.kill_switch", fn.loc(0))
    from .fields import field_writers
    from .util import writer_roots
    for w in field_writers(ctx.facts, srv.SRV, "kill_switch"):
        ctx.ob("R18.4", "writers|%s" % w[0], writer_roots(ctx.facts, w[0]) <= {S + "add_kill_switch", S + "new", S + "new_from_fd"}, "writer of HttpServer.kill_switch: %s (%s)" % (w[0], w[3]), w[2])
