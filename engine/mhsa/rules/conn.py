"""Shared views of the incremental parser (connection.rs) for several properties."""
from ..core import AnalysisError, subterms, term_s
from ..paths import PathEnum
from .util import payload_of, const_of, is_call, last_seg, look, norm, option_is_some, truth

HC = "connection::HttpConnection"
P = "connection::HttpConnection::<T>::"
TRY_READ = P + "try_read"
PARSE_RL = P + "parse_request_line"
PARSE_H = P + "parse_headers"
PARSE_B = P + "parse_body"
READ_BYTES = P + "read_bytes"
RECV = P + "recv_with_fds"
SHIFT = P + "shift_buffer_left"
TRY_WRITE = P + "try_write"
PHL = "common::headers::Headers::parse_header_line"

_cache = {}
LOWER_COMBINATORS = False


def leaves(ctx, name, lower=None, unroll=False):
    """Path leaves of a function (cached).  lower=True: closures handed to Option/Result combinators are
    traversed as the code they are (paths.LOWERABLE) -- used by rules that ask what a function *does*."""
    lower = LOWER_COMBINATORS if lower is None else lower
    key = (id(ctx.facts), name, lower, unroll)
    if _cache and next(iter(_cache))[0] != id(ctx.facts):
        _cache.clear()      # another fact base: drop the previous one's paths (they keep it alive)
    if key not in _cache:
        fn = ctx.facts.fn(name)
        _cache[key] = (fn, PathEnum(fn, ctx.facts, lower=lower, unroll=unroll, max_paths=200000 if unroll else 20000).run())
    ctx.touched(name)
    return _cache[key]


def self_field(t, name, arg=1):
    t = look(t)
    return t[0] == "field" and t[3] == name and t[2] == HC and look(t[1]) == ("arg", arg)


def is_find_crlf(t, needle=b"\r\n"):
    t = look(t)
    return is_call(t, "request::find") and const_bytes(t[2][1]) == needle


def const_bytes(t):
    t = look(t)
    if t[0] == "const" and isinstance(t[1], (bytes, str)):
        return t[1] if isinstance(t[1], bytes) else t[1].encode()
    if t[0] == "array" and all(x[0] == "const" and isinstance(x[1], int) for x in t[1]):
        return bytes(x[1] for x in t[1])
    return None


def find_outcome(lf, needle=b"\r\n"):
    """'none' | 'some0' | 'some_n' | 'some' | None for the find(.., CRLF) this path branched on."""
    out = None
    for (t, c, _bb) in lf.conds:
        if t[0] == "discr" and is_find_crlf(t[1], needle):
            s = option_is_some(c)
            if s is False:
                out = "none"
            elif s is True and out is None:
                out = "some"
        x = look(t)
        if payload_of(x) is not None and x[0] != "bin" and is_find_crlf(payload_of(x), needle):
            if c == ("eq", 0):
                out = "some0"
            elif c[0] == "ne" and 0 in c[1]:
                out = "some_n"
        if x[0] == "bin" and x[1] in ("Eq", "Ne") and truth(c) is not None:
            # `found == 0` written as a comparison instead of a `Some(0)` pattern
            for a, b in ((x[2], x[3]), (x[3], x[2])):
                if const_of(b) == 0 and payload_of(a) is not None and is_find_crlf(payload_of(a), needle):
                    zero = truth(c) if x[1] == "Eq" else not truth(c)
                    out = "some0" if zero else "some_n"
    return out


def pending_req(t):
    """t is (a reference to) the pending request obtained from self.pending_request."""
    for s in subterms(t):
        if isinstance(s, tuple) and s and s[0] == "field" and s[3] == "pending_request" and s[2] == HC:
            return True
    return False


def atom_truth(lf, pred):
    """Truth of the (last) condition on this path whose term satisfies pred; None if absent."""
    v = None
    for (t, c, _bb) in lf.conds:
        neg = False
        while t[0] == "un" and t[1] == "Not":
            t, neg = look(t[2]), not neg
        if pred(t):
            v = truth(c)
            if neg and v is not None:
                v = not v
    return v


def is_cl_zero(t):
    # Eq(content_length(headers of pending), 0)
    if t[0] == "bin" and t[1] in ("Eq", "Ne") and const_of(t[3]) == 0:
        x = _strip_casts(t[2])      # `content_length == 0` or `content_length as usize == 0`
        return is_call(x, "common::headers::Headers::content_length") and pending_req(x)
    return False


def cl_zero_truth(lf):
    v = None
    for (t, c, _bb) in lf.conds:
        if is_cl_zero(t):
            tv = truth(c)
            v = tv if t[1] == "Eq" else (None if tv is None else not tv)
        else:
            # `match content_length { 0 => .., n => .. }`: a switch on the value itself
            x = _strip_casts(t)
            if is_call(x, "common::headers::Headers::content_length") and pending_req(x):
                if c == ("eq", 0):
                    v = True
                elif c[0] == "ne" and 0 in c[1]:
                    v = False
    return v


def _strip_casts(t):
    t = look(t)
    while t[0] == "cast":
        t = look(t[1])
    return t


def is_len_term(t):
    """exactly the declared length (through casts), not an expression over it"""
    return is_call(_strip_casts(t), "common::headers::Headers::content_length")


def lim_field(t):
    """The limit field behind a limit operand (the field itself, or the Option field under unwrap_or(default))."""
    x = _strip_casts(t)
    if x[0] == "call" and last_seg(x[1]) == "unwrap_or" and "Option" in x[1] and len(x[2]) == 2 and const_of(x[2][1]) is not None:
        x = _strip_casts(look(x[2][0]))
    return x


def is_lim_term(t):
    x = _strip_casts(t)
    if x[0] == "call" and last_seg(x[1]) == "unwrap_or" and "Option" in x[1] and len(x[2]) == 2 and const_of(x[2][1]) is not None:
        # the limit kept as Option<usize>, None standing for a constant default (the setter must then store Some(argument): R04.4)
        x = _strip_casts(look(x[2][0]))
    return x[0] == "field" and x[3] == "payload_max_size"


def _mentions_len(t):
    return any(is_call(look(s), "common::headers::Headers::content_length") for s in subterms(t) if isinstance(s, tuple))


def _mentions_lim(t):
    return any(isinstance(s, tuple) and s and s[0] == "field" and s[3] == "payload_max_size" for s in subterms(t))


def is_size_cmp(t):
    if t[0] != "bin" or t[1] not in ("Gt", "Lt", "Ge", "Le"):
        return False
    return _mentions_len(t) and _mentions_lim(t)


def size_exceeded_truth(lf):
    """Truth of `content_length as usize > payload_max_size` on this path (normalising the encodings).  The operands must be
    the length and the limit themselves: `length + 1 > limit` is another comparison and is reported as such."""
    v = None
    for (t, c, _bb) in lf.conds:
        if is_size_cmp(t):
            tv = truth(c)
            if tv is None:
                continue
            a, b = look(t[2]), look(t[3])
            op = t[1]
            # `min(length, limit) < length` is `length > limit` (and `min(..) >= length` its negation)
            for m_, other, flip in ((a, b, False), (b, a, True)):
                m0 = _strip_casts(m_)
                if is_call(m0, "min") and len(m0[2]) == 2 and is_len_term(other):
                    p_, q_ = m0[2]
                    if (is_len_term(p_) and is_lim_term(q_)) or (is_lim_term(p_) and is_len_term(q_)):
                        rel = op if not flip else {"Gt": "Lt", "Lt": "Gt", "Ge": "Le", "Le": "Ge"}[op]
                        # rel relates min ? length
                        if rel == "Lt":
                            v = tv
                        elif rel == "Ge":
                            v = not tv
                        else:
                            v = ("wrong-operator", "min(length, limit) %s length" % rel)
                        a = None
                        break
            if a is None:
                continue
            if is_len_term(a) and is_lim_term(b):
                pass
            elif is_lim_term(a) and is_len_term(b):
                op = {"Gt": "Lt", "Lt": "Gt", "Ge": "Le", "Le": "Ge"}[op]
            else:
                v = ("wrong-operator", "the comparison is not between the declared length and the limit themselves")
                continue
            # now op relates length ? limit
            if op == "Gt":
                v = tv
            elif op == "Le":
                v = not tv
            else:
                v = ("wrong-operator", t[1])
            continue
        # `limit.checked_sub(length)` is None exactly when length > limit (the subtraction spelled as the comparison)
        x = look(t[1]) if t[0] == "discr" else look(t)
        some = None
        if t[0] == "discr" and is_call(x, "checked_sub"):
            some = option_is_some(c)
        elif is_call(x, "is_none", "is_some") and x[2] and is_call(look(x[2][0]), "checked_sub") and truth(c) is not None:
            some = truth(c) if last_seg(x[1]) == "is_some" else not truth(c)
            x = look(x[2][0])
        if some is None or len(x[2]) != 2 or not (_mentions_len(x) and _mentions_lim(x)):
            continue
        a, b = x[2]
        if is_lim_term(a) and is_len_term(b):
            v = not some
        elif is_len_term(a) and is_lim_term(b):
            v = ("wrong-operator", "length.checked_sub(limit) succeeds for length >= limit")
        else:
            v = ("wrong-operator", "the subtraction is not between the limit and the declared length themselves")
    return v


def is_expect(t):
    x = look(t)
    return is_call(x, "common::headers::Headers::expect") and pending_req(x)


def pushes(lf, queue):
    return [e for e in lf.events if e[0] == "call" and last_seg(e[3]) in ("push_back", "push_front", "insert", "extend", "append") and "VecDeque" in e[3] and self_field(e[4][2][0], queue)]


def assigns_to(lf, field):
    return [e for e in lf.events if e[0] == "assign" and e[3] == "(*_1).%s" % field]


def ret_kind(lf):
    """('Ok', payload) / ('Err', payload) / ('prop', term) for propagated errors / None."""
    if lf.kind != "return":
        return None
    r = lf.ret()
    if r[0] == "agg" and r[2] in ("Ok", "Err"):
        return (r[2], r[3][0] if r[3] else None)
    if is_call(r, "from_residual"):
        return ("prop", r)
    return ("other", r)


def accessor_is(ctx, rule, fname, fields):
    """Check that fn fname(&self) returns self.<fields...> unchanged."""
    fn, lv = leaves(ctx, fname)
    for lf in lv:
        r = look(lf.ret())
        ok = True
        x = r
        for f in reversed(fields):
            if x[0] == "field" and x[3] == f:
                x = look(x[1])
            else:
                ok = False
                break
        ok = ok and x == ("arg", 1)
        ctx.ob(rule, "accessor|%s" % fname, ok, "%s returns self.%s unchanged" % (fname, ".".join(fields)), fn.loc(0))


def parse_loop_fn(ctx):
    """Name of the function that drives the parser state machine (calls parse_request_line)."""
    from .util import known_callers
    ks = sorted(n for n in known_callers(ctx.facts, PARSE_RL) if n.startswith(P))
    if ks:
        return ks[0]
    raise AnalysisError("no function of HttpConnection calls parse_request_line")


def self_effects(ctx, lf, allow=()):
    """Events of a leaf that may modify *self (arg1): assignments through it, &mut of it or of its
    fields handed to a callee not in `allow` (last path segment)."""
    out = []
    for e in lf.events:
        if e[0] == "assign" and e[3].startswith("(*_1)"):
            out.append(("assign", e[3], e[1]))
        elif e[0] == "call":
            for a in e[4][2]:
                x = a
                if x[0] == "ref" and x[2]:
                    b = look(x[1])
                    if b == ("arg", 1) or (b[0] == "field" and look(b[1]) == ("arg", 1)):
                        if last_seg(e[3]) not in allow:
                            out.append(("mutcall", e[3], e[1]))
                elif x == ("arg", 1) and e[3] in ctx.facts.fns:
                    f = ctx.facts.fns[e[3]]
                    ty = f.locals[1]["ty"] if f.nargs >= 1 else {}
                    if ty.get("k") == "ref" and ty.get("mut") and last_seg(e[3]) not in allow:
                        out.append(("mutcall", e[3], e[1]))
    return out


_rcache = {}


def receive_leaves(ctx):
    """read_bytes with the receive wrapper (and any helper) traversed inline: the receive path as one function, whatever
    the division of labour between read_bytes and recv_with_fds.  Returns (fn, leaves)."""
    key = id(ctx.facts)
    if key not in _rcache:
        fn = ctx.facts.fn(READ_BYTES)
        _rcache[key] = (fn, PathEnum(fn, ctx.facts, lower=True, inline_also=lambda p, a: p == RECV).run())
    ctx.touched(READ_BYTES)
    if ctx.facts.has_fn(RECV):
        ctx.touched(RECV)
    return _rcache[key]


def os_receive_calls(lf):
    """The call(s) of this path that receive from the stream: ScmSocket::recv_with_fds (not the crate's wrapper of the same name)."""
    return [e for e in lf.events if e[0] == "call" and last_seg(e[3]) == "recv_with_fds" and e[3] != RECV]
