"""Field effects: who writes a field of a crate type."""
from ..core import place_fields


def field_writers(facts, adt, field):
    """List of (fn name, bb, loc, kind) for every construct in the crate that can write `adt.field`:
    direct assignment to a place through that field, a mutable borrow of a place through that field
    (then classified by the consumer), an aggregate that constructs the ADT, or a call returning into it."""
    out = []
    # sub-structs that group `adt.field` with other frozen fields (flattened by the fact loader): a write of the whole
    # group is a write of each member
    groups = {S for (S, f_), (P, role) in facts.aliases.items() if (P, role) == (adt, field)}
    embeds = {k for k, S in facts.embeds.items() if S in groups}
    for fn in facts.fns.values():
        if is_derive(fn):
            continue
        for bi, si, place, rv in fn.assigns():
            fs = place_fields(place)
            if groups:
                whole = bool(fs) and fs[-1] in embeds
                if not fs and any(e["k"] == "deref" for e in place["proj"]):
                    ty = fn.locals[place["local"]]["ty"]
                    inner = ty.get("inner", ty) if ty.get("k") == "ref" else ty
                    whole = inner.get("path") in groups
                if whole:
                    out.append((fn.name, bi, fn.loc(bi, si), "assign"))
                if rv["k"] == "aggregate" and rv.get("agg") == "adt" and rv["adt"] in groups:
                    out.append((fn.name, bi, fn.loc(bi, si), "construct"))
            if fs and fs[-1] == (adt, field):
                out.append((fn.name, bi, fn.loc(bi, si), "assign"))
            elif (adt, field) in fs:
                out.append((fn.name, bi, fn.loc(bi, si), "assign-inside"))
            if rv["k"] in ("ref", "rawptr") and rv["mut"]:
                fs2 = place_fields(rv["place"])
                if (adt, field) in fs2:
                    out.append((fn.name, bi, fn.loc(bi, si), "mut-borrow"))
            if rv["k"] == "aggregate" and rv.get("agg") == "adt" and rv["adt"] == adt:
                out.append((fn.name, bi, fn.loc(bi, si), "construct"))
        for bi, t in fn.calls():
            fs = place_fields(t["dest"])
            if (adt, field) in fs:
                out.append((fn.name, bi, fn.loc(bi), "call-result"))
    return out


def is_derive(fn):
    sp = fn.d["span"]
    return bool(sp.get("exp")) and sp["exp"].startswith("macro:") and fn.d.get("trait_impl") in (
        "std::fmt::Debug", "std::cmp::PartialEq", "std::cmp::Eq", "std::clone::Clone", "std::hash::Hash", "std::cmp::PartialOrd", "std::marker::Copy")


def mut_borrow_consumers(fn, adt, field):
    """For each `&mut ….field` taken in fn: the callee the reference is handed to (by following the
    temporary through moves/reborrows), or None if it is not passed to a call directly."""
    out = []
    holders = {}
    for bi, si, place, rv in fn.assigns():
        if rv["k"] in ("ref", "rawptr") and rv["mut"] and not place["proj"]:
            fs2 = place_fields(rv["place"])
            if fs2 and fs2[-1] == (adt, field):
                holders[place["local"]] = (bi, si)
            elif rv["place"]["local"] in holders and [e["k"] for e in rv["place"]["proj"]] == ["deref"]:
                holders[place["local"]] = holders[rv["place"]["local"]]
        elif rv["k"] == "use" and rv["op"]["k"] in ("copy", "move") and not place["proj"] and not rv["op"]["place"]["proj"] and rv["op"]["place"]["local"] in holders:
            holders[place["local"]] = holders[rv["op"]["place"]["local"]]
    used = set()
    for bi, t in fn.calls():
        for a in t["args"]:
            if a["k"] in ("copy", "move") and not a["place"]["proj"] and a["place"]["local"] in holders:
                out.append((holders[a["place"]["local"]], bi, t))
                used.add(holders[a["place"]["local"]])
    for l, site in holders.items():
        if site not in used:
            out.append((site, None, None))
    # de-duplicate unconsumed entries that do have a consumer through an alias
    res = []
    for site, bi, t in out:
        if t is None and site in used:
            continue
        if (site, bi) not in [(r[0], r[1]) for r in res]:
            res.append((site, bi, t))
    return res


def param_consumers(fn, param_local):
    """Callees that receive the `&mut` parameter `param_local` of fn (directly, moved or reborrowed): list of terminators;
    None in the list when the parameter is used in some other way that could leak it."""
    holders = {param_local}
    for bi, si, place, rv in fn.assigns():
        if place["proj"]:
            continue
        if rv["k"] in ("ref", "rawptr") and rv["place"]["local"] in holders and [e["k"] for e in rv["place"]["proj"]] == ["deref"]:
            holders.add(place["local"])
        elif rv["k"] == "use" and rv["op"]["k"] in ("copy", "move") and not rv["op"]["place"]["proj"] and rv["op"]["place"]["local"] in holders:
            holders.add(place["local"])
    out = []
    for bi, t in fn.calls():
        for a in t["args"]:
            if a["k"] in ("copy", "move") and not a["place"]["proj"] and a["place"]["local"] in holders:
                out.append(t)
    return out
