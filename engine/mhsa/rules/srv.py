"""Shared views of the epoll server (server.rs)."""
from ..core import AnalysisError, subterms, term_s
from ..paths import PathEnum
from .conn import leaves, ret_kind
from .util import const_of, is_call, last_seg, look, norm, option_is_some, truth

S = "server::HttpServer::"
CC = "server::ClientConnection::<T>::"
CCT = "server::ClientConnection"
SRV = "server::HttpServer"
STATE = "server::ClientConnectionState"
REQUESTS = S + "requests"
RESPOND = S + "respond"
FLUSH = S + "flush_outgoing_writes"
ENQ = S + "enqueue_responses"
HNC = S + "handle_new_connection"
EV_IN, EV_OUT, EV_ERR, EV_HUP, EV_RDHUP = 0x1, 0x4, 0x8, 0x10, 0x2000


def state_const(facts, t):
    """Variant name for a constant / literal of ClientConnectionState."""
    t = look(t)
    if t[0] == "agg" and t[1] == STATE:
        return t[2]
    if t[0] == "const" and isinstance(t[1], bytes) and len(t[1]) == 1:
        return facts.variant_discr(STATE).get(t[1][0])
    return None


def is_state_place(t):
    t = look(t)
    return t[0] == "field" and t[3] == "state" and t[2] == CCT


def state_test(facts, t, c):
    """If (t, c) tests `<conn>.state` against a variant: (conn_term, set of variants still possible)."""
    allv = set(facts.variant_names(STATE))
    if t[0] == "call" and last_seg(t[1]) in ("eq", "ne") and len(t[2]) == 2:
        a, b = t[2]
        if is_state_place(b):
            a, b = b, a
        if is_state_place(a):
            v = state_const(facts, b)
            tv = truth(c)
            if v is None or tv is None:
                return None
            if last_seg(t[1]) == "ne":
                tv = not tv
            return (look(look(a)[1]), {v} if tv else allv - {v})
    if t[0] == "discr" and is_state_place(t[1]):
        d = facts.variant_discr(STATE)
        if c[0] == "eq":
            return (look(look(t[1])[1]), {d.get(c[1])})
        return (look(look(t[1])[1]), {n for k, n in d.items() if k not in c[1]})
    return None


def state_infeasible(facts, lf):
    """True when the path tests the same connection's state twice with contradicting outcomes and nothing that could
    change the state lies between the two tests (`if c.state == AwaitingOutgoing { .. match c.state { Closed => .. } }`:
    a helper that maps the state to an event set, traversed inline, has arms the caller's test already excluded)."""
    known = {}
    for e in lf.events:
        if e[0] == "cond":
            st = state_test(facts, e[3], e[4])
            if st:
                k = norm(st[0])
                cur = known.get(k)
                cur = set(st[1]) if cur is None else (cur & set(st[1]))
                if not cur:
                    return True
                known[k] = cur
        elif e[0] == "assign":
            if "(*" in e[3] or "state" in e[3]:      # a store through a reference / into a state field; plain locals cannot alias it
                known.clear()
        elif e[0] == "call":
            if last_seg(e[3]) in ("eq", "ne") and "PartialEq" in e[3]:
                continue
            if e[3] in facts.fns or any(isinstance(a, tuple) and a and a[0] == "ref" and len(a) > 2 and a[2] for a in e[4][2]):
                known.clear()
    return False


def eventset_value(t):
    """Integer value of an EventSet expression built from constants with BitOr."""
    t = look(t)
    if t[0] == "const" and isinstance(t[1], int):
        return t[1]
    if is_call(t, "bitor") and len(t[2]) == 2:
        a, b = eventset_value(t[2][0]), eventset_value(t[2][1])
        if a is not None and b is not None:
            return a | b
    return None


def event_term(lf):
    """The epoll event of this loop iteration: payload of Iterator::next on the events slice."""
    for (t, c, _b) in lf.conds:
        if t[0] == "discr" and is_call(look(t[1]), "next") and option_is_some(c):
            # the iterator over what Epoll::wait filled in, not some other loop of the function
            if any(isinstance(s_, tuple) and s_ and (s_[0] == "repeat" or (s_[0] == "call" and s_[1] == "vmm_sys_util::epoll::Epoll::wait")) for s_ in subterms(t[1])):
                return look(t[1])
    return None


def is_event_field(t, ev, which):
    """t is EpollEvent::<which>(<event of this iteration>)"""
    t = look(t)
    if not is_call(t, "vmm_sys_util::epoll::EpollEvent::" + which):
        return False
    a = look(t[2][0])
    while a[0] == "field" and a[1][0] == "downcast":
        a = look(a[1][1])
    return ev is not None and norm(a) == norm(ev)


def contains_flag(t):
    """(flag int) if t is EventSet::contains(&event_set(e), const FLAG)"""
    if is_call(t, "vmm_sys_util::epoll::EventSet::contains"):
        return const_of(t[2][1])
    return None


def flags_on_path(lf):
    """{flag: truth} for the event-set tests on this path."""
    out = {}
    for (t, c, _b) in lf.conds:
        f = contains_flag(t)
        if f is not None:
            out[f] = truth(c)
        elif is_call(t, "vmm_sys_util::epoll::EventSet::intersects"):
            # intersects(A | B | C): false = none of them is set; true = at least one of them is
            mask = eventset_value(t[2][1])
            tv = truth(c)
            if mask is not None and tv is not None:
                bits = [1 << i for i in range(32) if mask & (1 << i)]
                for b in bits:
                    if tv is False:
                        out[b] = False
                    elif len(bits) == 1:
                        out[b] = True
                    elif out.get(b) is not False:
                        out[b] = "one-of-0x%x" % mask
    return out


def calls(lf, *names):
    return [e for e in lf.events if e[0] == "call" and (e[3] in names or last_seg(e[3]) in names)]


def epoll_wrappers(ctx, rule):
    """Check epoll_add/mod/del wrappers: op, fd, event data == fd as u64.  Returns {name: eventset-or-'arg'}."""
    out = {}
    for name, op in (("epoll_add", "Add"), ("epoll_mod", "Modify"), ("epoll_del", "Delete")):
        fn, lv = leaves(ctx, S + name)
        for lf in lv:
            ctl = calls(lf, "vmm_sys_util::epoll::Epoll::ctl")
            ok = len(ctl) == 1
            es = None
            if ok:
                a = ctl[0][4][2]
                opv = look(a[1])
                evn = look(a[3])
                ok = look(a[0]) == ("arg", 1) and opv[0] == "agg" and opv[2] == op and look(a[2]) == ("arg", 2) and is_call(evn, "vmm_sys_util::epoll::EpollEvent::new")
                if ok:
                    data = look(evn[2][1])
                    ok = data[0] == "cast" and look(data[1]) == ("arg", 2) and data[2] == "u64"
                    es = "arg" if look(evn[2][0]) == ("arg", 3) else eventset_value(evn[2][0])
            ctx.ob(rule, "wrapper|%s" % name, ok, "%s = epoll.ctl(%s, fd, EpollEvent::new(set, fd as u64)): the event data is the descriptor itself" % (name, op), fn.loc(0))
            out[name] = es
            r = look(lf.ret())
            ctx.ob(rule, "wrapper|%s|result" % name, is_call(r, "map_err") and is_call(look(r[2][0]), "ctl"), "%s returns the result of that ctl call" % name, fn.loc(0))
    return out


def from_fn_drains(facts, lf, consumers):
    """Does this path run `iter::from_fn(|| conn.pop_parsed_request())` to exhaustion (handed to one of `consumers`)?
    from_fn calls the closure until it answers None: the same drain as `while let Some(r) = pop_parsed_request()`."""
    from .conn import P
    for e in lf.events:
        if e[0] != "call" or last_seg(e[3]) not in consumers:
            continue
        for a in e[4][2]:
            x = look(a)
            while x[0] == "mut":
                x = look(x[1])
            if is_call(x, "std::iter::from_fn") and x[2]:
                clo = look(x[2][0])
                if clo[0] == "closure" and clo[1] in facts.fns:
                    good = True
                    for l2 in PathEnum(facts.fns[clo[1]], facts).run():
                        good = good and is_call(look(l2.ret()), P + "pop_parsed_request")
                    if good:
                        return e
    return None


def dead_sweep(facts, lf):
    """The sweep written in two steps: dead = connections.iter().filter(|(_, c)| c.is_done()).map(|(fd, _)| *fd).collect();
    for fd in dead { epoll_del(fd); connections.remove(&fd) }.  Returns the collect term if this path builds such a list."""
    from .conn import P
    for e in lf.events:
        if e[0] != "call" or last_seg(e[3]) != "collect":
            continue
        it = look(e[4][2][0])
        clos = []
        while it[0] == "call" and last_seg(it[1]) in ("map", "filter", "copied", "cloned", "filter_map") and it[2]:
            if len(it[2]) == 2:
                clos.append((last_seg(it[1]), look(it[2][1])))
            it = look(it[2][0])
        if not (is_call(it, "iter", "keys") and it[2] and look(it[2][0])[0] == "field" and look(it[2][0])[3] == "connections"):
            continue
        filt = [c for k, c in clos if k == "filter"]
        if len(filt) != 1 or filt[0][0] != "closure" or filt[0][1] not in facts.fns:
            continue
        good = True
        for l2 in PathEnum(facts.fns[filt[0][1]], facts).run():
            r = look(l2.ret())
            good = good and is_call(r, CC + "is_done")
        if good:
            return e[4]
    return None


ACCUMULATORS = {"append", "push", "extend", "extend_from_slice"}


def yield_vector(ctx, rule):
    """The vector requests() hands to the application: found from the `Ok(v)` the function returns.
    Necessary condition for "every request counted in flight is yielded": inside the event loop `v` is only
    ever accumulated into (receiver of append / push / extend), never reassigned, drained, cleared or moved
    away.  Returns the set of blocks whose terminator is such an accumulating call on `v` (also through
    helpers that take `&mut v`)."""
    facts = ctx.facts
    fn = facts.fns[REQUESTS]
    ys = set()
    for d in fn.defs.get(0, []):
        if d[0] == "stmt" and d[3]["k"] == "aggregate" and d[3].get("adt") == "std::result::Result" and d[3].get("variant") == "Ok":
            op = d[3]["ops"][0]
            if op["k"] in ("move", "copy") and not op["place"]["proj"]:
                ys.add(op["place"]["local"])
    # follow plain moves backwards: `_180 = move _2`
    work = list(ys)
    while work:
        l = work.pop()
        for d in fn.defs.get(l, []):
            if d[0] == "stmt" and d[3]["k"] == "use" and d[3]["op"]["k"] in ("move", "copy") and not d[3]["op"]["place"]["proj"]:
                s = d[3]["op"]["place"]["local"]
                if s not in ys:
                    ys.add(s)
                    work.append(s)
    ctx.ob(rule, "yield|vector-found", bool(ys), "requests() returns Ok(v) with v one of the locals %s" % sorted("_%d" % y for y in ys), fn.loc(0))
    acc_blocks = set()
    cyc = fn.cyclic_blocks()
    n_init = 0
    for y in sorted(ys):
        for d in fn.defs.get(y, []):
            bb = d[1]
            is_move_in = d[0] == "stmt" and d[3]["k"] == "use" and d[3]["op"]["k"] in ("move", "copy") and d[3]["op"]["place"]["local"] in ys
            if is_move_in:
                continue
            n_init += 1
            ctx.ob(rule, "yield|not-reassigned-in-loop|_%d" % y, bb not in cyc, "the vector of yielded requests is given a new value only outside the event loop (a reassignment inside it forgets requests already read and counted in flight)", fn.loc(bb, d[2] if d[0] == "stmt" else None))
    ctx.ob(rule, "yield|initialised", n_init >= 1, "%d initialising definition(s) of the yielded vector" % n_init, fn.loc(0))
    n_acc = [0]
    top = [None]
    in_loop = [False]
    depth_in_loop = [False]

    def uses_of_handles(f, handles, depth, where):
        """`handles`: locals of f holding `&mut v`.  Every call they are passed to must accumulate."""
        handles = set(handles)
        changed = True
        while changed:
            changed = False
            for bi, si, place, rv in f.assigns():
                if not place["proj"] and place["local"] not in handles:
                    src = None
                    if rv["k"] == "use" and rv["op"]["k"] in ("move", "copy") and not rv["op"]["place"]["proj"]:
                        src = rv["op"]["place"]["local"]
                    elif rv["k"] == "ref" and rv["mut"] and [e["k"] for e in rv["place"]["proj"]] == ["deref"]:
                        src = rv["place"]["local"]
                    if src in handles:
                        handles.add(place["local"])
                        changed = True
        for bi, si, place, rv in f.assigns():
            if place["local"] in handles and [e["k"] for e in place["proj"]] == ["deref"]:
                ctx.ob(rule, "yield|not-overwritten|%s" % where, False, "the yielded vector is overwritten through a reference", f.loc(bi, si))
        for bi, t in f.calls():
            pos = [i for i, a in enumerate(t["args"]) if a["k"] in ("move", "copy") and not a["place"]["proj"] and a["place"]["local"] in handles]
            if not pos:
                continue
            from .util import local_callee, is_new_fn
            p = local_callee(t) or ""
            seg = last_seg(p)
            if seg in ACCUMULATORS and pos == [0]:
                n_acc[0] += 1
                acc_blocks.add((f.name, bi))
                if f is not fn:
                    # the event loop may itself have been moved into the helper that fills the vector
                    in_loop[0] = in_loop[0] or top[0] in cyc or bi in f.cyclic_blocks() or depth_in_loop[0]
                ctx.ob(rule, "yield|accumulated|%s|%s" % (where, seg), True, "requests are added to the yielded vector with %s" % seg, f.loc(bi))
            elif seg == "truncate" and pos == [0] and f is not fn and truncate_restores_entry(ctx, f, {i for i in handles if 1 <= i <= f.nargs}):
                # `out.truncate(len_at_entry)` on an error path: what this call added is taken back, what the caller had collected stays
                ctx.ob(rule, "yield|restored-on-error|%s" % where, True, "on an error path %s cuts the caller's vector back to the length it had on entry (nothing collected earlier is lost, nothing counted is withheld)" % last_seg(f.name), f.loc(bi))
            elif p in facts.fns and (is_new_fn(p) or p == CC + "read") and depth < 3:
                g = facts.fns[p]
                if f is fn:
                    top[0] = bi
                was = depth_in_loop[0]
                depth_in_loop[0] = was or (f is not fn and bi in f.cyclic_blocks())
                uses_of_handles(g, {i + 1 for i in pos}, depth + 1, where + ">" + last_seg(p))
                depth_in_loop[0] = was
            else:
                ctx.ob(rule, "yield|only-accumulated|%s|%s" % (where, seg), False, "the yielded vector is handed by `&mut` to %s, which is not one of %s on it: requests already collected may be lost" % (p, sorted(ACCUMULATORS)), f.loc(bi))

    roots = set()
    for bi, si, place, rv in fn.assigns():
        if rv["k"] == "ref" and rv["mut"] and not rv["place"]["proj"] and rv["place"]["local"] in ys and not place["proj"]:
            roots.add(place["local"])
    uses_of_handles(fn, roots, 0, "requests")
    # the vector is moved only into the returned Ok(..)
    for bi, t in fn.calls():
        for a in t["args"]:
            if a["k"] == "move" and not a["place"]["proj"] and a["place"]["local"] in ys:
                ctx.ob(rule, "yield|not-moved-away", False, "the yielded vector is moved into a call to %s" % (callee(t)), fn.loc(bi))
    looped = in_loop[0] or any(f == fn.name and b in cyc for f, b in acc_blocks)
    ctx.ob(rule, "yield|floor", n_acc[0] >= 1 and looped, "%d accumulating call(s) on the yielded vector, %s in the event loop (floor 1)" % (n_acc[0], "some" if looped else "none"), fn.loc(0))
    return acc_blocks


def truncate_restores_entry(ctx, f, params):
    """Every `v.truncate(n)` on a `&mut Vec` parameter of f has n = v.len() taken before anything was added on that path
    (the receiver of that len() carries no mutation), and lies on a path that returns an error."""
    if not params:
        return False
    fn_, lv = leaves(ctx, f.name, lower=True)
    n = 0
    for lf in lv:
        for e in lf.events:
            if e[0] != "call" or last_seg(e[3]) != "truncate" or "Vec" not in e[3] or not e[4][2]:
                continue
            r = _strip_mut(e[4][2][0])
            if not (r[0] == "arg" and r[1] in params):
                continue
            n += 1
            ln = look(e[4][2][1])
            rk = ret_kind(lf)
            if not (is_call(ln, "len") and look(ln[2][0]) == r and rk is not None and rk[0] in ("Err", "prop")):
                return False
    return n >= 1


def callee(t):
    c = t["callee"]
    return (c.get("resolved") or {}).get("path") or c.get("path")


def read_out_params(facts):
    """Argument numbers of `&mut Vec<_>` parameters of ClientConnection::read (the caller's vector, filled in place)."""
    fn = facts.fns[CC + "read"]
    out = []
    for i in range(2, fn.nargs + 1):
        ty = fn.locals[i]["ty"]
        if ty.get("k") == "ref" and ty.get("mut") and (ty.get("inner") or {}).get("path") == "std::vec::Vec":
            out.append(i)
    return out


def _strip_mut(t):
    t = look(t)
    while t[0] == "mut":
        t = look(t[1])
    return t


def read_yield(facts, lf):
    """What one path of ClientConnection::read hands to its caller.
    form 'returned': the vector in Ok(v);  form 'out-param': the caller's vector is filled in place --
    `vec` is then the local vector whose items are appended (extend / append of it, possibly mapped through a wrapping
    closure), `pushes` the single items pushed directly, `acc` all accumulating calls on the parameter."""
    rk = ret_kind(lf)
    ops = read_out_params(facts)
    if not ops:
        v = look(rk[1]) if rk is not None and rk[0] == "Ok" else None
        if v is not None and v[0] == "agg" and v[1] in facts.adts and v[1].split("::")[0] not in ("std", "core", "alloc"):
            # a private struct carrying the vector next to other results: `ReadOutcome { requests, awaiting_outgoing }`
            vf = [i for i, f_ in enumerate(facts.struct_fields(v[1])) if (f_["ty"].get("path") == "std::vec::Vec")]
            if len(vf) == 1:
                w = _strip_mut(v[3][vf[0]])
                while w[0] == "call" and last_seg(w[1]) in ("map", "into_iter", "iter", "drain", "collect", "by_ref") and w[2]:
                    w = _strip_mut(w[2][0])
                v = w
        if v is not None and v[0] == "mut":
            # the last thing done to the returned vector on this path: `v.clear()` hands back nothing, whatever it held
            w = v
            while w[0] == "mut" and last_seg(w[2]) not in ACCUMULATORS and last_seg(w[2]) != "clear":
                w = look(w[1])
            if w[0] == "mut" and last_seg(w[2]) == "clear" and "Vec" in w[2]:
                return {"form": "returned", "vec": _strip_mut(v), "acc": [], "pushes": [], "empty": True}
        empty = v is not None and is_call(v, "new") and "Vec" in v[1]
        if empty:
            filled = [e for e in lf.events if e[0] == "call" and last_seg(e[3]) in ACCUMULATORS and e[4][2] and norm(_strip_mut(e[4][2][0])) == norm(v)]
            empty = not filled
        return {"form": "returned", "vec": v, "acc": [], "pushes": [], "empty": empty}
    acc = []
    for e in lf.events:
        if e[0] == "call" and last_seg(e[3]) in ACCUMULATORS and e[4][2]:
            r = _strip_mut(e[4][2][0])
            if r[0] == "arg" and r[1] in ops:
                acc.append(e)
    vec = None
    pushes = []
    for e in acc:
        if last_seg(e[3]) == "push":
            pushes.append(e)
            continue
        src = _strip_mut(e[4][2][1])
        while src[0] == "call" and last_seg(src[1]) in ("map", "into_iter", "iter", "drain", "collect", "by_ref") and src[2]:
            src = _strip_mut(src[2][0])
        vec = src
    empty = not acc
    if acc and not pushes and vec is not None and is_call(vec, "new") and "Vec" in vec[1]:
        # `out.extend(local.into_iter().map(wrap))` with a local vector nothing was pushed onto on this path
        filled = [e for e in lf.events if e[0] == "call" and last_seg(e[3]) in ACCUMULATORS and e[4][2] and norm(_strip_mut(e[4][2][0])) == norm(vec)]
        empty = not filled
    return {"form": "out-param", "vec": vec, "acc": acc, "pushes": pushes, "empty": empty, "param": ops}
