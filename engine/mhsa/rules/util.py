"""Helpers shared by the rule modules."""
from ..core import AnalysisError, subterms, term_s, strip

NEUTRAL_STR = (
    "to_vec", "from_utf8", "as_str", "map_err", "deref", "deref_mut", "branch", "as_bytes",
    "to_owned", "to_string", "from", "as_slice", "as_ref", "borrow", "into", "clone", "as_mut_str",
    "from_utf8_unchecked", "unwrap", "expect", "ok", "index",
)
TRIM = ("trim",)
CASEFOLD = (
    "make_ascii_lowercase", "to_lowercase", "to_ascii_lowercase", "make_ascii_uppercase",
    "to_uppercase", "to_ascii_uppercase", "eq_ignore_ascii_case",
)
LOWER = ("make_ascii_lowercase", "to_lowercase", "to_ascii_lowercase")


def last_seg(path):
    return path.rsplit("::", 1)[-1]


def is_call(t, *names):
    """t is a call whose callee's last path segment is one of names (or full path equals)."""
    if not isinstance(t, tuple) or t[0] != "call":
        return False
    return t[1] in names or last_seg(t[1]) in names


def norm(t):
    """Drop call-site block ids so that terms from different sites compare structurally."""
    if not isinstance(t, tuple) or not t:
        return t
    if t[0] == "call":
        return ("call", t[1], tuple(norm(a) for a in t[2]))
    out = []
    for x in t:
        if isinstance(x, tuple) and x and isinstance(x[0], str):
            out.append(norm(x))
        elif isinstance(x, tuple):
            out.append(tuple(norm(y) if isinstance(y, tuple) else y for y in x))
        else:
            out.append(x)
    return tuple(out)


def look(t):
    """Strip refs/derefs and Deref::deref / as_str / as_bytes style identity calls."""
    while True:
        if t[0] in ("ref", "deref"):
            t = t[1]
        elif t[0] == "call" and t[1].split("::")[0] in ("std", "core", "alloc") and last_seg(t[1]) in ("deref", "as_str", "as_bytes", "as_slice", "as_ref", "borrow", "deref_mut", "as_mut", "as_deref", "as_deref_mut", "as_mut_slice", "borrow_mut") and len(t[2]) == 1:
            t = t[2][0]
        elif t[0] == "cast" and "PointerCoercion" in t[3]:
            t = t[1]
        else:
            return t


def canon(t):
    """look() applied at every level (and call-site ids dropped): two ways of reaching the same value through
    references, as_ref/as_mut/deref adapters compare equal."""
    if not isinstance(t, tuple) or not t:
        return t
    if isinstance(t[0], str):
        t = look(t)
        if t[0] == "call":
            return ("call", t[1], tuple(canon(a) for a in t[2]))
    return tuple(canon(x) if isinstance(x, tuple) else x for x in t)


def transforms(t):
    """Last path segments of all calls / in-place mutators inside a term."""
    out = []
    for s in subterms(t):
        if isinstance(s, tuple) and s:
            if s[0] == "call":
                out.append(last_seg(s[1]))
            elif s[0] == "mut":
                out.append(last_seg(s[2]))
    return out


def truth(c):
    """Truth value selected by a switch condition on a bool: True / False / None."""
    if c[0] == "eq":
        return c[1] != 0
    if c[0] == "ne" and c[1] == (0,):
        return True
    return None


def cond_holds(conds, pred, want=True):
    """Is there a condition (t, c) on the path with pred(t) and truth(c) == want?"""
    for (t, c, _bb) in conds:
        if truth(c) == want and pred(t):
            return True
    return False


def field_is(t, adt, name):
    t = look(t)
    return t[0] == "field" and t[3] == name and (adt is None or t[2] == adt)


def const_of(t):
    t = look(t)
    if t[0] == "const":
        return t[1]
    return None


def as_bytes_val(v):
    if isinstance(v, bytes):
        return v
    if isinstance(v, str):
        return v.encode()
    return None


def fmt_t(t):
    return term_s(t)


def option_is_some(c):
    """For a switch on the discriminant of an Option: True (Some) / False (None) / None (undecided)."""
    if c[0] == "eq":
        return c[1] == 1
    if c[0] == "ne":
        if 1 in c[1] and 0 not in c[1]:
            return False
        if 0 in c[1] and 1 not in c[1]:
            return True
    return None


def as_sum(t):
    """(a, b) if t is a + b in any of its lowered forms: (AddWithOverflow(a, b)).0 (dev profile),
    Add(a, b) (release profile) or the Some payload of checked_add(a, b) under `?`."""
    t = look(t)
    if t[0] == "field" and t[3] == "0" and t[1][0] == "bin" and t[1][1] in ("AddWithOverflow", "Add"):
        return t[1][2], t[1][3]
    if t[0] == "bin" and t[1] in ("Add", "AddUnchecked"):
        return t[2], t[3]
    ca = payload_of(t)
    if ca is not None and is_call(ca, "checked_add") and len(ca[2]) == 2:
        return ca[2][0], ca[2][1]
    return None


def ok_payload_source(t):
    """If t is the Ok/Some payload of X (written as `X?` or as a match binding), return X; else None."""
    t = look(t)
    if t[0] == "payload":
        return look(t[1])
    if t[0] == "field" and t[1][0] == "downcast" and t[1][2] in ("Ok", "Some", "Continue") and t[3] == "0":
        return look(t[1][1])
    return None


def payload_of(t):
    """X if the term t denotes the Some/Ok payload of X, however it was taken out: `X?`, `X.ok_or(e)?`,
    `X.map_err(f)?`, or a `match`/`if let` binding ((X as Some).0); adapters that keep the payload are skipped.
    None if t is not such a payload."""
    t = look(t)
    if t[0] == "payload":
        x = look(t[1])
    elif t[0] == "field" and t[3] == "0" and t[1][0] == "downcast" and t[1][2] in ("Some", "Ok"):
        x = look(t[1][1])
    else:
        return None
    while (is_call(x, "ok_or", "ok_or_else", "map_err") or (is_call(x, "ok") and x[1].startswith(("std::result::Result", "core::result::Result")) and len(x[2]) == 1)) and x[2] and x[1].split("::")[0] in ("std", "core"):
        x = look(x[2][0])      # `Result::ok` keeps the Ok payload as the Some payload
    return x


def strip_map_err(t):
    t = look(t)
    while is_call(t, "map_err") and t[2]:
        t = look(t[2][0])
    return t


def is_new_fn(name):
    """A crate-local function that is not in the frozen list: introduced after the rules were written.
    Such helpers are traversed inline at their call sites (paths.py) instead of being analysed alone."""
    from ..paths import known_fns
    return name not in known_fns()


def known_callers(facts, target):
    """Names of the *known* functions from which `target` is reached, looking through new helpers
    (and through closures to the function that defines them)."""
    out = set()
    seen = set()
    work = [target]
    while work:
        t = work.pop()
        for f in facts.fns.values():
            hit = False
            for bb, term in f.calls():
                c = term["callee"]
                r = c.get("resolved")
                p = r["path"] if r and r.get("local") else c.get("path")
                if p == t:
                    hit = True
                    break
            if not hit and not any(cl.name == t for cl in facts.closures_of(f.name)):
                continue
            name = f.name
            if is_new_fn(name) and name not in seen:
                seen.add(name)
                work.append(name)
            elif not is_new_fn(name):
                out.add(name)
    return out


def has_callers(facts, name):
    for f in facts.fns.values():
        for bb, term in f.calls():
            c = term["callee"]
            r = c.get("resolved")
            p = r["path"] if r and r.get("local") else c.get("path")
            if p == name:
                return True
    return False


def local_callee(term):
    c = term["callee"]
    r = c.get("resolved")
    return r["path"] if r and r.get("local") else c.get("path")


def reaches_via_new(facts, fn, target, _seen=None):
    """Does `fn` call `target` directly or through helpers that are not in the frozen list?"""
    seen = _seen if _seen is not None else set()
    for bb, t in fn.calls():
        p = local_callee(t)
        if p == target:
            return True
        if p in facts.fns and is_new_fn(p) and p not in seen:
            seen.add(p)
            if reaches_via_new(facts, facts.fns[p], target, seen):
                return True
    return False


def block_reaches(facts, fn, bb, target):
    t = fn.blocks[bb]["term"]
    if t["k"] != "call":
        return False
    p = local_callee(t)
    if p == target:
        return True
    return p in facts.fns and is_new_fn(p) and reaches_via_new(facts, facts.fns[p], target)


def roots_of(facts, fname):
    """The known functions on whose behalf code in `fname` runs: itself if it is in the frozen list,
    else the known functions that reach it through new helpers / closures."""
    if not is_new_fn(fname):
        return {fname}
    return known_callers(facts, fname)


def result_outcome(lf, callterm):
    """'ok' / 'err' / None: what this path established about the Result returned by the call `callterm`
    (through `?`, match / if let, is_ok() / is_err())."""
    want = norm(callterm)
    out = None
    for (t, c, _b) in lf.conds:
        neg = False
        x = t
        while x[0] == "un" and x[1] == "Not":
            x, neg = look(x[2]), not neg
        if x[0] == "discr":
            y = look(x[1])
            if is_call(y, "branch") and y[2]:
                y = look(y[2][0])
            while norm(y) != want and is_call(y, "map_err", "ok_or", "ok_or_else", "map", "inspect", "inspect_err") and y[2] and y[1].split("::")[0] in ("std", "core"):
                y = look(y[2][0])
            if norm(y) == want:
                if c == ("eq", 0) or (c[0] == "ne" and 1 in c[1] and 0 not in c[1]):
                    out = "ok"
                elif c == ("eq", 1) or (c[0] == "ne" and 0 in c[1] and 1 not in c[1]):
                    out = "err"
        elif is_call(x, "is_err", "is_ok") and x[2] and norm(look(x[2][0])) == want:
            tv = truth(c)
            if tv is not None:
                if neg:
                    tv = not tv
                out = ("err" if tv else "ok") if is_call(x, "is_err") else ("ok" if tv else "err")
    return out


def propagated_error(t):
    """For the return value of a path that propagates an error with `?` (possibly through helpers traversed
    inline): (source call, error value or None).  `x.ok_or(E)?` yields (x, E)."""
    x = look(t)
    err = None
    while True:
        if is_call(x, "from_residual") and x[2]:
            x = look(x[2][0])
        elif x[0] == "residual":
            x = look(x[1])
        elif is_call(x, "branch") and x[2]:
            x = look(x[2][0])
        elif is_call(x, "ok_or") and len(x[2]) == 2:
            err = look(x[2][1])
            x = look(x[2][0])
        elif is_call(x, "map_err") and x[2]:
            x = look(x[2][0])
        else:
            return x, err


def tested_call(t, c):
    """For a branch condition (t, c) on the discriminant of the Result/Option returned by a call -- directly
    (match / if let) or through `?`, with map_err / ok_or in between: (call term, 'ok' | 'err' | None)."""
    if t[0] != "discr":
        return None, None
    y = look(t[1])
    via = False
    if is_call(y, "branch") and y[2]:
        y = look(y[2][0])
        via = True
    flip = False
    while is_call(y, "map_err", "ok_or", "ok_or_else", "ok") and y[2] and y[1].split("::")[0] in ("std", "core"):
        if last_seg(y[1]) in ("ok_or", "ok_or_else", "ok") and ("Result" in y[1]) == (last_seg(y[1]) == "ok"):
            flip = not flip      # Option <-> Result: Some/Ok and None/Err swap discriminant values
        y = look(y[2][0])
    if y[0] != "call":
        return None, None
    if via:
        out = "ok" if c == ("eq", 0) else ("err" if c in (("eq", 1), ("ne", (0,))) else None)
        return y, out
    # Result: 0 = Ok, 1 = Err;  Option: 0 = None, 1 = Some -- the caller knows which one the *call* returns
    d = "d0" if (c == ("eq", 0) or (c[0] == "ne" and 1 in c[1] and 0 not in c[1])) else "d1" if (c == ("eq", 1) or (c[0] == "ne" and 0 in c[1] and 1 not in c[1])) else None
    if flip and d is not None:
        d = "d1" if d == "d0" else "d0"
    return y, d


def result_test(t, c, pred):
    """'ok' / 'err' / None when (t, c) tests the Result returned by a call satisfying pred."""
    y, out = tested_call(t, c)
    if y is None or not pred(y):
        return None
    return {"d0": "ok", "d1": "err"}.get(out, out)


def option_test(t, c, pred):
    """'some' / 'none' / None when (t, c) tests the Option returned by a call satisfying pred."""
    y, out = tested_call(t, c)
    if y is None or not pred(y):
        return None
    return {"d0": "none", "d1": "some", "ok": "some", "err": "none"}.get(out)


def writer_roots(facts, fname):
    """Known functions on whose behalf a write in `fname` happens (fname itself when it is known)."""
    return roots_of(facts, fname) or {fname}


def calls_with_helpers(facts, fn, seg, _seen=None):
    """(function, bb, terminator) of every call whose callee's last path segment is `seg`, in fn and in the new
    helpers (and closures) it reaches."""
    seen = _seen if _seen is not None else set()
    out = []
    for bb, t in fn.calls():
        p = local_callee(t) or ""
        if last_seg(p) == seg:
            out.append((fn, bb, t))
        if p in facts.fns and is_new_fn(p) and p not in seen:
            seen.add(p)
            out += calls_with_helpers(facts, facts.fns[p], seg, seen)
    for cl in facts.closures_of(fn.name):
        if cl.name not in seen:
            seen.add(cl.name)
            out += calls_with_helpers(facts, cl, seg, seen)
    return out


def caller_fns(facts, target):
    """known_callers with closures mapped to the function that defines them."""
    out = set()
    for c in known_callers(facts, target):
        while "::{closure#" in c:
            c = c[:c.rindex("::{closure#")]
        out.add(c)
    return out


def struct_field_value(facts, agg, field):
    """The value a struct literal gives to `field`, also when the field now lives in a grouping sub-struct that the
    fact loader flattens (core.compute_embeds): descend through the group's literal.  None if it cannot be read."""
    agg = look(agg)
    if agg[0] != "agg" or agg[1] not in facts.adts:
        return None
    names = [f["name"] for f in facts.struct_fields(agg[1])]
    if field in names:
        return agg[3][names.index(field)]
    for (P, g), S in facts.embeds.items():
        if P != agg[1] or g not in names:
            continue
        for (S2, f2), (P2, role) in facts.aliases.items():
            if S2 == S and role == field:
                sub = look(agg[3][names.index(g)])
                if sub[0] == "agg" and sub[1] == S:
                    snames = [f["name"] for f in facts.struct_fields(S)]
                    return sub[3][snames.index(f2)]
    return None


def frozen_field_type(facts, adt, field):
    """Type record of `adt.field`, also when the field lives in a grouping sub-struct today."""
    for f in facts.struct_fields(adt):
        if f["name"] == field:
            return f["ty"]
    for (P, g), S in facts.embeds.items():
        if P != adt:
            continue
        for (S2, f2), (P2, role) in facts.aliases.items():
            if S2 == S and role == field:
                for f in facts.struct_fields(S):
                    if f["name"] == f2:
                        return f["ty"]
    return None
