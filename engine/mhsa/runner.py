"""Check runner: extraction, rule evaluation, known findings, evidence, exit status."""
import importlib
import json
import os
import shutil
import subprocess
import sys
import tempfile
import time
import traceback

from .core import AnalysisError, Facts

VERIF = os.path.abspath(os.path.join(os.path.dirname(__file__), "..", ".."))
REPO = os.environ.get("VERIF_REPO", "/repo")
DRIVER = os.path.join(VERIF, "engine", "mirdump", "target", "release", "mirdump")

# Floors counted on the tree at the time the rules were written (fail closed when the
# extraction silently shrinks).
FLOOR_BODIES = 150
FLOOR_CALLS = 600
ANCHOR_FNS = [
    "connection::HttpConnection::<T>::try_read",
    "connection::HttpConnection::<T>::try_write",
    "server::HttpServer::requests",
    "server::HttpServer::respond",
    "request::Request::try_from",
    "common::headers::Headers::parse_header_line",
    "response::Response::write_all",
    "router::HttpRoutes::<T>::handle_http_request",
]


class InfraError(Exception):
    pass


def nightly_sysroot():
    return subprocess.check_output(["rustc", "+nightly", "--print", "sysroot"], text=True).strip()


def extract(repo=REPO, release=False, keep=None):
    """Type-check `repo` with the mirdump driver on a fresh target dir; return path of the fact file
    inside a temp dir (caller removes the dir)."""
    if not os.path.exists(DRIVER):
        raise InfraError("driver not built: run MANIFEST.setup_cmd (%s missing)" % DRIVER)
    tmp = tempfile.mkdtemp(prefix="mhsa.")
    out = os.path.join(tmp, "facts.json")
    env = dict(os.environ)
    env["LD_LIBRARY_PATH"] = nightly_sysroot() + "/lib:" + env.get("LD_LIBRARY_PATH", "")
    env["MIRDUMP_OUT"] = out
    env["MIRDUMP_CRATE"] = "micro_http"
    env["RUSTFLAGS"] = "-Zmir-opt-level=0 -Awarnings"
    env["RUSTC_WORKSPACE_WRAPPER"] = DRIVER
    env["CARGO_TARGET_DIR"] = os.path.join(tmp, "target")
    env["CARGO_NET_OFFLINE"] = "true"
    env.pop("RUSTC_WRAPPER", None)
    cmd = ["cargo", "+nightly", "check", "--offline", "--lib", "--manifest-path", os.path.join(repo, "Cargo.toml")]
    if release:
        cmd.append("--release")
    p = subprocess.run(cmd, env=env, cwd=repo, stdout=subprocess.PIPE, stderr=subprocess.STDOUT, text=True)
    shutil.rmtree(os.path.join(tmp, "target"), ignore_errors=True)
    if p.returncode != 0 or not os.path.exists(out):
        tail = "\n".join(p.stdout.splitlines()[-25:])
        shutil.rmtree(tmp, ignore_errors=True)
        raise InfraError("extraction failed (crate does not type-check under nightly, or driver error):\n" + tail)
    return tmp, out


def load_facts(path):
    facts = Facts(path)
    if facts.crate != "micro_http":
        raise InfraError("fact file is for crate %r" % facts.crate)
    c = facts.counts()
    problems = []
    if c["bodies"] < FLOOR_BODIES:
        problems.append("only %d bodies extracted (floor %d)" % (c["bodies"], FLOOR_BODIES))
    if c["calls"] < FLOOR_CALLS:
        problems.append("only %d calls extracted (floor %d)" % (c["calls"], FLOOR_CALLS))
    return facts, c, problems


class Ob:
    """One obligation: a rule instance evaluated on a construct."""

    __slots__ = ("rule", "key", "ok", "msg", "loc", "witness")

    def __init__(self, rule, key, ok, msg, loc=None, witness=None):
        self.rule = rule
        self.key = key
        self.ok = ok
        self.msg = msg
        self.loc = loc
        self.witness = witness

    def fkey(self):
        return "%s|%s" % (self.rule, self.key)

    def to_json(self):
        d = {"rule": self.rule, "key": self.key, "status": "ok" if self.ok else "VIOLATED", "what": self.msg}
        if self.loc:
            d["at"] = self.loc
        if self.witness:
            d["witness"] = self.witness
        return d


class Ctx:
    def __init__(self, facts, prop, tier):
        self.facts = facts
        self.prop = prop
        self.tier = tier
        self.obs = []
        self.notes = []
        self.analysed_fns = set()
        self.rule_docs = {}

    def rule(self, rule, doc):
        self.rule_docs[rule] = doc

    def ob(self, rule, key, ok, msg, loc=None, witness=None):
        self.obs.append(Ob(rule, key, bool(ok), msg, loc, witness))
        return bool(ok)

    def fail(self, rule, key, msg, loc=None, witness=None):
        return self.ob(rule, key, False, msg, loc, witness)

    def note(self, s):
        self.notes.append(s)

    def touched(self, *fns):
        for f in fns:
            self.analysed_fns.add(f if isinstance(f, str) else f.name)

    def guarded(self, rule, key, fn):
        """Run fn(); an AnalysisError becomes a violation of `rule` (fail closed)."""
        try:
            fn()
        except AnalysisError as e:
            self.fail(rule, key + "|cannot-establish", "cannot establish: %s" % e)
        except Exception as e:  # a crash of a rule must not pass silently
            tb = traceback.format_exc().splitlines()[-6:]
            self.fail(rule, key + "|rule-crashed", "rule crashed (%s: %s) %s" % (type(e).__name__, e, " / ".join(tb)))


def positive_controls(ctx, mod, prop, tier):
    """Rules whose expected count on the real tree is zero must still fire on the fixture crate
    (engine/fixtures/poscontrol, extracted at setup): a matcher that silently stopped matching would
    otherwise pass vacuously for ever."""
    controls = getattr(mod, "POSITIVE_CONTROLS", [])
    if not controls:
        return
    fx = os.path.join(VERIF, "engine", "gen", "fixture_facts.json")
    if not os.path.exists(fx):
        ctx.fail("R00.control", "fixture-facts-missing", "engine/gen/fixture_facts.json missing: run MANIFEST.setup_cmd")
        return
    ffacts = Facts(fx)
    for rule, fname in controls:
        fctx = Ctx(ffacts, prop, tier)
        try:
            getattr(mod, fname)(fctx)
        except Exception as e:  # the fixture lacks most anchors; only the matcher's hits count
            pass
        hits = [o for o in fctx.obs if o.rule == rule and not o.ok]
        ctx.ob("R00.control", "positive-control|%s" % rule, bool(hits), "the matcher of %s fires on the fixture crate (%d hit(s): %s)" % (rule, len(hits), "; ".join(h.key for h in hits[:3])))


def known_findings():
    p = os.path.join(VERIF, "known_findings.json")
    if not os.path.exists(p):
        return {"findings": [], "fixed": []}
    with open(p) as fh:
        return json.load(fh)


def run_property(prop, tier="quick", facts_path=None, write_evidence=True, repo=REPO, quiet=False):
    t0 = time.time()
    seed = int(os.environ.get("VERIF_SEED", "0") or 0)
    mod = importlib.import_module("mhsa.rules." + prop.lower())
    tmp = None
    extra = {}
    try:
        if facts_path is None:
            tmp, facts_path = extract(repo)
        facts, counts, problems = load_facts(facts_path)
        ctx = Ctx(facts, prop, tier)
        for pr in problems:
            ctx.fail("R00.extraction", "floor", pr)
        missing = [a for a in ANCHOR_FNS if not facts.has_fn(a)]
        from . import paths as _paths
        _paths.NOT_FOLLOWED.clear()
        mod.run(ctx)
        for name in sorted(_paths.NOT_FOLLOWED):
            ctx.fail("R00.extraction", "helper-not-followed|%s" % name, "the helper %s is nested more than three new helpers deep and was not followed by the path analysis: its effect on the rules above is unknown (fail closed)" % name)
        positive_controls(ctx, mod, prop, tier)
        extra_release = None
        extra = {}
        if tier == "thorough" and repo == REPO:
            from . import thorough
            cc = thorough.text_crosscount(facts, repo)
            extra["text_crosscount"] = cc
            ctx.ob("R00.extraction", "text-crosscount", cc.get("ok", False), "JSON fact base vs rustc -Zunpretty=mir text dump: %s" % {k: v for k, v in cc.items() if k != "ok"})
            if prop in ("C10", "C12", "C18"):
                cl = thorough.clippy_cross(repo)
                extra["clippy_disallowed_methods"] = cl
                ctx.ob("R00.cross", "clippy-disallowed-methods", cl["ran"] and not cl["hits"], "independent type-resolved cross-reference (clippy::disallowed_methods, engine/clippy/clippy.toml): %s" % (cl["hits"] or "no hit"))
            st = thorough.change_selftest(prop)
            extra["mutant_selftest"] = st["mutants"]
            extra["seeded_change_selftest"] = st["seeded"]
            extra["refactoring_selftest"] = st["refactorings"]
        if tier == "thorough" and getattr(mod, "RELEASE_TOO", True) and repo == REPO:
            rtmp, rpath = extract(repo, release=True)
            try:
                rfacts, rcounts, rproblems = load_facts(rpath)
                rctx = Ctx(rfacts, prop, tier)
                mod.run(rctx)
                for o in rctx.obs:
                    if not o.ok:
                        ctx.ob(o.rule, o.key + "|release-profile", False, "[release profile] " + o.msg, o.loc, o.witness)
                extra_release = {"obligations": len(rctx.obs), "violated": sum(1 for o in rctx.obs if not o.ok), "counts": rcounts}
            finally:
                shutil.rmtree(rtmp, ignore_errors=True)
    finally:
        if tmp:
            shutil.rmtree(tmp, ignore_errors=True)

    kf = known_findings()
    known = {f["key"]: f for f in kf.get("findings", []) if f.get("property") == prop}
    viol = [o for o in ctx.obs if not o.ok]
    new = [o for o in viol if o.fkey() not in known]
    matched = [o for o in viol if o.fkey() in known]

    os.makedirs(os.path.join(VERIF, "evidence", "replay", prop), exist_ok=True)
    lines = []
    if not quiet:
        print("== %s tier=%s: %d obligations over %d functions, %d violated (%d known)" % (prop, tier, len(ctx.obs), len(ctx.analysed_fns), len(viol), len(matched)))
    seen_keys = set()
    for o in matched:
        if o.fkey() in seen_keys:
            continue
        seen_keys.add(o.fkey())
        print("KNOWN-FINDING: property=%s %s -- %s" % (prop, o.fkey(), known[o.fkey()].get("what", o.msg)))
    uniq = []
    seen_new = set()
    for o in new:
        if o.fkey() not in seen_new:
            seen_new.add(o.fkey())
            uniq.append(o)
    for i, o in enumerate(uniq):
        rp = os.path.join(VERIF, "evidence", "replay", prop, "%d.json" % i)
        if write_evidence:
            with open(rp, "w") as fh:
                json.dump({"property": prop, "rule": o.rule, "rule_doc": ctx.rule_docs.get(o.rule, ""), "key": o.fkey(), "what": o.msg, "at": o.loc, "witness": o.witness, "explain_cmd": "./check %s --explain %s" % (prop, rp)}, fh, indent=1)
        print("VIOLATION property=%s replay=%s" % (prop, rp))
        print("   rule %s at %s: %s" % (o.rule, o.loc or "-", o.msg))
        if o.witness:
            print("   witness: %s" % o.witness)
    if not quiet and tier == "thorough" and extra.get("mutant_selftest") is not None:
        st = extra["mutant_selftest"]
        print("   self-test: %d/%d registered mutants of %s reported by its rules" % (sum(1 for x in st if x["status"] == "reported"), len(st), prop))
        for x in st:
            if x["status"] != "reported":
                print("   self-test: %s %s" % (x["mutant"], x["status"]))
        sd = extra.get("seeded_change_selftest") or []
        rf = extra.get("refactoring_selftest") or []
        print("   self-test: %d/%d independently written breaking changes for %s reported; %d/%d behaviour-preserving refactorings leave it silent" % (sum(1 for x in sd if x["status"] == "reported"), len(sd), prop, sum(1 for x in rf if x["status"] == "silent"), len(rf)))
        for x in sd:
            if x["status"] != "reported":
                print("   self-test: seeded %s %s" % (x["change"], x["status"]))
        for x in rf:
            if x["status"] != "silent":
                print("   self-test: refactoring %s %s %s" % (x["refactoring"], x["status"], x["rules"][:3]))
    wall = time.time() - t0
    if write_evidence:
        ev = evidence_json(prop, tier, seed, ctx, counts, viol, new, matched, wall, mod, extra_release)
        if extra:
            ev["coverage"].update(extra)
            st = extra.get("mutant_selftest") or []
            ev["coverage"]["mutants_tried"] = len(st)
            ev["coverage"]["mutants_reported"] = sum(1 for x in st if x["status"] == "reported")
            sd = extra.get("seeded_change_selftest") or []
            rf = extra.get("refactoring_selftest") or []
            ev["coverage"]["seeded_changes_tried"] = len(sd)
            ev["coverage"]["seeded_changes_reported"] = sum(1 for x in sd if x["status"] == "reported")
            ev["coverage"]["refactorings_tried"] = len(rf)
            ev["coverage"]["refactorings_silent"] = sum(1 for x in rf if x["status"] == "silent")
        with open(os.path.join(VERIF, "evidence", "%s.json" % prop), "w") as fh:
            json.dump(ev, fh, indent=1)
    return 1 if new else 0, ctx


def evidence_json(prop, tier, seed, ctx, counts, viol, new, matched, wall, mod, extra_release):
    by_rule = {}
    for o in ctx.obs:
        r = by_rule.setdefault(o.rule, {"obligations": 0, "discharged": 0})
        r["obligations"] += 1
        if o.ok:
            r["discharged"] += 1
    for r, doc in ctx.rule_docs.items():
        by_rule.setdefault(r, {"obligations": 0, "discharged": 0})["rule"] = doc
    samples = [o.to_json() for o in ctx.obs[:400]]
    cov = {
        "explanation": getattr(mod, "EXPLANATION", ""),
        "obligations": len(ctx.obs),
        "discharged": sum(1 for o in ctx.obs if o.ok),
        "checker_cmd": "./check %s --tier %s" % (prop, tier),
        "trusted_base": getattr(mod, "TRUSTED", []) + ["rustc nightly front end (type check, MIR construction, const-eval, instance resolution)", "engine/mirdump extractor and engine/mhsa rule engine (mitigated by floors, fixtures, seeded changes)"],
        "rules": by_rule,
        "functions_analysed": sorted(ctx.analysed_fns),
        "fact_base": counts,
        "samples": samples,
        "notes": ctx.notes,
        "known_findings_matched": sorted({o.fkey() for o in matched}),
        "new_violations": [o.to_json() for o in new],
        "exhaustive": False,
        "not_decided": getattr(mod, "NOT_DECIDED", ""),
    }
    if extra_release is not None:
        cov["release_profile"] = extra_release
    return {
        "property_id": prop,
        "tier": tier,
        "seed": seed,
        "level": "other",
        "coverage": cov,
        "assumptions": getattr(mod, "ASSUMPTIONS", []),
        "wall_s": round(wall, 3),
        "violations": len(new),
    }


def main(argv):
    import argparse

    ap = argparse.ArgumentParser(prog="check")
    ap.add_argument("prop")
    ap.add_argument("--tier", default=os.environ.get("VERIF_TIER", "quick"), choices=["quick", "thorough"])
    ap.add_argument("--facts", default=None, help="use an existing fact file instead of extracting /repo (debugging)")
    ap.add_argument("--explain", default=None)
    ap.add_argument("--repo", default=REPO)
    ap.add_argument("--no-evidence", action="store_true")
    a = ap.parse_args(argv)
    try:
        if a.explain:
            with open(a.explain) as fh:
                r = json.load(fh)
            print("replay of %s: re-deriving on the current tree" % r["key"])
            rc, ctx = run_property(a.prop, a.tier, a.facts, write_evidence=False, repo=a.repo, quiet=True)
            hit = [o for o in ctx.obs if o.fkey() == r["key"]]
            for o in hit:
                print(json.dumps(o.to_json(), indent=1))
            if not [o for o in hit if not o.ok]:
                print("not reproduced on the current tree")
            return 0
        rc, _ = run_property(a.prop, a.tier, a.facts, write_evidence=not a.no_evidence and a.repo == REPO, repo=a.repo)
        return rc
    except InfraError as e:
        print("ERROR %s" % e)
        return 2


if __name__ == "__main__":
    sys.exit(main(sys.argv[1:]))
