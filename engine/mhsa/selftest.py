"""Mutant self-test: apply registered source edits to a scratch copy of the *current* /repo,
re-extract, and record which rules report them.  Results never change a check's exit status."""
import json
import os
import shutil
import subprocess
import sys
import tempfile

from . import runner

MUTANT_FILE = os.path.join(runner.VERIF, "engine", "mutants", "mutants.json")


def load_mutants(benign=False):
    with open(MUTANT_FILE.replace("mutants.json", "benign.json") if benign else MUTANT_FILE) as fh:
        return json.load(fh)


def scratch_copy():
    tmp = tempfile.mkdtemp(prefix="mhsa.mut.")
    dst = os.path.join(tmp, "repo")
    subprocess.check_call(["rsync", "-a", "--exclude", "target", "--exclude", ".git", runner.REPO + "/", dst + "/"])
    return tmp, dst


def apply_edit(root, m):
    """m['edits'] = [{file, old, new, count?}]; returns None or a reason it does not apply.
    m['base'] (optional) = id of a stored behaviour-preserving refactoring (benign_seeded/<id>/patch.diff) applied first:
    the edit then breaks the property in code of *that* shape -- a test of the rules on the shapes they were taught to accept."""
    if m.get("base"):
        patch = os.path.join(runner.VERIF, "benign_seeded", m["base"], "patch.diff")
        r = subprocess.run(["patch", "-p1", "-s", "-i", patch], cwd=root, stdout=subprocess.PIPE, stderr=subprocess.STDOUT, text=True)
        if r.returncode != 0:
            return "base refactoring %s does not apply: %s" % (m["base"], r.stdout[-200:])
    for e in m["edits"]:
        p = os.path.join(root, e["file"])
        try:
            s = open(p).read()
        except OSError:
            return "file %s missing" % e["file"]
        n = s.count(e["old"])
        if n == 0:
            return "anchor text not found in %s" % e["file"]
        if n > 1 and not e.get("all"):
            idx = e.get("occurrence")
            if idx is None:
                return "anchor text ambiguous (%d times) in %s" % (n, e["file"])
            pos = -1
            for _ in range(idx + 1):
                pos = s.find(e["old"], pos + 1)
            s = s[:pos] + e["new"] + s[pos + len(e["old"]):]
        else:
            s = s.replace(e["old"], e["new"])
        open(p, "w").write(s)
    return None


def run_mutant(m, props=None):
    tmp, root = scratch_copy()
    try:
        why = apply_edit(root, m)
        if why:
            return {"id": m["id"], "status": "does-not-apply", "why": why}
        try:
            etmp, facts = runner.extract(root)
        except runner.InfraError as e:
            return {"id": m["id"], "status": "does-not-compile", "why": str(e)[-400:]}
        try:
            res = {}
            for prop in props or m["properties"]:
                if not os.path.exists(os.path.join(os.path.dirname(__file__), "rules", prop.lower() + ".py")):
                    continue
                rc, ctx = runner.run_property(prop, "quick", facts, write_evidence=False, repo=root, quiet=True)
                res[prop] = sorted({o.rule for o in ctx.obs if not o.ok and o.fkey() not in known_keys(prop)})
            return {"id": m["id"], "status": "ran", "fired": res}
        finally:
            shutil.rmtree(etmp, ignore_errors=True)
    finally:
        shutil.rmtree(tmp, ignore_errors=True)


_KNOWN = {}


def known_keys(prop):
    if prop not in _KNOWN:
        kf = runner.known_findings()
        _KNOWN[prop] = {f["key"] for f in kf.get("findings", []) if f.get("property") == prop}
    return _KNOWN[prop]


def main(argv):
    import contextlib, io
    sel = argv[0] if argv else None
    allp = "--all-props" in argv
    if sel == "benign":
        return main_benign(argv[1:])
    if sel == "benign-seeded":
        return main_benign_seeded(argv[1:])
    ms = [m for m in load_mutants() if sel is None or sel.startswith("--") or m["id"].startswith(sel) or sel in m["properties"]]
    ok = 0
    for m in ms:
        props = None
        if allp:
            props = ["C%02d" % i for i in range(1, 19)]
        buf = io.StringIO()
        with contextlib.redirect_stdout(buf):
            r = run_mutant(m, props)
        if r["status"] != "ran":
            print("%-34s %s: %s" % (m["id"], r["status"], r.get("why", "")[:200]))
            continue
        want = set(m.get("expect_rules", []))
        fired = {x for v in r["fired"].values() for x in v}
        hit = bool(fired & want) if want else bool(fired)
        ok += hit
        extra = {p: v for p, v in r["fired"].items() if v}
        print("%-34s %s fired=%s want=%s" % (m["id"], "CAUGHT" if hit else "MISSED", extra, sorted(want)))
    print("%d/%d caught" % (ok, len(ms)))


BENIGN_DIR = os.path.join(runner.VERIF, "benign_seeded")


def run_patch_dir(kind, sid, props=None):
    """kind = 'seeded' | 'benign_seeded'."""
    global BENIGN_DIR
    saved = BENIGN_DIR
    BENIGN_DIR = os.path.join(runner.VERIF, kind)
    try:
        return run_benign_patch(sid, props)
    finally:
        BENIGN_DIR = saved


def run_benign_patch(sid, props=None):
    """Apply benign_seeded/<sid>/patch.diff (a behaviour-preserving refactoring written by someone who had not
    seen the checker) to a scratch copy of the current tree; return the rules that report it (none expected)."""
    tmp, root = scratch_copy()
    try:
        subprocess.check_call(["git", "init", "-q"], cwd=root)
        r = subprocess.run(["git", "apply", os.path.join(BENIGN_DIR, sid, "patch.diff")], cwd=root, stdout=subprocess.PIPE, stderr=subprocess.STDOUT, text=True)
        if r.returncode != 0:
            return {"id": sid, "status": "does-not-apply", "why": r.stdout[-200:]}
        try:
            etmp, facts = runner.extract(root)
        except runner.InfraError as e:
            return {"id": sid, "status": "does-not-compile", "why": str(e)[-400:]}
        try:
            res = {}
            for prop in props or ["C%02d" % i for i in range(1, 19)]:
                rc, ctx = runner.run_property(prop, "quick", facts, write_evidence=False, repo=root, quiet=True)
                res[prop] = sorted({"%s: %s" % (o.rule, o.key[:80]) for o in ctx.obs if not o.ok and o.fkey() not in known_keys(prop)})
            return {"id": sid, "status": "ran", "fired": res}
        finally:
            shutil.rmtree(etmp, ignore_errors=True)
    finally:
        shutil.rmtree(tmp, ignore_errors=True)


def _benign_job(args):
    import contextlib, io
    sid, props = args
    with contextlib.redirect_stdout(io.StringIO()):
        return run_benign_patch(sid, props)


def benign_seeded_ids():
    return sorted(d for d in os.listdir(BENIGN_DIR) if os.path.exists(os.path.join(BENIGN_DIR, d, "patch.diff"))) if os.path.isdir(BENIGN_DIR) else []


def main_benign_seeded(argv):
    from concurrent.futures import ProcessPoolExecutor
    ids = [i for i in benign_seeded_ids() if not argv or any(a in i for a in argv)]
    bad = 0
    with ProcessPoolExecutor(8) as ex:
        for r in ex.map(_benign_job, [(i, None) for i in ids]):
            if r["status"] != "ran":
                print("%-20s %s: %s" % (r["id"], r["status"], r.get("why", "")))
                bad += 1
                continue
            fired = {p: v for p, v in r["fired"].items() if v}
            print("%-20s %s %s" % (r["id"], "FALSE-ALARM" if fired else "silent", json.dumps(fired)[:300] if fired else ""))
            bad += 1 if fired else 0
    print("%d/%d independent refactorings leave every check silent" % (len(ids) - bad, len(ids)))
    return 1 if bad else 0


def main_benign(argv):
    """Behaviour-preserving refactorings: every check must stay silent; the edit must compile and pass the tests."""
    import contextlib, io
    bad = 0
    argv = [a for a in argv if not a.startswith("--")]
    ms = [m for m in load_mutants(True) if not argv or any(m["id"].startswith(a) for a in argv)]
    for m in ms:
        props = ["C%02d" % i for i in range(1, 19)]
        with contextlib.redirect_stdout(io.StringIO()):
            r = run_mutant(m, props)
        if r["status"] != "ran":
            print("%-40s %s: %s" % (m["id"], r["status"], r.get("why", "")[-300:]))
            bad += 1
            continue
        fired = {p: v for p, v in r["fired"].items() if v}
        tests = ""
        if "--tests" in sys.argv:
            tmp, root = scratch_copy()
            apply_edit(root, m)
            p = subprocess.run("cargo test --offline --lib 2>&1 | grep -E '^test result' | head -1", cwd=root, shell=True, stdout=subprocess.PIPE, text=True)
            tests = p.stdout.strip()
            shutil.rmtree(tmp, ignore_errors=True)
        print("%-40s %s %s %s" % (m["id"], "FALSE-ALARM" if fired else "silent", fired or "", tests))
        bad += 1 if fired else 0
    print("%d/%d benign refactorings leave every check silent" % (len(ms) - bad, len(ms)))


if __name__ == "__main__":
    main(sys.argv[1:])
