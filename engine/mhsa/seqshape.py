"""Ordered output of a serializer: what is handed to Write::write_all on the sink, per path."""
from .core import AnalysisError, subterms
from .paths import PathEnum
from .rules.util import is_call, look, norm, last_seg, truth

WRITE_ALL = "std::io::Write::write_all"


def is_try_cond(t):
    return t[0] == "discr" and t[1][0] == "call" and t[1][1] == "std::ops::Try::branch"


def success_leaf(lf):
    """A path on which no `?` took its Break edge."""
    for (t, c, _bb) in lf.conds:
        if is_try_cond(t) and c != ("eq", 0):
            return False
    return True


def derives_from(t, root):
    return any(s == root for s in subterms(t))


def pieces_of(lf, facts, sink_root, folds=None, start_after_bb=None):
    """Sequence of pieces written to the sink along leaf lf.
    piece = ('C', bytes) | ('T', term) | ('CALL', path, args) ; adjacent constants are joined."""
    out = []
    started = start_after_bb is None
    seen_start = 0
    for e in lf.events:
        if not started:
            if e[1] == start_after_bb:
                seen_start += 1
                started = True
            else:
                continue
        if e[0] != "call":
            continue
        path, ct = e[3], e[4]
        args = ct[2]
        if path == WRITE_ALL and derives_from(args[0], sink_root):
            v = look(args[1])
            if folds and v[0] == "call" and v[1] in folds and len(v[2]) == 1:
                a = look(v[2][0])
                if a[0] == "agg" and a[2] in folds[v[1]]:
                    v = ("const", folds[v[1]][a[2]])
                elif a[0] == "const" and isinstance(a[1], bytes) and len(a[1]) == 1:
                    # promoted constant of a fieldless enum: one tag byte = discriminant
                    adt = v[1].rsplit("::", 1)[0]
                    var = facts.variant_discr(adt).get(a[1][0])
                    if var in folds[v[1]]:
                        v = ("const", folds[v[1]][var])
            if v[0] == "const" and isinstance(v[1], (bytes, str)):
                b = v[1] if isinstance(v[1], bytes) else v[1].encode()
                if out and out[-1][0] == "C":
                    out[-1] = ("C", out[-1][1] + b)
                else:
                    out.append(("C", b))
            elif v[0] == "array" and all(x[0] == "const" and isinstance(x[1], int) for x in v[1]):
                b = bytes(x[1] for x in v[1])
                if out and out[-1][0] == "C":
                    out[-1] = ("C", out[-1][1] + b)
                else:
                    out.append(("C", b))
            else:
                out.append(("T", norm(v)))
        elif path in facts.fns and any(derives_from(a, sink_root) for a in args):
            out.append(("CALL", path, tuple(norm(a) for a in args)))
        elif path.startswith("std::io::Write::") and derives_from(args[0], sink_root):
            out.append(("OTHERWRITE", path))
    return out
