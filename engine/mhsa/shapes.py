"""Constructor-shape evaluation of terms: which enum variants can a value be?

A shape is 'T' (anything) or a tuple (VariantName, child_shape, ...).  Children are given for the
payload fields of the variant in order; for brevity only as deep as the constructors are visible.
"""
from .core import Terms, TRY_BRANCH, FROM_RESIDUAL

TOP = "T"
MAXSET = 64


class Shapes:
    def __init__(self, facts):
        self.facts = facts
        self._ret = {}
        self._terms = {}
        self._active = set()

    def terms(self, fn):
        t = self._terms.get(fn.name)
        if t is None:
            t = Terms(fn)
            self._terms[fn.name] = t
        return t

    def is_ctor(self, path):
        if not path or "::" not in path:
            return None
        adt, _, var = path.rpartition("::")
        a = self.facts.adts.get(adt)
        if a and any(v["name"] == var for v in a["variants"]):
            return var
        return None

    def returns(self, fn):
        """Union of shapes over all assignments to _0 of fn, with per-site detail:
        list of (bb, set(shapes))."""
        if fn.name in self._ret:
            return self._ret[fn.name]
        if fn.name in self._active:
            return [(None, {TOP})]
        self._active.add(fn.name)
        out = []
        T = self.terms(fn)
        defs = fn.defs.get(0, [])
        if not defs or fn.partial_defs.get(0):
            out = [(None, {TOP})]
        for d in defs:
            if d[0] == "stmt":
                term = T.rvalue(d[3])
            else:
                term = T.call_term(d[1], d[2])
            out.append((d[1], self.eval(term, fn)))
        self._active.discard(fn.name)
        self._ret[fn.name] = out
        return out

    def return_set(self, fn):
        s = set()
        for _, x in self.returns(fn):
            s |= x
        return s

    def eval(self, t, fn):
        k = t[0]
        if k == "phi":
            s = set()
            for x in t[1]:
                s |= self.eval(x, fn)
            return self._cap(s)
        if k == "const":
            v = t[1]
            if v is True:
                return {("true",)}
            if v is False:
                return {("false",)}
            return {TOP}
        if k == "agg":
            adt, variant, ops = t[1], t[2], t[3]
            a = self.facts.adts.get(adt)
            isenum = (a is not None and a["kind"] == "enum") or adt.startswith("std::result::Result") or adt.startswith("std::option::Option") or adt.startswith("std::ops::ControlFlow")
            if not isenum:
                return {TOP}
            kids = []
            for o in ops:
                ks = self.eval(o, fn)
                kids.append(ks)
            combos = [()]
            for ks in kids:
                if len(ks) * len(combos) > 16:
                    combos = [c + (TOP,) for c in combos]
                else:
                    combos = [c + (x,) for c in combos for x in sorted(ks, key=repr)]
            return {(variant,) + c for c in combos}
        if k == "payload":
            s = set()
            for x in self.eval(t[1], fn):
                if x == TOP:
                    s.add(TOP)
                elif x[0] in ("Ok", "Some", "Continue") and len(x) > 1:
                    s.add(x[1])
                elif x[0] in ("Ok", "Some", "Continue"):
                    s.add(TOP)
            return s or {TOP}
        if k == "residual":
            s = set()
            for x in self.eval(t[1], fn):
                if x == TOP:
                    s.add(("Err", TOP))
                    s.add(("None",))
                elif x[0] in ("Err", "None", "Break"):
                    s.add(x)
            return s
        if k == "call":
            return self._cap(self._call(t, fn))
        if k == "field" and t[1][0] == "downcast":
            # payload field of a matched variant: (X as V).i
            try:
                idx = int(t[3])
            except ValueError:
                return {TOP}
            s = set()
            for x in self.eval(t[1][1], fn):
                if x == TOP:
                    s.add(TOP)
                elif x[0] == t[1][2]:
                    s.add(x[1 + idx] if len(x) > 1 + idx else TOP)
            return s or {TOP}
        if k in ("ref", "deref"):
            return self.eval(t[1], fn)
        return {TOP}

    def _cap(self, s):
        if len(s) > MAXSET:
            return {TOP}
        return s

    def _errs(self, s):
        out = set()
        for x in s:
            if x == TOP:
                out.add(("Err", TOP))
            elif x[0] == "Err":
                out.add(x)
        return out

    def _oks(self, s):
        out = set()
        for x in s:
            if x == TOP:
                out.add(("Ok", TOP))
            elif x[0] == "Ok":
                out.add(x)
        return out

    def _fnval_returns(self, f, fn, argshape=None):
        """Shapes returned by calling function value term f."""
        if f[0] == "fnconst":
            var = self.is_ctor(f[1])
            if var:
                return {(var, argshape if argshape is not None else TOP)}
            g = self.facts.fns.get(f[1])
            if g:
                return self.return_set(g)
            return {TOP}
        if f[0] == "closure":
            g = self.facts.fns.get(f[1])
            if g:
                rs = self.return_set(g)
                if TOP in rs and argshape is not None:
                    # a closure that hands its argument back (`|e| { ..; e }`): the value keeps its shape
                    from .paths import PathEnum
                    try:
                        lv = [l for l in PathEnum(g, self.facts).run() if l.kind == "return"]
                    except Exception:
                        lv = []
                    if lv and all(l.ret() == ("arg", 2) for l in lv):
                        return (set(rs) - {TOP}) | {argshape}
                return rs
        return {TOP}

    def _call(self, t, fn):
        path, args = t[1], t[2]
        g = self.facts.fns.get(path)
        if g is not None:
            return self.return_set(g)
        if path == FROM_RESIDUAL:
            s = set()
            for x in self.eval(args[0], fn):
                if x == TOP:
                    s.add(("Err", TOP))
                elif x[0] == "Err":
                    s.add(x)
                elif x[0] == "None":
                    s.add(x)
            return s
        if path == TRY_BRANCH:
            s = set()
            for x in self.eval(args[0], fn):
                if x == TOP:
                    s.add(TOP)
                elif x[0] in ("Ok", "Some"):
                    s.add(("Continue",) + x[1:])
                else:
                    s.add(("Break", x))
            return s
        if path.endswith("Result::<T, E>::map_err"):
            base = self.eval(args[0], fn)
            s = set(self._oks(base))
            for e in self._errs(base):
                pay = e[1] if len(e) > 1 else TOP
                for r in self._fnval_returns(args[1], fn, pay):
                    s.add(("Err", r))
            return s
        if path.endswith("Option::<T>::ok_or"):
            s = {("Ok", TOP)}
            for e in self.eval(args[1], fn):
                s.add(("Err", e))
            return s
        if path.endswith("Result::<T, E>::and_then"):
            base = self.eval(args[0], fn)
            s = set(self._errs(base))
            s |= self._fnval_returns(args[1], fn)
            return s
        if path.endswith("Result::<T, E>::map"):
            base = self.eval(args[0], fn)
            s = set(self._errs(base))
            for r in self._fnval_returns(args[1], fn):
                s.add(("Ok", r))
            return s
        return {TOP}


def shape_s(s):
    if s == TOP:
        return "_"
    if len(s) == 1:
        return s[0]
    return "%s(%s)" % (s[0], ", ".join(shape_s(x) for x in s[1:]))


def shape_matches(s, pat):
    """pat is a shape where 'T' matches anything; a concrete s matches if constructors agree.
    A TOP in s matches any pattern (may-analysis: it *could* be that)."""
    if pat == TOP or s == TOP:
        return True
    if s[0] != pat[0]:
        return False
    for a, b in zip(s[1:], pat[1:]):
        if not shape_matches(a, b):
            return False
    return True
