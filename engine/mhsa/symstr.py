"""Symbolic strings: the content of a &str/String-valued term as a sequence of pieces
('lit', text) | ('sym', term), through format!, concat/join, String::from/to_string/clone, `+`,
and in-place push/push_str on a local (recovered from the path's events)."""
from .core import AnalysisError
from .fmtdecode import format_pieces
from .rules.util import is_call, look, norm, last_seg

IDENTITY = ("to_string", "to_owned", "from", "into", "clone", "as_str", "deref", "as_ref", "borrow", "as_mut_str", "into_boxed_str", "into_string", "to_str_lossy")


def _strip_mut(t):
    t = look(t)
    n = 0
    while t[0] == "mut":
        t = look(t[1])
        n += 1
    return t, n


def join(ps):
    out = []
    for p in ps:
        if p[0] == "lit" and not p[1]:
            continue
        if p[0] == "lit" and out and out[-1][0] == "lit":
            out[-1] = ("lit", out[-1][1] + p[1])
        else:
            out.append(p)
    return out


def symstr(t, lf=None, depth=0):
    """Pieces of the string denoted by term t on leaf lf (lf is needed only for strings built by push/push_str)."""
    if depth > 12:
        return [("sym", norm(look(t)))]
    base, nmut = _strip_mut(t)
    if nmut:
        # a local String changed in place: its initial content, then what the mutators appended, in path order
        if lf is None:
            return [("sym", norm(look(t)))]
        out = list(symstr(base, lf, depth + 1))
        found = 0
        for e in lf.events:
            if e[0] != "call" or not e[4][2]:
                continue
            tgt, _n = _strip_mut(e[4][2][0])
            if norm(tgt) != norm(base):
                continue
            a0 = e[4][2][0]
            if not (a0[0] == "ref" and a0[2]):
                continue     # not a mutable borrow
            seg = last_seg(e[3])
            if seg == "push_str" and len(e[4][2]) == 2:
                out += symstr(e[4][2][1], lf, depth + 1)
            elif seg == "push" and len(e[4][2]) == 2:
                c = look(e[4][2][1])
                if c[0] == "const" and isinstance(c[1], int):
                    out.append(("lit", chr(c[1])))
                elif c[0] == "const" and isinstance(c[1], str):
                    out.append(("lit", c[1]))
                else:
                    out.append(("sym", norm(c)))
            elif seg in ("add_assign", "extend", "write_str") and len(e[4][2]) == 2:
                out += symstr(e[4][2][1], lf, depth + 1)
            else:
                raise AnalysisError("string changed in place by %s" % seg)
            found += 1
        if found != nmut:
            raise AnalysisError("string changed in place %d time(s), %d recognised" % (nmut, found))
        return join(out)
    t = base
    if t[0] == "const" and isinstance(t[1], (str, bytes)):
        return [("lit", t[1] if isinstance(t[1], str) else t[1].decode("utf-8", "replace"))]
    if t[0] == "call":
        seg = last_seg(t[1])
        if seg in ("format", "must_use") or t[1].startswith("std::fmt::Arguments"):
            try:
                ps = format_pieces(t)
            except AnalysisError:
                return [("sym", norm(t))]
            out = []
            for p in ps:
                if p[0] == "lit":
                    out.append(p)
                elif p[2] == "new_display":
                    out += symstr(p[1], lf, depth + 1)     # Display of a str/String is its content
                else:
                    out.append(("sym", ("fmt", p[2], norm(look(p[1])))))
            return join(out)
        if seg == "concat" and len(t[2]) == 1:
            arr, _n = _strip_mut(t[2][0])
            if arr[0] == "array":
                out = []
                for x in arr[1]:
                    out += symstr(x, lf, depth + 1)
                return join(out)
        if seg == "join" and len(t[2]) == 2:
            arr, _n = _strip_mut(t[2][0])
            if arr[0] == "array":
                sep = symstr(t[2][1], lf, depth + 1)
                out = []
                for i, x in enumerate(arr[1]):
                    if i:
                        out += sep
                    out += symstr(x, lf, depth + 1)
                return join(out)
        if seg == "add" and len(t[2]) == 2 and ("String" in t[1] or "ops::Add" in t[1]):
            return join(symstr(t[2][0], lf, depth + 1) + symstr(t[2][1], lf, depth + 1))
        if seg == "new" and "String" in t[1] and not t[2]:
            return []
        if seg == "with_capacity" and "String" in t[1]:
            return []
        if seg in IDENTITY and len(t[2]) == 1 and t[1].split("::")[0] in ("std", "core", "alloc"):
            return symstr(t[2][0], lf, depth + 1)
    return [("sym", norm(t))]
