"""Tables read off MIR: enum -> constant maps, accepted languages of matchers."""
from .core import AnalysisError, subterms
from .paths import PathEnum


def strip_refs(t):
    while t[0] in ("ref", "deref"):
        t = t[1]
    return t


def enum_const_table(facts, fn, adt):
    """For `fn f(self) -> const` that switches on the discriminant of its argument: the map
    variant name -> constant returned.  Fails closed on any other shape."""
    discr = facts.variant_discr(adt)
    leaves = PathEnum(fn, facts).run()
    rets = [lf for lf in leaves if lf.kind == "return"]
    if len(rets) == 1 and not rets[0].conds:
        # `fn raw(self) -> &[u8] { self.to_str().as_bytes() }`: the table of the function it forwards to
        r = rets[0].ret()
        while r[0] in ("ref", "deref") or (r[0] == "call" and r[1].split("::")[0] in ("std", "core", "alloc") and r[1].rsplit("::", 1)[-1] in ("as_bytes", "as_str", "as_ref", "deref") and len(r[2]) == 1):
            r = r[1] if r[0] in ("ref", "deref") else r[2][0]
        if r[0] == "call" and r[1] in facts.fns and r[1] != fn.name and len(r[2]) == 1 and strip_refs(r[2][0]) == ("arg", 1):
            return enum_const_table(facts, facts.fns[r[1]], adt)
    table = {}
    for lf in leaves:
        if lf.kind != "return":
            continue
        var = None
        for (t, c, _bb) in lf.conds:
            if t[0] == "discr" and strip_refs(t[1]) == ("arg", 1):
                if c[0] != "eq":
                    raise AnalysisError("%s: wildcard arm in discriminant switch" % fn.name)
                var = discr.get(c[1])
        if var is None:
            raise AnalysisError("%s: return path not selected by the discriminant of self" % fn.name)
        r = strip_refs(lf.ret())
        if r[0] != "const":
            raise AnalysisError("%s: arm %s does not return a constant (%r)" % (fn.name, var, r[0]))
        if var in table and table[var] != r[1]:
            raise AnalysisError("%s: arm %s returns two different constants" % (fn.name, var))
        table[var] = r[1]
    missing = [v for v in discr.values() if v not in table]
    if missing:
        raise AnalysisError("%s: no constant for variant(s) %s" % (fn.name, missing))
    return table


def result_variant(t):
    """('Ok', payload_term) / ('Err', payload_term) for a return term that is a literal Result."""
    t = strip_refs(t)
    if t[0] == "agg" and t[2] in ("Ok", "Err"):
        return t[2], (t[3][0] if t[3] else None)
    return None, t


def variant_of(t):
    t = strip_refs(t)
    if t is not None and t[0] == "agg":
        return t[2]
    return None


def byte_matcher_language(facts, fn):
    """Accepted language of a loop-free matcher over the bytes of its first argument.
    Returns (accept: {bytes: variant}, inexact: [descriptions], subject_ok: bool, calls: [paths])."""
    leaves = PathEnum(fn, facts).run()
    accept = {}
    inexact = []
    for lf in leaves:
        if lf.kind == "loop":
            raise AnalysisError("%s is not loop-free" % fn.name)
        if lf.kind != "return":
            continue
        kind, payload = result_variant(lf.ret())
        if kind is None:
            raise AnalysisError("%s: a return is not a literal Ok/Err (%s)" % (fn.name, lf.ret()[0]))
        if kind != "Ok":
            continue
        var = variant_of(payload)
        length = None
        known = {}
        whole = None
        foreign = []
        prefix = b""

        def subject(x):
            """x is the input, or what is left of it after a strip_prefix(CONST) that succeeded on this path."""
            x = strip_refs(x)
            if x == ("arg", 1):
                return True
            if x[0] == "field" and x[3] == "0" and x[1][0] == "downcast" and x[1][2] == "Some":
                sp = strip_refs(x[1][1])
                if sp[0] == "call" and sp[1].endswith("::strip_prefix") and len(sp[2]) == 2 and strip_refs(sp[2][0]) == ("arg", 1) and strip_refs(sp[2][1])[0] == "const":
                    return True
            return False

        for (t, c, _bb) in lf.conds:
            if t[0] == "discr":
                sp = strip_refs(t[1])
                if sp[0] == "call" and sp[1].endswith("::strip_prefix") and len(sp[2]) == 2 and strip_refs(sp[2][0]) == ("arg", 1) and strip_refs(sp[2][1])[0] == "const" and c == ("eq", 1):
                    pv = strip_refs(sp[2][1])[1]
                    prefix = pv if isinstance(pv, bytes) else str(pv).encode()
                    continue
            if t[0] == "bin" and t[1] == "Eq":
                a, b = t[2], t[3]
                if a[0] == "un" and a[1] == "PtrMetadata" and subject(a[2]) and b[0] == "const":
                    truth = (c == ("ne", (0,))) or (c[0] == "eq" and c[1] != 0)
                    if truth:
                        length = b[1]
                    continue
                foreign.append(t)
            elif t[0] == "constidx" and subject(t[1]):
                if c[0] == "eq":
                    if t[3]:
                        foreign.append(t)
                    else:
                        known[t[2]] = c[1]
            elif t[0] == "call" and t[1].endswith("PartialEq::eq"):
                x, y = t[2]
                if subject(x) and strip_refs(y)[0] == "const":
                    truth = (c == ("ne", (0,))) or (c[0] == "eq" and c[1] != 0)
                    if truth:
                        whole = strip_refs(y)[1]
                else:
                    foreign.append(t)
            else:
                foreign.append(t)
        if foreign:
            inexact.append("%s accepted under a condition that is not a direct test of the input bytes: %s" % (var, foreign[0][:2]))
            continue
        uses_rest = any("strip_prefix" in repr(t) for (t, c, _bb) in lf.conds if not (t[0] == "discr"))
        if prefix and not uses_rest and (whole is not None or length is not None):
            inexact.append("%s accepted after strip_prefix but the tests are on the whole input" % var)
            continue
        if not prefix and uses_rest:
            inexact.append("%s accepted on a path that looks at the stripped input without the prefix test having succeeded" % var)
            continue
        if whole is not None:
            w = whole if isinstance(whole, bytes) else str(whole).encode()
            accept[prefix + w] = var
            continue
        if length is None or any(i not in known for i in range(length)):
            inexact.append("%s accepted for a set of inputs that is not one exact string (len=%s, fixed bytes=%s)" % (var, length, sorted(known)))
            continue
        accept[prefix + bytes(known[i] for i in range(length))] = var
    return accept, inexact


def string_matcher(facts, fn, folds=None):
    """For a matcher that compares one derived string against constants with PartialEq::eq:
    returns (table {const: variant-or-shape}, subject term, list of leaves).
    folds: {path of a table function: {variant: constant}} -- `X::as_str(Variant)` on the constant side is its table entry."""
    leaves = PathEnum(fn, facts, lower=True).run()

    def const_side(y):
        y = strip_refs(y)
        if y[0] == "const":
            return y[1]
        if folds and y[0] == "call" and y[1] in folds and len(y[2]) == 1:
            a = strip_refs(y[2][0])
            if a[0] == "agg" and a[2] in folds[y[1]]:
                return folds[y[1]][a[2]]
        return None

    table = {}
    subjects = []
    other_ok = []
    for lf in leaves:
        if lf.kind != "return":
            continue
        kind, payload = result_variant(lf.ret())
        if kind != "Ok":
            continue
        hit = None
        for (t, c, _bb) in lf.conds:
            if t[0] == "call" and t[1].endswith("PartialEq::eq"):
                truth = (c == ("ne", (0,))) or (c[0] == "eq" and c[1] != 0)
                x, y = t[2]
                if truth and const_side(y) is not None:
                    hit = (strip_refs(x), const_side(y))
                elif truth and const_side(x) is not None:
                    hit = (strip_refs(y), const_side(x))
        if hit is None:
            other_ok.append(lf)
            continue
        subj, const = hit
        if subj not in subjects:
            subjects.append(subj)
        table[const] = variant_of(payload) or payload
    return table, subjects, other_ok


def calls_in(t):
    return [s[1] for s in subterms(t) if isinstance(s, tuple) and s and s[0] in ("call",)] + [s[2] for s in subterms(t) if isinstance(s, tuple) and s and s[0] == "mut"]


def eval_usize(facts, t, depth=0):
    """Value of a usize expression built from integer constants, `+`, `.len()` of byte/str constants and of
    enum-to-constant tables (`Method::Get.raw().len()`), and calls of argument-less local functions made of the
    same.  None if anything else occurs."""
    from .rules.util import look, last_seg
    t = look(t)
    if depth > 6:
        return None
    if t[0] == "const":
        return t[1] if isinstance(t[1], int) and not isinstance(t[1], bool) else None
    if t[0] == "field" and t[2] == "tuple" and t[3] == "0":
        u = look(t[1])
        if u[0] == "bin" and u[1] in ("AddWithOverflow", "MulWithOverflow"):
            t = ("bin", u[1][:3], u[2], u[3])
    if t[0] == "bin" and t[1] in ("Add", "Mul", "AddUnchecked"):
        a, b = eval_usize(facts, t[2], depth + 1), eval_usize(facts, t[3], depth + 1)
        if a is None or b is None:
            return None
        return a * b if t[1] == "Mul" else a + b
    if t[0] == "cast":
        return eval_usize(facts, t[1], depth + 1)
    if t[0] == "call" and last_seg(t[1]) == "len" and len(t[2]) == 1:
        v = eval_bytes(facts, t[2][0], depth + 1)
        return None if v is None else len(v)
    if t[0] == "call" and t[1] in facts.fns and not t[2]:
        rets = [lf for lf in PathEnum(facts.fns[t[1]], facts).run()]
        if len(rets) == 1 and rets[0].kind == "return" and not rets[0].conds:
            return eval_usize(facts, rets[0].ret(), depth + 1)
    return None


def eval_bytes(facts, t, depth=0):
    from .rules.util import look
    t = look(t)
    if t[0] == "const":
        v = t[1]
        if isinstance(v, str):
            return v.encode()
        return v if isinstance(v, bytes) else None
    if t[0] == "call" and t[1] in facts.fns and len(t[2]) == 1:
        a = look(t[2][0])
        if a[0] == "agg" and not a[3]:
            try:
                table = enum_const_table(facts, facts.fns[t[1]], a[1])
            except AnalysisError:
                return None
            v = table.get(a[2])
            if isinstance(v, str):
                return v.encode()
            return v if isinstance(v, bytes) else None
    return None
