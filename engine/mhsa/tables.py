"""Tables read off MIR: enum -> constant maps, accepted languages of matchers."""
from .core import AnalysisError, subterms
from .paths import PathEnum


def strip_refs(t):
    while t[0] in ("ref", "deref"):
        t = t[1]
    return t


def enum_const_table(facts, fn, adt):
    """For `fn f(self) -> const` that switches on the discriminant of its argument: the map
    variant name -> constant returned.  Fails closed on any other shape."""
    discr = facts.variant_discr(adt)
    leaves = PathEnum(fn, facts).run()
    rets = [lf for lf in leaves if lf.kind == "return"]
    if len(rets) == 1 and not rets[0].conds:
        # `fn raw(self) -> &[u8] { self.to_str().as_bytes() }`: the table of the function it forwards to
        r = rets[0].ret()
        while r[0] in ("ref", "deref") or (r[0] == "call" and r[1].split("::")[0] in ("std", "core", "alloc") and r[1].rsplit("::", 1)[-1] in ("as_bytes", "as_str", "as_ref", "deref") and len(r[2]) == 1):
            r = r[1] if r[0] in ("ref", "deref") else r[2][0]
        if r[0] == "call" and r[1] in facts.fns and r[1] != fn.name and len(r[2]) == 1 and strip_refs(r[2][0]) == ("arg", 1):
            return enum_const_table(facts, facts.fns[r[1]], adt)
    table = {}
    for lf in leaves:
        if lf.kind != "return":
            continue
        var = None
        for (t, c, _bb) in lf.conds:
            if t[0] == "discr" and strip_refs(t[1]) == ("arg", 1):
                if c[0] != "eq":
                    raise AnalysisError("%s: wildcard arm in discriminant switch" % fn.name)
                var = discr.get(c[1])
        if var is None:
            raise AnalysisError("%s: return path not selected by the discriminant of self" % fn.name)
        r = strip_refs(lf.ret())
        to_bytes = False
        while r[0] == "call" and r[1].split("::")[0] in ("std", "core", "alloc") and r[1].rsplit("::", 1)[-1] in ("as_bytes", "as_str", "as_ref") and len(r[2]) == 1:
            # `self.name().as_bytes()` with name() traversed inline
            to_bytes = to_bytes or r[1].rsplit("::", 1)[-1] == "as_bytes"
            r = strip_refs(r[2][0])
        if r[0] == "const" and to_bytes and isinstance(r[1], str):
            r = ("const", r[1].encode())
        if r[0] != "const":
            raise AnalysisError("%s: arm %s does not return a constant (%r)" % (fn.name, var, r[0]))
        if var in table and table[var] != r[1]:
            raise AnalysisError("%s: arm %s returns two different constants" % (fn.name, var))
        table[var] = r[1]
    missing = [v for v in discr.values() if v not in table]
    if missing:
        raise AnalysisError("%s: no constant for variant(s) %s" % (fn.name, missing))
    return table


def result_variant(t):
    """('Ok', payload_term) / ('Err', payload_term) for a return term that is a literal Result."""
    t = strip_refs(t)
    if t[0] == "agg" and t[2] in ("Ok", "Err"):
        return t[2], (t[3][0] if t[3] else None)
    return None, t


def variant_of(t):
    t = strip_refs(t)
    if t is not None and t[0] == "agg":
        return t[2]
    return None


def byte_matcher_language(facts, fn):
    """Accepted language of a loop-free matcher over the bytes of its first argument.
    Returns (accept: {bytes: variant}, inexact: [descriptions], subject_ok: bool, calls: [paths])."""
    leaves = PathEnum(fn, facts).run()
    accept = {}
    inexact = []
    for lf in leaves:
        if lf.kind == "loop":
            raise AnalysisError("%s is not loop-free" % fn.name)
        if lf.kind != "return":
            continue
        kind, payload = result_variant(lf.ret())
        if kind is None:
            raise AnalysisError("%s: a return is not a literal Ok/Err (%s)" % (fn.name, lf.ret()[0]))
        if kind != "Ok":
            continue
        var = variant_of(payload)
        length = None
        known = {}
        whole = None
        foreign = []
        prefix = b""

        def subject(x):
            """x is the input, or what is left of it after a strip_prefix(CONST) that succeeded on this path."""
            x = strip_refs(x)
            if x == ("arg", 1):
                return True
            if x[0] == "field" and x[3] == "0" and x[1][0] == "downcast" and x[1][2] == "Some":
                sp = strip_refs(x[1][1])
                if sp[0] == "call" and sp[1].endswith("::strip_prefix") and len(sp[2]) == 2 and strip_refs(sp[2][0]) == ("arg", 1) and strip_refs(sp[2][1])[0] == "const":
                    return True
            return False

        for (t, c, _bb) in lf.conds:
            if t[0] == "discr":
                sp = strip_refs(t[1])
                if sp[0] == "call" and sp[1].endswith("::strip_prefix") and len(sp[2]) == 2 and strip_refs(sp[2][0]) == ("arg", 1) and strip_refs(sp[2][1])[0] == "const" and c == ("eq", 1):
                    pv = strip_refs(sp[2][1])[1]
                    prefix = pv if isinstance(pv, bytes) else str(pv).encode()
                    continue
            if t[0] == "bin" and t[1] == "Eq":
                a, b = t[2], t[3]
                if a[0] == "un" and a[1] == "PtrMetadata" and subject(a[2]) and b[0] == "const":
                    truth = (c == ("ne", (0,))) or (c[0] == "eq" and c[1] != 0)
                    if truth:
                        length = b[1]
                    continue
                foreign.append(t)
            elif t[0] == "constidx" and subject(t[1]):
                if c[0] == "eq":
                    if t[3]:
                        foreign.append(t)
                    else:
                        known[t[2]] = c[1]
            elif t[0] == "call" and t[1].endswith("PartialEq::eq"):
                x, y = t[2]
                if subject(x) and strip_refs(y)[0] == "const":
                    truth = (c == ("ne", (0,))) or (c[0] == "eq" and c[1] != 0)
                    if truth:
                        whole = strip_refs(y)[1]
                else:
                    foreign.append(t)
            else:
                foreign.append(t)
        if foreign:
            inexact.append("%s accepted under a condition that is not a direct test of the input bytes: %s" % (var, foreign[0][:2]))
            continue
        uses_rest = any("strip_prefix" in repr(t) for (t, c, _bb) in lf.conds if not (t[0] == "discr"))
        if prefix and not uses_rest and (whole is not None or length is not None):
            inexact.append("%s accepted after strip_prefix but the tests are on the whole input" % var)
            continue
        if not prefix and uses_rest:
            inexact.append("%s accepted on a path that looks at the stripped input without the prefix test having succeeded" % var)
            continue
        if whole is not None:
            w = whole if isinstance(whole, bytes) else str(whole).encode()
            accept[prefix + w] = var
            continue
        if length is None or any(i not in known for i in range(length)):
            inexact.append("%s accepted for a set of inputs that is not one exact string (len=%s, fixed bytes=%s)" % (var, length, sorted(known)))
            continue
        accept[prefix + bytes(known[i] for i in range(length))] = var
    return accept, inexact


def string_matcher(facts, fn, folds=None, info=None, adt=None):
    """For a matcher that compares one derived string against constants with PartialEq::eq (or, case-insensitively
    for ASCII, with eq_ignore_ascii_case -- then info["ci"] is set and the table is keyed by the lower-cased constant):
    returns (table {const: variant-or-shape}, subject term, list of leaves).
    folds: {path of a table function: {variant: constant}} -- `X::as_str(Variant)` on the constant side is its table entry.
    adt: when the Ok payload is not a literal variant but a value whose discriminant the path has tested (an item of a
    table the function loops over), the variant is read off that test."""
    leaves = PathEnum(fn, facts, lower=True).run()

    def const_side(y):
        y = strip_refs(y)
        if y[0] == "const":
            return y[1]
        if folds and y[0] == "call" and y[1] in folds and len(y[2]) == 1:
            a = strip_refs(y[2][0])
            if a[0] == "agg" and a[2] in folds[y[1]]:
                return folds[y[1]][a[2]]
        return None

    def peel(y):
        y = strip_refs(y)
        while y[0] == "call" and y[1].split("::")[0] in ("std", "core", "alloc") and y[1].rsplit("::", 1)[-1] in ("as_bytes", "as_str", "as_ref") and len(y[2]) == 1:
            y = strip_refs(y[2][0])
        return y

    table = {}
    subjects = []
    other_ok = []
    discr = facts.variant_discr(adt) if adt else {}
    for lf in leaves:
        if lf.kind != "return":
            continue
        kind, payload = result_variant(lf.ret())
        if kind is None:
            # the result of another call handed back as it is (the function calling itself on a piece of its input, a
            # helper): it may accept, and not by one of the comparisons seen here
            r_ = lf.ret()
            while isinstance(r_, tuple) and r_ and r_[0] in ("ref", "deref"):
                r_ = r_[1]
            if isinstance(r_, tuple) and r_ and r_[0] == "call" and not r_[1].endswith(("from_residual", "from_output")):
                other_ok.append(lf)
            continue
        if kind != "Ok":
            continue
        hit = None
        ci = False
        for (t, c, _bb) in lf.conds:
            is_eq = t[0] == "call" and t[1].endswith("PartialEq::eq")
            is_ci = t[0] == "call" and t[1].rsplit("::", 1)[-1] == "eq_ignore_ascii_case" and len(t[2]) == 2
            if is_eq or is_ci:
                truth = (c == ("ne", (0,))) or (c[0] == "eq" and c[1] != 0)
                x, y = t[2]
                if truth and const_side(y) is not None:
                    hit, ci = (peel(x) if is_ci else strip_refs(x), const_side(y)), is_ci
                elif truth and const_side(x) is not None:
                    hit, ci = (peel(y) if is_ci else strip_refs(y), const_side(x)), is_ci
        if hit is None:
            other_ok.append(lf)
            continue
        subj, const = hit
        if ci:
            if info is not None:
                info["ci"] = True
            const = const.lower() if isinstance(const, (str, bytes)) else const
        if subj not in subjects:
            subjects.append(subj)
        var = variant_of(payload)
        if var is None and adt and payload is not None:
            for (t, c, _bb) in lf.conds:
                if t[0] == "discr" and strip_refs(t[1]) == strip_refs(payload) and c[0] == "eq":
                    var = discr.get(c[1])
        table[const] = var or payload
    return table, subjects, other_ok


def calls_in(t):
    return [s[1] for s in subterms(t) if isinstance(s, tuple) and s and s[0] in ("call",)] + [s[2] for s in subterms(t) if isinstance(s, tuple) and s and s[0] == "mut"]


def eval_usize(facts, t, depth=0):
    """Value of a usize expression built from integer constants, `+`, `.len()` of byte/str constants and of
    enum-to-constant tables (`Method::Get.raw().len()`), and calls of argument-less local functions made of the
    same.  None if anything else occurs."""
    from .rules.util import look, last_seg
    t = look(t)
    if depth > 6:
        return None
    if t[0] == "const":
        return t[1] if isinstance(t[1], int) and not isinstance(t[1], bool) else None
    if t[0] == "field" and t[2] == "tuple" and t[3] == "0":
        u = look(t[1])
        if u[0] == "bin" and u[1] in ("AddWithOverflow", "MulWithOverflow"):
            t = ("bin", u[1][:3], u[2], u[3])
    if t[0] == "bin" and t[1] in ("Add", "Mul", "AddUnchecked"):
        a, b = eval_usize(facts, t[2], depth + 1), eval_usize(facts, t[3], depth + 1)
        if a is None or b is None:
            return None
        return a * b if t[1] == "Mul" else a + b
    if t[0] == "cast":
        return eval_usize(facts, t[1], depth + 1)
    if t[0] == "call" and last_seg(t[1]) == "len" and len(t[2]) == 1:
        v = eval_bytes(facts, t[2][0], depth + 1)
        return None if v is None else len(v)
    if t[0] == "call" and t[1] in facts.fns and not t[2]:
        rets = [lf for lf in PathEnum(facts.fns[t[1]], facts).run()]
        if len(rets) == 1 and rets[0].kind == "return" and not rets[0].conds:
            return eval_usize(facts, rets[0].ret(), depth + 1)
    return None


def eval_bytes(facts, t, depth=0):
    from .rules.util import look
    t = look(t)
    if t[0] == "const":
        v = t[1]
        if isinstance(v, str):
            return v.encode()
        return v if isinstance(v, bytes) else None
    if t[0] == "call" and t[1] in facts.fns and len(t[2]) == 1:
        a = look(t[2][0])
        if a[0] == "agg" and not a[3]:
            try:
                table = enum_const_table(facts, facts.fns[t[1]], a[1])
            except AnalysisError:
                return None
            v = table.get(a[2])
            if isinstance(v, str):
                return v.encode()
            return v if isinstance(v, bytes) else None
    return None


def table_search(facts, fn, adt, leaf=None):
    """A parser written as a search of a table of values for the one whose spelling matches the input:
        TABLE.iter().copied().find(|v| v.raw() == bytes).ok_or(err)
        TABLE.into_iter().find(|v| key.eq_ignore_ascii_case(v.name())).ok_or_else(..)
    TABLE an array literal of field-less variants or a constant array of them.  Returns None, or a dict:
    variants (in table order), mode ('exact' | 'ascii-ci'), subject (the captured term compared), item_fn (path of
    the spelling function applied to the item), conds (of the leaf that returns the search result)."""
    from .rules.util import look, is_call, last_seg
    leaves = [leaf] if leaf is not None else [l for l in PathEnum(fn, facts).run() if l.kind == "return"]
    for lf in leaves:
        r = look(lf.ret())
        while r[0] == "agg" and r[2] == "Ok" and r[3]:
            r = look(r[3][0])
        indexed = None
        if r[0] == "index":
            # `match TABLE.iter().position(|v| v.raw() == bytes) { Some(i) => Ok(TABLE[i]), None => Err(..) }`
            from .rules.util import payload_of, norm
            ps = payload_of(look(r[2]))
            if ps is not None and is_call(ps, "position") and len(ps[2]) == 2:
                indexed = look(r[1])
                fd = ps
            else:
                continue
        else:
            if not (is_call(r, "ok_or", "ok_or_else") and r[2]):
                continue
            fd = look(r[2][0])
            while fd[0] == "mut" or is_call(fd, "copied", "cloned"):
                fd = look(fd[1]) if fd[0] == "mut" else look(fd[2][0])
            if not (is_call(fd, "find") and len(fd[2]) == 2):
                continue
        it = look(fd[2][0])
        while it[0] == "mut" or is_call(it, "copied", "cloned", "into_iter", "iter"):
            it = look(it[1]) if it[0] == "mut" else look(it[2][0])
        if indexed is not None and norm(indexed) != norm(it):
            continue        # the position found in one table indexes another
        discr = facts.variant_discr(adt)
        if it[0] == "const" and isinstance(it[1], bytes):
            variants = [discr.get(b) for b in it[1]]
        elif it[0] == "array":
            variants = [x[2] if x[0] == "agg" and x[1] == adt else None for x in it[1]]
        else:
            continue
        if not variants or None in variants:
            continue
        clo = look(fd[2][1])
        if not (clo[0] == "closure" and clo[1] in facts.fns and len(clo[2]) == 1):
            continue
        cap = look(clo[2][0])
        modes, fns = set(), set()
        good = True
        for l2 in PathEnum(facts.fns[clo[1]], facts).run():
            rr = look(l2.ret())
            ok = False
            if rr[0] == "call" and len(rr[2]) == 2 and (rr[1].endswith("PartialEq::eq") or last_seg(rr[1]) == "eq_ignore_ascii_case"):
                for a, b in ((rr[2][0], rr[2][1]), (rr[2][1], rr[2][0])):
                    a, b = look(a), look(b)
                    item_ok = a[0] == "call" and a[1] in facts.fns and len(a[2]) == 1 and look(a[2][0]) in (("arg", 2), ("deref", ("arg", 2)))
                    cap_ok = b[0] == "field" and look(b[1]) == ("arg", 1) and b[3] == "0"
                    if item_ok and cap_ok:
                        ok = True
                        modes.add("ascii-ci" if last_seg(rr[1]) == "eq_ignore_ascii_case" else "exact")
                        fns.add(a[1])
            good = good and ok
        if not good or len(modes) != 1 or len(fns) != 1:
            continue
        conds = lf.conds
        if indexed is not None:
            # the test that the position was found is part of the form, not a side condition
            conds = [c_ for c_ in conds if not (c_[0][0] == "discr" and norm(look(c_[0][1])) == norm(fd))]
        return {"variants": variants, "mode": modes.pop(), "subject": cap, "item_fn": fns.pop(), "conds": conds, "leaf": lf}
    return None


def pair_table_loop(facts, fn, adt):
    """A parser written as a loop over a literal table of (spelling, value) pairs that returns the value of the first pair
    whose spelling matches the input, and an error after the loop:
        for (name, v) in [("a", A), ("b", B)] { if input.eq_ignore_ascii_case(name) { return Ok(v) } }  Err(..)
    Returns None or {"pairs": [(spelling, variant)], "mode": 'exact' | 'ascii-ci', "subject": term}.  Fails closed (None) when a
    path returns Ok some other way, the loop body does anything but compare, or the table is not a literal of constants."""
    from .rules.util import look, is_call, last_seg, payload_of, norm, truth, option_is_some
    lv = PathEnum(fn, facts).run()
    table = None
    subject = None
    modes = set()
    n_ok = 0
    for lf in lv:
        if lf.kind == "return":
            r = look(lf.ret())
            if not (r[0] == "agg" and r[2] == "Ok"):
                continue
            n_ok += 1
            x = look(r[3][0])
        elif lf.kind == "loop":
            x = None
        else:
            return None
        nxt, cmp_ = None, None
        for (t, c, _b) in lf.conds:
            if t[0] == "discr" and is_call(look(t[1]), "next") and option_is_some(c):
                nxt = look(t[1])
            y = look(t)
            if y[0] == "call" and len(y[2]) == 2 and (y[1].endswith("PartialEq::eq") or last_seg(y[1]) == "eq_ignore_ascii_case") and truth(c) is not None:
                cmp_ = (y, truth(c))
        if nxt is None:
            if lf.kind == "loop":
                return None
            return None     # an Ok that does not come out of the table
        it = look(nxt[2][0])
        while it[0] == "mut" or is_call(it, "into_iter", "iter", "copied", "cloned"):
            it = look(it[1]) if it[0] == "mut" else look(it[2][0])
        if it[0] != "array":
            return None
        if table is None:
            table = it
        elif norm(table) != norm(it):
            return None
        if cmp_ is None:
            return None
        y, tv = cmp_
        item0 = lambda z: look(z)[0] == "field" and look(z)[3] == "0" and payload_of(look(z)[1]) is not None and norm(payload_of(look(z)[1])) == norm(nxt)
        a, b = y[2]
        subj = b if item0(a) else a if item0(b) else None
        if subj is None:
            return None
        if subject is None:
            subject = look(subj)
        elif norm(subject) != norm(look(subj)):
            return None
        modes.add("ascii-ci" if last_seg(y[1]) == "eq_ignore_ascii_case" else "exact")
        if lf.kind == "return":
            # the value returned is the second component of the matching pair
            if not (tv and x[0] == "field" and x[3] == "1" and payload_of(x[1]) is not None and norm(payload_of(x[1])) == norm(nxt)):
                return None
        elif tv:
            return None     # the loop goes on after a match
    if table is None or n_ok != 1 or len(modes) != 1:
        return None
    pairs = []
    for el in table[1]:
        el = look(el)
        if not (el[0] == "tuple" and len(el[1]) == 2):
            return None
        k, v = look(el[1][0]), look(el[1][1])
        if not (k[0] == "const" and isinstance(k[1], (str, bytes)) and v[0] == "agg" and v[1] == adt):
            return None
        pairs.append((k[1] if isinstance(k[1], str) else k[1].decode("latin-1"), v[2]))
    return {"pairs": pairs, "mode": modes.pop(), "subject": subject}
