"""Extra work of the thorough tier: independent cross-count of the extraction, clippy cross-reference,
release-profile re-run (runner) and the mutant self-test."""
import json
import os
import re
import shutil
import subprocess
import tempfile

from . import runner


def _env(target):
    env = dict(os.environ)
    env["CARGO_TARGET_DIR"] = target
    env["CARGO_NET_OFFLINE"] = "true"
    env["RUSTFLAGS"] = "-Zmir-opt-level=0 -Awarnings"
    env.pop("RUSTC_WRAPPER", None)
    env.pop("RUSTC_WORKSPACE_WRAPPER", None)
    return env


def text_crosscount(facts, repo=runner.REPO):
    """Compare body / terminator counts of the JSON fact base with rustc's own -Zunpretty=mir text dump."""
    tmp = tempfile.mkdtemp(prefix="mhsa.txt.")
    try:
        p = subprocess.run(["cargo", "+nightly", "rustc", "--offline", "--lib", "--manifest-path", os.path.join(repo, "Cargo.toml"), "--", "-Zunpretty=mir"],
                           env=_env(os.path.join(tmp, "t")), cwd=repo, stdout=subprocess.PIPE, stderr=subprocess.DEVNULL, text=True)
        if p.returncode != 0:
            return {"ok": False, "why": "text dump failed"}
        lines = p.stdout.split("\n")
    finally:
        shutil.rmtree(tmp, ignore_errors=True)
    t = {"fns": 0, "drops": 0, "switches": 0, "calls": 0, "asserts": 0}
    in_fn = False
    for l in lines:
        if l.startswith("fn "):
            in_fn = True
            t["fns"] += 1
            continue
        if l == "}":
            in_fn = False
            continue
        if not in_fn:
            continue
        st = l.strip()
        if st.startswith("drop("):
            t["drops"] += 1
        elif st.startswith("switchInt("):
            t["switches"] += 1
        elif st.startswith("assert("):
            t["asserts"] += 1
        elif re.search(r"\) -> (\[return: bb\d+, unwind[^\]]*\]|unwind [^;]+|bb\d+);\s*$", l) and " = " in l:
            t["calls"] += 1
    j = {"fns": len(facts.fns) + 2 * facts.raw.get("n_ctor_fns", 0), "drops": 0, "switches": 0, "calls": 0, "asserts": 0}
    for fn in facts.fns.values():
        for b in fn.blocks:
            k = b["term"]["k"]
            if k == "drop":
                j["drops"] += 1
            elif k == "switch":
                j["switches"] += 1
            elif k == "call":
                j["calls"] += 1
            elif k == "assert":
                j["asserts"] += 1
    return {"ok": t == j, "text": t, "json": j}


def clippy_cross(repo=runner.REPO):
    """clippy::disallowed_methods with engine/clippy/clippy.toml: list of (method, file:line)."""
    tmp = tempfile.mkdtemp(prefix="mhsa.clippy.")
    try:
        env = _env(os.path.join(tmp, "t"))
        env["CLIPPY_CONF_DIR"] = os.path.join(runner.VERIF, "engine", "clippy")
        env["RUSTFLAGS"] = "-Awarnings"
        p = subprocess.run(["cargo", "+nightly", "clippy", "--offline", "--lib", "--message-format=json", "--manifest-path", os.path.join(repo, "Cargo.toml"), "--", "-A", "clippy::all", "-W", "clippy::disallowed_methods"],
                           env=env, cwd=repo, stdout=subprocess.PIPE, stderr=subprocess.DEVNULL, text=True)
        hits = []
        for l in p.stdout.split("\n"):
            if not l.startswith("{"):
                continue
            try:
                m = json.loads(l)
            except ValueError:
                continue
            msg = m.get("message") or {}
            code = (msg.get("code") or {}).get("code")
            if code == "clippy::disallowed_methods":
                sp = (msg.get("spans") or [{}])[0]
                hits.append({"what": msg.get("message"), "at": "%s:%s" % (sp.get("file_name"), sp.get("line_start"))})
        return {"ran": p.returncode == 0, "hits": hits}
    finally:
        shutil.rmtree(tmp, ignore_errors=True)


def _job(args):
    import contextlib, io
    from . import selftest
    kind, ident, prop = args
    with contextlib.redirect_stdout(io.StringIO()):
        if kind == "mutant" or kind == "own-benign":
            m = [x for x in selftest.load_mutants(kind == "own-benign") if x["id"] == ident][0]
            r = selftest.run_mutant(m, [prop])
        else:
            r = selftest.run_patch_dir(kind, ident, [prop])
    return kind, ident, r


def change_selftest(prop):
    """Both directions, on scratch copies of the current tree, 12 at a time:
    - breaking changes (registered mutants of `prop`, sub-agent changes stored under seeded/ for `prop`): is each reported?
    - behaviour-preserving refactorings (engine/mutants/benign.json, benign_seeded/): does `prop` stay silent?
    Recorded in the evidence; never influences the exit status."""
    from concurrent.futures import ProcessPoolExecutor
    from . import selftest
    jobs = []
    for m in selftest.load_mutants():
        if prop in m["properties"]:
            jobs.append(("mutant", m["id"], prop))
    sd = os.path.join(runner.VERIF, "seeded")
    for sid in sorted(os.listdir(sd)) if os.path.isdir(sd) else []:
        try:
            meta = json.load(open(os.path.join(sd, sid, "meta.json")))
        except (OSError, ValueError):
            continue
        if meta.get("property") == prop and os.path.exists(os.path.join(sd, sid, "patch.diff")):
            jobs.append(("seeded", sid, prop))
    for m in selftest.load_mutants(True):
        jobs.append(("own-benign", m["id"], prop))
    for sid in selftest.benign_seeded_ids():
        jobs.append(("benign_seeded", sid, prop))
    expect = {m["id"]: m.get("expect_rules", []) for m in selftest.load_mutants()}
    out = {"mutants": [], "seeded": [], "refactorings": []}
    with ProcessPoolExecutor(12) as ex:
        for kind, ident, r in ex.map(_job, jobs):
            fired = (r.get("fired") or {}).get(prop, []) if r["status"] == "ran" else None
            if kind == "mutant":
                if fired is None:
                    out["mutants"].append({"mutant": ident, "status": r["status"], "why": r.get("why", "")[:200]})
                else:
                    out["mutants"].append({"mutant": ident, "status": "reported" if fired else "NOT REPORTED", "rules": fired, "expected": [x for x in expect.get(ident, []) if x.startswith("R" + prop[1:])]})
            elif kind == "seeded":
                out["seeded"].append({"change": ident, "status": r["status"] if fired is None else ("reported" if fired else "NOT REPORTED"), "rules": sorted({x.split(":")[0] for x in fired}) if fired else []})
            else:
                status = r["status"] if fired is None else ("FALSE ALARM" if fired else "silent")
                if status == "FALSE ALARM" and kind == "benign_seeded":
                    try:
                        rec = json.load(open(os.path.join(runner.VERIF, "benign_seeded", ident, "meta.json"))).get("false_alarms_now") or {}
                    except (OSError, ValueError):
                        rec = {}
                    if prop in rec:
                        status = "FALSE ALARM (recorded residual, DESIGN.md Appendix D.2)"
                out["refactorings"].append({"refactoring": ident, "status": status, "rules": fired or []})
    return out


def mutant_selftest(prop):
    """Apply each registered mutant of `prop` to a scratch copy of the current tree and record whether
    the property's rules report it.  Never influences the exit status."""
    from . import selftest
    import contextlib, io
    out = []
    for m in selftest.load_mutants():
        if prop not in m["properties"]:
            continue
        buf = io.StringIO()
        with contextlib.redirect_stdout(buf):
            r = selftest.run_mutant(m, [prop])
        if r["status"] != "ran":
            out.append({"mutant": m["id"], "status": r["status"], "why": r.get("why", "")[:200]})
        else:
            fired = r["fired"].get(prop, [])
            out.append({"mutant": m["id"], "status": "reported" if fired else "NOT REPORTED", "rules": fired, "expected": [x for x in m.get("expect_rules", []) if x.startswith("R" + prop[1:])]})
    return out
