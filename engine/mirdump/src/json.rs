// Minimal JSON value + serializer (no dependencies).
use std::fmt::Write;

#[derive(Clone, Debug)]
pub enum J {
    Null,
    Bool(bool),
    Int(i128),
    Str(String),
    Arr(Vec<J>),
    Obj(Vec<(String, J)>),
}

impl J {
    pub fn s<T: Into<String>>(t: T) -> J {
        J::Str(t.into())
    }
    pub fn obj(v: Vec<(&str, J)>) -> J {
        J::Obj(v.into_iter().map(|(k, v)| (k.to_string(), v)).collect())
    }
    pub fn opt_s(o: Option<String>) -> J {
        match o {
            Some(s) => J::Str(s),
            None => J::Null,
        }
    }
    pub fn write(&self, out: &mut String) {
        match self {
            J::Null => out.push_str("null"),
            J::Bool(b) => out.push_str(if *b { "true" } else { "false" }),
            J::Int(i) => {
                // Keep integers that do not fit an f64 exactly as strings-with-marker?
                // Python reads arbitrary-size ints, so plain decimal is fine.
                let _ = write!(out, "{}", i);
            }
            J::Str(s) => esc(s, out),
            J::Arr(a) => {
                out.push('[');
                for (i, x) in a.iter().enumerate() {
                    if i > 0 {
                        out.push(',');
                    }
                    x.write(out);
                }
                out.push(']');
            }
            J::Obj(o) => {
                out.push('{');
                for (i, (k, v)) in o.iter().enumerate() {
                    if i > 0 {
                        out.push(',');
                    }
                    esc(k, out);
                    out.push(':');
                    v.write(out);
                }
                out.push('}');
            }
        }
    }
}

fn esc(s: &str, out: &mut String) {
    out.push('"');
    for c in s.chars() {
        match c {
            '"' => out.push_str("\\\""),
            '\\' => out.push_str("\\\\"),
            '\n' => out.push_str("\\n"),
            '\r' => out.push_str("\\r"),
            '\t' => out.push_str("\\t"),
            c if (c as u32) < 0x20 => {
                let _ = write!(out, "\\u{:04x}", c as u32);
            }
            c => out.push(c),
        }
    }
    out.push('"');
}

pub fn hex(bytes: &[u8]) -> String {
    let mut s = String::with_capacity(bytes.len() * 2);
    for b in bytes {
        let _ = write!(s, "{:02x}", b);
    }
    s
}
