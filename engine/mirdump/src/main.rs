// mirdump: rustc_private driver that dumps the type-checked program (MIR, ADTs, constants)
// of one crate as a JSON fact file. Used as RUSTC_WORKSPACE_WRAPPER under `cargo +nightly check`.
//
//   MIRDUMP_OUT=<file>     where to write the facts (one write per process)
//   MIRDUMP_CRATE=<name>   only dump when the crate being compiled has this name (default micro_http)
#![feature(rustc_private)]
#![allow(clippy::all)]

extern crate rustc_abi;
extern crate rustc_driver;
extern crate rustc_hir;
extern crate rustc_interface;
extern crate rustc_middle;
extern crate rustc_span;

mod json;
use json::{hex, J};

use rustc_driver::Compilation;
use rustc_hir::def::DefKind;
use rustc_hir::def_id::{DefId, LocalDefId};
use rustc_middle::mir::interpret::{AllocRange, GlobalAlloc, Scalar};
use rustc_middle::mir::{
    self, AggregateKind, AssertKind, BasicBlockData, Body, Const, ConstValue, Operand, Place,
    PlaceTy, ProjectionElem, Rvalue, StatementKind, TerminatorKind,
};
use rustc_middle::ty::print::with_no_trimmed_paths;
use rustc_middle::ty::{self, GenericArgsRef, Instance, Ty, TyCtxt, TypeVisitableExt, TypingEnv};
use rustc_span::{ExpnKind, Span};

struct Cb;

impl rustc_driver::Callbacks for Cb {
    fn after_analysis<'tcx>(
        &mut self,
        _compiler: &rustc_interface::interface::Compiler,
        tcx: TyCtxt<'tcx>,
    ) -> Compilation {
        let want = std::env::var("MIRDUMP_CRATE").unwrap_or_else(|_| "micro_http".to_string());
        let name = tcx.crate_name(rustc_hir::def_id::LOCAL_CRATE).to_string();
        if name != want {
            return Compilation::Continue;
        }
        let out = match std::env::var("MIRDUMP_OUT") {
            Ok(o) => o,
            Err(_) => return Compilation::Continue,
        };
        let facts = with_no_trimmed_paths!(dump_crate(tcx, &name));
        let mut s = String::new();
        facts.write(&mut s);
        s.push('\n');
        std::fs::write(&out, s).expect("mirdump: cannot write fact file");
        Compilation::Continue
    }
}

fn main() {
    let mut args: Vec<String> = std::env::args().collect();
    // As RUSTC_WORKSPACE_WRAPPER we are called as: mirdump <path-to-rustc> <rustc args...>
    if args.len() > 1 && (args[1].ends_with("rustc") || args[1].contains("/rustc")) {
        args.remove(1);
    }
    rustc_driver::run_compiler(&args, &mut Cb);
}

// ---------------------------------------------------------------------------------------------

struct Cx<'tcx> {
    tcx: TyCtxt<'tcx>,
}

fn dump_crate<'tcx>(tcx: TyCtxt<'tcx>, name: &str) -> J {
    let cx = Cx { tcx };
    let mut adts = Vec::new();
    let mut consts = Vec::new();
    let mut fns = Vec::new();
    let mut files: Vec<String> = Vec::new();

    for f in tcx.sess.source_map().files().iter() {
        let n = format!("{}", f.name.prefer_local_unconditionally());
        if !n.starts_with('/') && !n.starts_with('<') {
            files.push(n);
        }
    }

    let items = tcx.hir_crate_items(());
    for ldid in items.definitions() {
        let did = ldid.to_def_id();
        match tcx.def_kind(did) {
            DefKind::Struct | DefKind::Enum | DefKind::Union => {
                adts.push((tcx.def_path_str(did), cx.adt_j(did)));
            }
            DefKind::Const { .. } | DefKind::AssocConst { .. } => {
                if tcx.generics_of(did).count() == 0 {
                    if let Some(j) = cx.const_item_j(did) {
                        consts.push((tcx.def_path_str(did), j));
                    }
                }
            }
            DefKind::Static { .. } => {
                if let Some(j) = cx.static_item_j(did) {
                    consts.push((tcx.def_path_str(did), j));
                }
            }
            _ => {}
        }
    }

    let mut n_ctor_fns = 0i128;
    for ldid in tcx.mir_keys(()).iter() {
        if let DefKind::Ctor(_, rustc_hir::def::CtorKind::Fn) = tcx.def_kind(ldid.to_def_id()) {
            n_ctor_fns += 1;
        }
    }
    for ldid in tcx.hir_body_owners() {
        let did = ldid.to_def_id();
        let kind = tcx.def_kind(did);
        match kind {
            DefKind::Fn | DefKind::AssocFn | DefKind::Closure => {}
            _ => continue,
        }
        if !tcx.is_mir_available(did) {
            continue;
        }
        let body = tcx.optimized_mir(did);
        fns.push((tcx.def_path_str(did), cx.fn_j(ldid, kind, body)));
    }

    J::obj(vec![
        ("crate", J::s(name)),
        ("rustc", J::s(rustc_version())),
        (
            "profile",
            J::s(if tcx.sess.opts.debug_assertions { "dev" } else { "release" }),
        ),
        ("overflow_checks", J::Bool(tcx.sess.overflow_checks())),
        ("n_ctor_fns", J::Int(n_ctor_fns)),
        ("files", J::Arr(files.into_iter().map(J::Str).collect())),
        ("adts", J::Obj(adts)),
        ("consts", J::Obj(consts)),
        ("fns", J::Obj(fns)),
    ])
}

fn rustc_version() -> String {
    option_env!("CFG_VERSION").unwrap_or("nightly").to_string()
}

impl<'tcx> Cx<'tcx> {
    // ----- types ------------------------------------------------------------------------------
    fn ty_s(&self, ty: Ty<'tcx>) -> String {
        format!("{}", ty)
    }

    fn ty_j(&self, ty: Ty<'tcx>, depth: u32) -> J {
        let s = self.ty_s(ty);
        if depth == 0 {
            return J::obj(vec![("s", J::Str(s)), ("k", J::s("deep"))]);
        }
        let d = depth - 1;
        let mut v: Vec<(&str, J)> = vec![("s", J::Str(s))];
        match ty.kind() {
            ty::Bool => v.push(("k", J::s("bool"))),
            ty::Char => v.push(("k", J::s("char"))),
            ty::Uint(u) => {
                v.push(("k", J::s("uint")));
                v.push(("bits", J::Int(u.bit_width().unwrap_or(64) as i128)));
                v.push(("ptr_sized", J::Bool(u.bit_width().is_none())));
            }
            ty::Int(i) => {
                v.push(("k", J::s("int")));
                v.push(("bits", J::Int(i.bit_width().unwrap_or(64) as i128)));
                v.push(("ptr_sized", J::Bool(i.bit_width().is_none())));
            }
            ty::Adt(def, args) => {
                v.push(("k", J::s("adt")));
                v.push(("path", J::Str(self.tcx.def_path_str(def.did()))));
                v.push((
                    "args",
                    J::Arr(args.types().map(|t| self.ty_j(t, d)).collect()),
                ));
            }
            ty::Ref(_, inner, m) => {
                v.push(("k", J::s("ref")));
                v.push(("mut", J::Bool(m.is_mut())));
                v.push(("inner", self.ty_j(*inner, d)));
            }
            ty::RawPtr(inner, m) => {
                v.push(("k", J::s("rawptr")));
                v.push(("mut", J::Bool(m.is_mut())));
                v.push(("inner", self.ty_j(*inner, d)));
            }
            ty::Slice(inner) => {
                v.push(("k", J::s("slice")));
                v.push(("inner", self.ty_j(*inner, d)));
            }
            ty::Array(inner, len) => {
                v.push(("k", J::s("array")));
                v.push(("inner", self.ty_j(*inner, d)));
                let mut n = len.try_to_target_usize(self.tcx);
                if n.is_none() && !ty.has_non_region_param() {
                    // e.g. `[u8; BUFFER_SIZE]` in a field declaration: evaluate the length constant
                    let env = TypingEnv::fully_monomorphized();
                    if let Ok(nt) = self.tcx.try_normalize_erasing_regions(env, rustc_middle::ty::Unnormalized::new_wip(ty)) {
                        if let ty::Array(_, l2) = nt.kind() {
                            n = l2.try_to_target_usize(self.tcx);
                        }
                    }
                }
                v.push((
                    "len",
                    match n {
                        Some(n) => J::Int(n as i128),
                        None => J::Null,
                    },
                ));
            }
            ty::Str => v.push(("k", J::s("str"))),
            ty::Tuple(ts) => {
                v.push(("k", J::s("tuple")));
                v.push(("elems", J::Arr(ts.iter().map(|t| self.ty_j(t, d)).collect())));
            }
            ty::Closure(did, _) => {
                v.push(("k", J::s("closure")));
                v.push(("path", J::Str(self.tcx.def_path_str(*did))));
            }
            ty::FnDef(did, args) => {
                v.push(("k", J::s("fndef")));
                v.push(("path", J::Str(self.tcx.def_path_str(*did))));
                v.push((
                    "args",
                    J::Arr(args.types().map(|t| J::Str(self.ty_s(t))).collect()),
                ));
            }
            ty::FnPtr(..) => v.push(("k", J::s("fnptr"))),
            ty::Param(p) => {
                v.push(("k", J::s("param")));
                v.push(("name", J::Str(p.name.to_string())));
            }
            ty::Never => v.push(("k", J::s("never"))),
            ty::Dynamic(..) => v.push(("k", J::s("dyn"))),
            _ => v.push(("k", J::s("other"))),
        }
        J::obj(v)
    }

    fn adt_j(&self, did: DefId) -> J {
        let tcx = self.tcx;
        let def = tcx.adt_def(did);
        let kind = if def.is_enum() {
            "enum"
        } else if def.is_union() {
            "union"
        } else {
            "struct"
        };
        let mut variants = Vec::new();
        for (vidx, v) in def.variants().iter_enumerated() {
            let discr = if def.is_enum() {
                J::Int(def.discriminant_for_variant(tcx, vidx).val as i128)
            } else {
                J::Null
            };
            let fields = v
                .fields
                .iter()
                .map(|f| {
                    let fty = tcx.type_of(f.did).instantiate_identity().skip_norm_wip();
                    J::obj(vec![
                        ("name", J::Str(f.name.to_string())),
                        ("ty", self.ty_j(fty, 3)),
                        ("vis", J::s(self.vis_s(f.did))),
                    ])
                })
                .collect();
            variants.push(J::obj(vec![
                ("name", J::Str(v.name.to_string())),
                ("idx", J::Int(vidx.as_u32() as i128)),
                ("discr", discr),
                ("fields", J::Arr(fields)),
            ]));
        }
        let fieldless = def.is_enum() && def.variants().iter().all(|v| v.fields.is_empty());
        J::obj(vec![
            ("kind", J::s(kind)),
            ("fieldless", J::Bool(fieldless)),
            ("vis", J::s(self.vis_s(did))),
            ("span", self.span_j(tcx.def_span(did))),
            ("variants", J::Arr(variants)),
        ])
    }

    fn vis_s(&self, did: DefId) -> String {
        let v = self.tcx.visibility(did);
        match v {
            ty::Visibility::Public => "pub".to_string(),
            ty::Visibility::Restricted(m) => {
                if m.is_crate_root() {
                    "crate".to_string()
                } else {
                    format!("in:{}", self.tcx.def_path_str(m))
                }
            }
        }
    }

    // ----- spans ------------------------------------------------------------------------------
    fn span_j(&self, sp: Span) -> J {
        let sm = self.tcx.sess.source_map();
        let exp = if sp.from_expansion() {
            let d = sp.ctxt().outer_expn_data();
            Some(match d.kind {
                ExpnKind::Macro(_, name) => format!("macro:{}", name),
                ExpnKind::Desugaring(k) => format!("desugar:{:?}", k),
                ExpnKind::AstPass(k) => format!("astpass:{:?}", k),
                ExpnKind::Root => "root".to_string(),
            })
        } else {
            None
        };
        let cs = sp.source_callsite();
        let lo = sm.lookup_char_pos(cs.lo());
        let hi = sm.lookup_char_pos(cs.hi());
        J::obj(vec![
            ("file", J::Str(format!("{}", lo.file.name.prefer_local_unconditionally()))),
            ("lo", J::Int(lo.line as i128)),
            ("hi", J::Int(hi.line as i128)),
            ("col", J::Int(lo.col.0 as i128 + 1)),
            ("exp", J::opt_s(exp)),
        ])
    }

    // ----- constants --------------------------------------------------------------------------
    fn const_item_j(&self, did: DefId) -> Option<J> {
        let tcx = self.tcx;
        let ty = tcx.type_of(did).instantiate_identity().skip_norm_wip();
        let val = tcx.const_eval_poly(did).ok()?;
        Some(J::obj(vec![
            ("ty", J::Str(self.ty_s(ty))),
            ("kind", J::s("const")),
            ("value", self.const_value_j(val, ty)),
        ]))
    }

    fn static_item_j(&self, did: DefId) -> Option<J> {
        let tcx = self.tcx;
        let ty = tcx.type_of(did).instantiate_identity().skip_norm_wip();
        let alloc = tcx.eval_static_initializer(did).ok()?;
        let inner = alloc.inner();
        // A static of reference/fat-pointer type: follow its first pointer.
        let mut value = J::obj(vec![("k", J::s("opaque"))]);
        let ptr_size = tcx.data_layout.pointer_size();
        if let Some((_, prov)) = inner.provenance().ptrs().iter().next() {
            let target = prov.alloc_id();
            if let GlobalAlloc::Memory(m) = tcx.global_alloc(target) {
                let ta = m.inner();
                let bytes = ta.inspect_with_uninit_and_ptr_outside_interpreter(0..ta.len());
                value = J::obj(vec![("k", J::s("bytes")), ("hex", J::Str(hex(bytes)))]);
            }
        } else if inner.len() <= 16 {
            let bytes = inner.inspect_with_uninit_and_ptr_outside_interpreter(0..inner.len());
            value = J::obj(vec![("k", J::s("raw")), ("hex", J::Str(hex(bytes)))]);
        }
        let _ = ptr_size;
        Some(J::obj(vec![
            ("ty", J::Str(self.ty_s(ty))),
            ("kind", J::s("static")),
            ("value", value),
        ]))
    }

    fn scalar_int_j(&self, bits: u128, size_bytes: u64, ty: Ty<'tcx>) -> J {
        match ty.kind() {
            ty::Bool => J::obj(vec![("k", J::s("bool")), ("v", J::Bool(bits != 0))]),
            ty::Int(_) => {
                let sz = size_bytes * 8;
                let v = if sz == 0 {
                    0
                } else if sz >= 128 {
                    bits as i128
                } else {
                    let shift = 128 - sz as u32;
                    ((bits << shift) as i128) >> shift
                };
                J::obj(vec![("k", J::s("int")), ("v", J::Int(v))])
            }
            ty::Char => J::obj(vec![("k", J::s("char")), ("v", J::Int(bits as i128))]),
            _ => {
                if bits > i128::MAX as u128 {
                    J::obj(vec![("k", J::s("int")), ("v", J::Str(format!("{}", bits)))])
                } else {
                    J::obj(vec![("k", J::s("int")), ("v", J::Int(bits as i128))])
                }
            }
        }
    }

    fn alloc_bytes(&self, alloc_id: mir::interpret::AllocId, off: u64, len: Option<u64>) -> Option<Vec<u8>> {
        match self.tcx.try_get_global_alloc(alloc_id)? {
            GlobalAlloc::Memory(m) => {
                let a = m.inner();
                let total = a.len() as u64;
                let end = match len {
                    Some(l) => off.checked_add(l)?,
                    None => total,
                };
                if end > total || off > end {
                    return None;
                }
                Some(
                    a.inspect_with_uninit_and_ptr_outside_interpreter(off as usize..end as usize)
                        .to_vec(),
                )
            }
            GlobalAlloc::Static(did) => {
                let a = self.tcx.eval_static_initializer(did).ok()?;
                let a = a.inner();
                let total = a.len() as u64;
                let end = match len {
                    Some(l) => off.checked_add(l)?,
                    None => total,
                };
                if end > total || off > end {
                    return None;
                }
                Some(
                    a.inspect_with_uninit_and_ptr_outside_interpreter(off as usize..end as usize)
                        .to_vec(),
                )
            }
            _ => None,
        }
    }

    /// For a fieldless enum type (or a reference to one): the variant whose discriminant equals `tag`.
    fn enum_variant_j(&self, ty: Ty<'tcx>, tag: u128) -> Option<J> {
        let inner = match ty.kind() {
            ty::Ref(_, inner, _) => *inner,
            _ => ty,
        };
        if let ty::Adt(def, _) = inner.kind() {
            if def.is_enum() && def.variants().iter().all(|v| v.fields.is_empty()) {
                for (vidx, d) in def.discriminants(self.tcx) {
                    if d.val == tag {
                        return Some(J::obj(vec![
                            ("k", J::s("enum")),
                            ("adt", J::Str(self.tcx.def_path_str(def.did()))),
                            ("variant", J::Str(def.variant(vidx).name.to_string())),
                            ("discr", J::Int(tag as i128)),
                        ]));
                    }
                }
            }
        }
        None
    }

    fn bytes_j(&self, bytes: Vec<u8>, ty: Ty<'tcx>) -> J {
        if bytes.len() <= 16 && !bytes.is_empty() {
            let mut tag: u128 = 0;
            for (i, b) in bytes.iter().enumerate() {
                tag |= (*b as u128) << (8 * i);
            }
            if let Some(j) = self.enum_variant_j(ty, tag) {
                return j;
            }
        }
        let is_str = match ty.kind() {
            ty::Ref(_, inner, _) => inner.is_str(),
            _ => false,
        };
        if is_str {
            if let Ok(s) = String::from_utf8(bytes.clone()) {
                return J::obj(vec![("k", J::s("str")), ("v", J::Str(s)), ("hex", J::Str(hex(&bytes)))]);
            }
        }
        J::obj(vec![("k", J::s("bytes")), ("hex", J::Str(hex(&bytes)))])
    }

    /// `Option<&T>` (T an integer type) stored at `off` in allocation `alloc_id`: Some(&v) -> {"k":"optref","v":v}, None -> {"k":"optref"}.
    fn opt_ref_int_j(&self, opt_ty: Ty<'tcx>, alloc_id: mir::interpret::AllocId, off: u64) -> Option<J> {
        let (def, args) = match opt_ty.kind() {
            ty::Adt(def, args) => (def, args),
            _ => return None,
        };
        if self.tcx.def_path_str(def.did()) != "std::option::Option" {
            return None;
        }
        let pointee = match args.type_at(0).kind() {
            ty::Ref(_, t, _) if t.is_integral() => *t,
            _ => return None,
        };
        let width = self.tcx.layout_of(TypingEnv::fully_monomorphized().as_query_input(pointee)).ok()?.size.bytes();
        if let Some(GlobalAlloc::Memory(m)) = self.tcx.try_get_global_alloc(alloc_id) {
            let a = m.inner();
            let psz = self.tcx.data_layout.pointer_size().bytes();
            if off + psz > a.len() as u64 {
                return None;
            }
            let raw = a.inspect_with_uninit_and_ptr_outside_interpreter(off as usize..(off + psz) as usize);
            let mut base: u64 = 0;
            for i in 0..psz as usize {
                base |= (raw[i] as u64) << (8 * i);
            }
            match a.provenance().ptrs().iter().find(|(po, _)| po.bytes() == off).map(|(_, p)| p.alloc_id()) {
                Some(t) => {
                    let b = self.alloc_bytes(t, base, Some(width))?;
                    let mut v: u128 = 0;
                    for (i, x) in b.iter().enumerate() {
                        v |= (*x as u128) << (8 * i);
                    }
                    return Some(J::obj(vec![("k", J::s("optref")), ("v", J::Int(v as i128))]));
                }
                None if base == 0 => return Some(J::obj(vec![("k", J::s("optref"))])),
                None => return None,
            }
        }
        None
    }

    fn read_uint(&self, alloc_id: mir::interpret::AllocId, off: u64, width: u64) -> Option<u128> {
        let b = self.alloc_bytes(alloc_id, off, Some(width))?;
        let mut v: u128 = 0;
        for (i, x) in b.iter().enumerate() {
            v |= (*x as u128) << (8 * i);
        }
        Some(v)
    }

    /// A tuple of unsigned integers -> {"k":"inttuple","v":[..]};  `Option<uN>` -> {"k":"optint","v":n} / {"k":"optint"} (None).
    fn int_aggregate_j(&self, t: Ty<'tcx>, alloc_id: mir::interpret::AllocId, off: u64) -> Option<J> {
        let layout = self.tcx.layout_of(TypingEnv::fully_monomorphized().as_query_input(t)).ok()?;
        match t.kind() {
            ty::Tuple(fields) if !fields.is_empty() && fields.iter().all(|f| matches!(f.kind(), ty::Uint(_))) => {
                let mut out = Vec::new();
                for (i, f) in fields.iter().enumerate() {
                    let fl = self.tcx.layout_of(TypingEnv::fully_monomorphized().as_query_input(f)).ok()?;
                    let v = self.read_uint(alloc_id, off + layout.fields.offset(i).bytes(), fl.size.bytes())?;
                    out.push(J::Int(v as i128));
                }
                Some(J::obj(vec![("k", J::s("inttuple")), ("v", J::Arr(out))]))
            }
            ty::Adt(def, args) if self.tcx.def_path_str(def.did()) == "std::option::Option" && matches!(args.type_at(0).kind(), ty::Uint(_)) => {
                let pl = self.tcx.layout_of(TypingEnv::fully_monomorphized().as_query_input(args.type_at(0))).ok()?;
                // no niche in an unsigned integer: a direct tag in front, the payload behind it, both `align` wide apart
                if layout.size.bytes() != 2 * pl.size.bytes().max(layout.align.abi.bytes()) && layout.size.bytes() != pl.size.bytes() + layout.align.abi.bytes() {
                    return None;
                }
                let tag_w = layout.size.bytes() - layout.align.abi.bytes().max(pl.size.bytes());
                let tag = self.read_uint(alloc_id, off, tag_w.min(16))?;
                if tag == 0 {
                    return Some(J::obj(vec![("k", J::s("optint"))]));
                }
                if tag != 1 {
                    return None;
                }
                let v = self.read_uint(alloc_id, off + layout.size.bytes() - pl.size.bytes(), pl.size.bytes())?;
                Some(J::obj(vec![("k", J::s("optint")), ("v", J::Int(v as i128))]))
            }
            _ => None,
        }
    }

    /// Bytes behind a `&[u8]` / `&str` fat pointer stored at `off` in allocation `alloc_id`.
    fn follow_fat(&self, alloc_id: mir::interpret::AllocId, off: u64) -> Option<Vec<u8>> {
        if let Some(GlobalAlloc::Memory(m)) = self.tcx.try_get_global_alloc(alloc_id) {
            let a = m.inner();
            let psz = self.tcx.data_layout.pointer_size().bytes();
            if off + 2 * psz <= a.len() as u64 {
                let target = a
                    .provenance()
                    .ptrs()
                    .iter()
                    .find(|(o, _)| o.bytes() == off)
                    .map(|(_, p)| p.alloc_id())?;
                let raw = a.inspect_with_uninit_and_ptr_outside_interpreter(off as usize..(off + 2 * psz) as usize);
                let mut base: u64 = 0;
                let mut len: u64 = 0;
                for i in 0..psz as usize {
                    base |= (raw[i] as u64) << (8 * i);
                    len |= (raw[psz as usize + i] as u64) << (8 * i);
                }
                return self.alloc_bytes(target, base, Some(len));
            }
        }
        None
    }

    fn is_fat_u8(&self, ty: Ty<'tcx>) -> bool {
        match ty.kind() {
            ty::Ref(_, inner, _) => match inner.kind() {
                ty::Slice(e) => *e == self.tcx.types.u8,
                ty::Str => true,
                _ => false,
            },
            _ => false,
        }
    }

    fn const_value_j(&self, val: ConstValue, ty: Ty<'tcx>) -> J {
        match val {
            ConstValue::ZeroSized => J::obj(vec![("k", J::s("zst"))]),
            ConstValue::Scalar(Scalar::Int(si)) => {
                let size = si.size();
                if let Some(j) = self.enum_variant_j(ty, si.to_bits(size)) {
                    return j;
                }
                self.scalar_int_j(si.to_bits(size), size.bytes(), ty)
            }
            ConstValue::Scalar(Scalar::Ptr(ptr, _)) => {
                // e.g. &[u8; N] or &'static T: expose pointee bytes when it is plain memory
                let (prov, off) = ptr.into_raw_parts();
                let alloc_id = prov.alloc_id();
                // `&Option<&u8>` (promoted `&Some(&b'/')`, the right-hand side of `bytes.first() == Some(&b'/')`)
                if let ty::Ref(_, inner, _) = ty.kind() {
                    if let Some(j) = self.opt_ref_int_j(*inner, alloc_id, off.bytes()) {
                        return j;
                    }
                }
                // `&(usize, usize)` / `&Option<usize>` (promoted right-hand sides of `(a, b) == (0, N)`, `x.checked_sub(y) == Some(N)`)
                if let ty::Ref(_, inner, _) = ty.kind() {
                    if let Some(j) = self.int_aggregate_j(*inner, alloc_id, off.bytes()) {
                        return j;
                    }
                }
                // `&&str` / `&&[u8]` (a promoted reference to a string constant, e.g. the right-hand side of `s != "lit"`)
                if let ty::Ref(_, inner, _) = ty.kind() {
                    if self.is_fat_u8(*inner) {
                        if let Some(b) = self.follow_fat(alloc_id, off.bytes()) {
                            return self.bytes_j(b, *inner);
                        }
                    }
                    // `&&[u8; N]` (e.g. the right-hand side of `bytes == b"lit"`): a thin pointer stored in the allocation
                    if let ty::Ref(_, inner2, _) = inner.kind() {
                        if let ty::Array(e, n) = inner2.kind() {
                            if *e == self.tcx.types.u8 {
                                if let (Some(n), Some(GlobalAlloc::Memory(m))) = (n.try_to_target_usize(self.tcx), self.tcx.try_get_global_alloc(alloc_id)) {
                                    let a = m.inner();
                                    let o = off.bytes();
                                    let psz = self.tcx.data_layout.pointer_size().bytes();
                                    if o + psz <= a.len() as u64 {
                                        if let Some(t) = a.provenance().ptrs().iter().find(|(po, _)| po.bytes() == o).map(|(_, p)| p.alloc_id()) {
                                            let raw = a.inspect_with_uninit_and_ptr_outside_interpreter(o as usize..(o + psz) as usize);
                                            let mut base: u64 = 0;
                                            for i in 0..psz as usize {
                                                base |= (raw[i] as u64) << (8 * i);
                                            }
                                            if let Some(b) = self.alloc_bytes(t, base, Some(n)) {
                                                return self.bytes_j(b, *inner);
                                            }
                                        }
                                    }
                                }
                            }
                        }
                    }
                }
                let want_len = match ty.kind() {
                    ty::Ref(_, inner, _) => match inner.kind() {
                        ty::Array(_, n) => n.try_to_target_usize(self.tcx),
                        ty::Adt(def, _) if def.is_enum() => self
                            .tcx
                            .layout_of(TypingEnv::fully_monomorphized().as_query_input(*inner))
                            .ok()
                            .map(|l| l.size.bytes()),
                        _ => None,
                    },
                    _ => None,
                };
                match self.tcx.try_get_global_alloc(alloc_id) {
                    Some(GlobalAlloc::Function { instance }) => J::obj(vec![
                        ("k", J::s("fnptr")),
                        ("path", J::Str(self.tcx.def_path_str(instance.def_id()))),
                    ]),
                    Some(GlobalAlloc::Static(did)) if want_len.is_none() => J::obj(vec![
                        ("k", J::s("static")),
                        ("path", J::Str(self.tcx.def_path_str(did))),
                    ]),
                    _ => match self.alloc_bytes(alloc_id, off.bytes(), want_len) {
                        Some(b) => self.bytes_j(b, ty),
                        None => J::obj(vec![("k", J::s("ptr"))]),
                    },
                }
            }
            ConstValue::Slice { alloc_id, meta } => {
                let elem = match ty.kind() {
                    ty::Ref(_, inner, _) => match inner.kind() {
                        ty::Slice(e) => {
                            if *e == self.tcx.types.u8 { 1 } else { 0 }
                        }
                        ty::Str => 1,
                        _ => 0,
                    },
                    _ => 0,
                };
                if elem == 1 {
                    match self.alloc_bytes(alloc_id, 0, None) {
                        Some(b) => {
                            let n = (meta as usize).min(b.len());
                            self.bytes_j(b[..n].to_vec(), ty)
                        }
                        None => J::obj(vec![("k", J::s("slice")), ("len", J::Int(meta as i128))]),
                    }
                } else {
                    J::obj(vec![("k", J::s("slice")), ("len", J::Int(meta as i128))])
                }
            }
            ConstValue::Indirect { alloc_id, offset } => {
                // a by-reference constant: for &[u8] / &str (a fat pointer stored in the allocation) follow the
                // pointer and expose the bytes; everything else stays opaque
                let fat_u8 = match ty.kind() {
                    ty::Ref(_, inner, _) => match inner.kind() {
                        ty::Slice(e) => *e == self.tcx.types.u8,
                        ty::Str => true,
                        _ => false,
                    },
                    _ => false,
                };
                if fat_u8 {
                    if let Some(GlobalAlloc::Memory(m)) = self.tcx.try_get_global_alloc(alloc_id) {
                        let a = m.inner();
                        let off = offset.bytes();
                        let psz = self.tcx.data_layout.pointer_size().bytes();
                        if off + 2 * psz <= a.len() as u64 {
                            let target = a
                                .provenance()
                                .ptrs()
                                .iter()
                                .find(|(o, _)| o.bytes() == off)
                                .map(|(_, p)| p.alloc_id());
                            let raw = a.inspect_with_uninit_and_ptr_outside_interpreter(off as usize..(off + 2 * psz) as usize);
                            let mut base: u64 = 0;
                            let mut len: u64 = 0;
                            for i in 0..psz as usize {
                                base |= (raw[i] as u64) << (8 * i);
                                len |= (raw[psz as usize + i] as u64) << (8 * i);
                            }
                            if let Some(t) = target {
                                if let Some(b) = self.alloc_bytes(t, base, Some(len)) {
                                    return self.bytes_j(b, ty);
                                }
                            }
                        }
                    }
                }
                // a by-value array of one-byte elements (u8, or field-less enums such as a table `[Method; 3]` of all values):
                // expose the bytes; the reader maps them to variants through the discriminants
                if let ty::Array(elem, n) = ty.kind() {
                    if let (Some(n), Ok(l)) = (
                        n.try_to_target_usize(self.tcx),
                        self.tcx.layout_of(TypingEnv::fully_monomorphized().as_query_input(*elem)),
                    ) {
                        let fieldless = match elem.kind() {
                            ty::Adt(def, _) => def.is_enum() && def.variants().iter().all(|v| v.fields.is_empty()),
                            ty::Uint(_) => true,
                            _ => false,
                        };
                        if l.size.bytes() == 1 && fieldless {
                            if let Some(b) = self.alloc_bytes(alloc_id, offset.bytes(), Some(n)) {
                                return J::obj(vec![("k", J::s("bytes")), ("hex", J::Str(hex(&b)))]);
                            }
                        }
                    }
                }
                J::obj(vec![("k", J::s("indirect"))])
            }
        }
    }

    fn const_j(&self, c: &Const<'tcx>, env: TypingEnv<'tcx>, span: Span) -> J {
        let ty = c.ty();
        let mut v: Vec<(&str, J)> = vec![("k", J::s("const")), ("ty", J::Str(self.ty_s(ty)))];
        if let ty::FnDef(did, args) = ty.kind() {
            v.push((
                "val",
                J::obj(vec![
                    ("k", J::s("fn")),
                    ("path", J::Str(self.tcx.def_path_str(*did))),
                    ("full", J::Str(self.tcx.def_path_str_with_args(*did, args))),
                ]),
            ));
            return J::obj(v);
        }
        if let Const::Unevaluated(u, _) = c {
            if u.promoted.is_none() {
                v.push(("item", J::Str(self.tcx.def_path_str(u.def))));
            } else {
                v.push(("promoted", J::Bool(true)));
            }
        }
        let val = match c.eval(self.tcx, env, span) {
            Ok(val) => self.const_value_j(val, ty),
            Err(_) => J::obj(vec![("k", J::s("generic")), ("s", J::Str(format!("{}", c)))]),
        };
        v.push(("val", val));
        J::obj(v)
    }

    // ----- places / operands ------------------------------------------------------------------
    fn place_j(&self, body: &Body<'tcx>, p: &Place<'tcx>) -> J {
        let tcx = self.tcx;
        let mut pty = PlaceTy::from_ty(body.local_decls[p.local].ty);
        let mut proj = Vec::new();
        for elem in p.projection.iter() {
            let j = match elem {
                ProjectionElem::Deref => J::obj(vec![("k", J::s("deref"))]),
                ProjectionElem::Field(f, fty) => {
                    let name = match pty.ty.kind() {
                        ty::Adt(def, _) => {
                            let vidx = pty.variant_index.unwrap_or(rustc_abi::FIRST_VARIANT);
                            def.variant(vidx).fields[f].name.to_string()
                        }
                        _ => format!("{}", f.as_u32()),
                    };
                    let of = match pty.ty.kind() {
                        ty::Adt(def, _) => J::Str(tcx.def_path_str(def.did())),
                        ty::Closure(d, _) => J::Str(tcx.def_path_str(*d)),
                        ty::Tuple(_) => J::s("tuple"),
                        _ => J::Null,
                    };
                    J::obj(vec![
                        ("k", J::s("field")),
                        ("idx", J::Int(f.as_u32() as i128)),
                        ("name", J::Str(name)),
                        ("of", of),
                        ("ty", J::Str(self.ty_s(fty))),
                    ])
                }
                ProjectionElem::Index(l) => {
                    J::obj(vec![("k", J::s("index")), ("local", J::Int(l.as_u32() as i128))])
                }
                ProjectionElem::ConstantIndex { offset, min_length, from_end } => J::obj(vec![
                    ("k", J::s("constidx")),
                    ("offset", J::Int(offset as i128)),
                    ("min_len", J::Int(min_length as i128)),
                    ("from_end", J::Bool(from_end)),
                ]),
                ProjectionElem::Subslice { from, to, from_end } => J::obj(vec![
                    ("k", J::s("subslice")),
                    ("from", J::Int(from as i128)),
                    ("to", J::Int(to as i128)),
                    ("from_end", J::Bool(from_end)),
                ]),
                ProjectionElem::Downcast(name, vidx) => {
                    let n = match (name, pty.ty.kind()) {
                        (Some(s), _) => s.to_string(),
                        (None, ty::Adt(def, _)) => def.variant(vidx).name.to_string(),
                        _ => format!("{}", vidx.as_u32()),
                    };
                    J::obj(vec![
                        ("k", J::s("downcast")),
                        ("variant", J::Str(n)),
                        ("vidx", J::Int(vidx.as_u32() as i128)),
                    ])
                }
                ProjectionElem::OpaqueCast(_) => J::obj(vec![("k", J::s("opaquecast"))]),
                ProjectionElem::UnwrapUnsafeBinder(_) => J::obj(vec![("k", J::s("unwrapbinder"))]),
            };
            proj.push(j);
            pty = pty.projection_ty(tcx, elem);
        }
        J::obj(vec![
            ("local", J::Int(p.local.as_u32() as i128)),
            ("proj", J::Arr(proj)),
        ])
    }

    fn op_j(&self, body: &Body<'tcx>, env: TypingEnv<'tcx>, o: &Operand<'tcx>) -> J {
        match o {
            Operand::Copy(p) => J::obj(vec![("k", J::s("copy")), ("place", self.place_j(body, p))]),
            Operand::Move(p) => J::obj(vec![("k", J::s("move")), ("place", self.place_j(body, p))]),
            Operand::Constant(c) => self.const_j(&c.const_, env, c.span),
            #[allow(unreachable_patterns)]
            _ => J::obj(vec![("k", J::s("otherop")), ("s", J::Str(format!("{:?}", o)))]),
        }
    }

    fn adt_variant_name(&self, did: DefId, vidx: rustc_abi::VariantIdx) -> String {
        self.tcx.adt_def(did).variant(vidx).name.to_string()
    }

    fn rvalue_j(&self, body: &Body<'tcx>, env: TypingEnv<'tcx>, rv: &Rvalue<'tcx>) -> J {
        let tcx = self.tcx;
        match rv {
            Rvalue::Use(o, ..) => J::obj(vec![("k", J::s("use")), ("op", self.op_j(body, env, o))]),
            Rvalue::Repeat(o, n) => J::obj(vec![
                ("k", J::s("repeat")),
                ("op", self.op_j(body, env, o)),
                (
                    "n",
                    match n.try_to_target_usize(tcx) {
                        Some(n) => J::Int(n as i128),
                        None => J::Null,
                    },
                ),
            ]),
            Rvalue::Ref(_, bk, p) => J::obj(vec![
                ("k", J::s("ref")),
                ("mut", J::Bool(matches!(bk, mir::BorrowKind::Mut { .. }))),
                ("place", self.place_j(body, p)),
            ]),
            Rvalue::RawPtr(kind, p) => J::obj(vec![
                ("k", J::s("rawptr")),
                ("mut", J::Bool(matches!(kind, mir::RawPtrKind::Mut))),
                ("place", self.place_j(body, p)),
            ]),
            Rvalue::Cast(kind, o, ty) => J::obj(vec![
                ("k", J::s("cast")),
                ("kind", J::Str(format!("{:?}", kind))),
                ("op", self.op_j(body, env, o)),
                ("ty", self.ty_j(*ty, 2)),
                ("from", self.ty_j(o.ty(&body.local_decls, tcx), 2)),
            ]),
            Rvalue::BinaryOp(op, ab) => J::obj(vec![
                ("k", J::s("binop")),
                ("op", J::Str(format!("{:?}", op))),
                ("l", self.op_j(body, env, &ab.0)),
                ("r", self.op_j(body, env, &ab.1)),
            ]),
            Rvalue::UnaryOp(op, o) => J::obj(vec![
                ("k", J::s("unop")),
                ("op", J::Str(format!("{:?}", op))),
                ("arg", self.op_j(body, env, o)),
            ]),
            Rvalue::Discriminant(p) => {
                J::obj(vec![("k", J::s("discr")), ("place", self.place_j(body, p))])
            }
            Rvalue::Aggregate(kind, ops) => {
                let mut v: Vec<(&str, J)> = vec![("k", J::s("aggregate"))];
                match &**kind {
                    AggregateKind::Array(_) => v.push(("agg", J::s("array"))),
                    AggregateKind::Tuple => v.push(("agg", J::s("tuple"))),
                    AggregateKind::Adt(did, vidx, _, _, _) => {
                        v.push(("agg", J::s("adt")));
                        v.push(("adt", J::Str(tcx.def_path_str(*did))));
                        v.push(("variant", J::Str(self.adt_variant_name(*did, *vidx))));
                        v.push(("vidx", J::Int(vidx.as_u32() as i128)));
                        let def = tcx.adt_def(*did);
                        let names: Vec<J> = def
                            .variant(*vidx)
                            .fields
                            .iter()
                            .map(|f| J::Str(f.name.to_string()))
                            .collect();
                        v.push(("fields", J::Arr(names)));
                    }
                    AggregateKind::Closure(did, _) => {
                        v.push(("agg", J::s("closure")));
                        v.push(("path", J::Str(tcx.def_path_str(*did))));
                    }
                    AggregateKind::RawPtr(..) => v.push(("agg", J::s("rawptr"))),
                    _ => v.push(("agg", J::s("other"))),
                }
                v.push(("ops", J::Arr(ops.iter().map(|o| self.op_j(body, env, o)).collect())));
                J::obj(v)
            }
            Rvalue::CopyForDeref(p) => {
                J::obj(vec![("k", J::s("use")), ("op", J::obj(vec![("k", J::s("copy")), ("place", self.place_j(body, p))]))])
            }
            Rvalue::ThreadLocalRef(did) => {
                J::obj(vec![("k", J::s("tls")), ("path", J::Str(tcx.def_path_str(*did)))])
            }
            _ => J::obj(vec![("k", J::s("other")), ("s", J::Str(format!("{:?}", rv)))]),
        }
    }

    // ----- bodies ------------------------------------------------------------------------------
    fn callee_j(&self, body: &Body<'tcx>, env: TypingEnv<'tcx>, func: &Operand<'tcx>) -> J {
        let tcx = self.tcx;
        let fty = func.ty(&body.local_decls, tcx);
        match fty.kind() {
            ty::FnDef(did, args) => self.fndef_j(env, *did, args),
            ty::FnPtr(..) => J::obj(vec![
                ("how", J::s("fnptr")),
                ("op", self.op_j(body, env, func)),
            ]),
            _ => J::obj(vec![("how", J::s("unknown")), ("ty", J::Str(self.ty_s(fty)))]),
        }
    }

    fn fndef_j(&self, env: TypingEnv<'tcx>, did: DefId, args: GenericArgsRef<'tcx>) -> J {
        let tcx = self.tcx;
        let mut v: Vec<(&str, J)> = vec![
            ("path", J::Str(tcx.def_path_str(did))),
            ("full", J::Str(tcx.def_path_str_with_args(did, args))),
            ("local", J::Bool(did.is_local())),
        ];
        v.push((
            "targs",
            J::Arr(args.types().map(|t| self.ty_j(t, 3)).collect()),
        ));
        // trait method?
        let mut how = "direct";
        if let Some(tr) = tcx.trait_of_assoc(did) {
            v.push(("trait", J::Str(tcx.def_path_str(tr))));
            if args.len() > 0 {
                if let Some(st) = args.get(0).and_then(|a| a.as_type()) {
                    v.push(("self_ty", self.ty_j(st, 3)));
                    if matches!(st.kind(), ty::Dynamic(..)) {
                        how = "virtual";
                    }
                }
            }
        }
        if let Some(imp) = tcx.impl_of_assoc(did) {
            let sty = tcx.type_of(imp).instantiate_identity().skip_norm_wip();
            v.push(("impl_self", J::Str(self.ty_s(sty))));
        }
        // resolution
        let resolved = match Instance::try_resolve(tcx, env, did, args) {
            Ok(Some(inst)) => {
                let rd = inst.def_id();
                let mut r: Vec<(&str, J)> = vec![
                    ("path", J::Str(tcx.def_path_str(rd))),
                    ("local", J::Bool(rd.is_local())),
                    ("kind", J::Str(format!("{:?}", std::mem::discriminant(&inst.def)).chars().take(0).collect::<String>())),
                ];
                r[2] = ("kind", J::Str(instance_kind(&inst)));
                if let Some(imp) = tcx.impl_of_assoc(rd) {
                    let sty = tcx.type_of(imp).instantiate_identity().skip_norm_wip();
                    r.push(("impl_self", J::Str(self.ty_s(sty))));
                }
                J::obj(r)
            }
            _ => J::Null,
        };
        v.push(("resolved", resolved));
        v.push(("how", J::s(how)));
        // constructor functions (tuple struct / variant ctors used as fn values)
        if let DefKind::Ctor(of, _) = tcx.def_kind(did) {
            let parent = tcx.parent(did);
            v.push(("ctor", J::Str(format!("{:?}", of))));
            v.push(("ctor_of", J::Str(tcx.def_path_str(parent))));
        }
        J::obj(v)
    }

    fn fn_j(&self, ldid: LocalDefId, kind: DefKind, body: &Body<'tcx>) -> J {
        let tcx = self.tcx;
        let did = ldid.to_def_id();
        let env = TypingEnv::post_analysis(tcx, did);
        let kind_s = match kind {
            DefKind::Fn => "fn",
            DefKind::AssocFn => "assoc",
            DefKind::Closure => "closure",
            _ => "other",
        };
        let (vis, is_unsafe) = match kind {
            DefKind::Fn | DefKind::AssocFn => {
                let sig = tcx.fn_sig(did).instantiate_identity().skip_norm_wip();
                (self.vis_s(did), sig.safety().is_unsafe())
            }
            _ => ("priv".to_string(), false),
        };
        let (impl_of, trait_impl) = match kind {
            DefKind::AssocFn => match tcx.impl_of_assoc(did) {
                Some(imp) => {
                    let sty = tcx.type_of(imp).instantiate_identity().skip_norm_wip();
                    let tr = tcx
                        .impl_opt_trait_ref(imp)
                        .map(|t| tcx.def_path_str(t.skip_binder().def_id));
                    let p = match sty.kind() {
                        ty::Adt(d, _) => tcx.def_path_str(d.did()),
                        _ => self.ty_s(sty),
                    };
                    (Some(p), tr)
                }
                None => (None, None),
            },
            _ => (None, None),
        };
        let parent = if matches!(kind, DefKind::Closure) {
            Some(tcx.def_path_str(tcx.typeck_root_def_id(did)))
        } else {
            None
        };

        // debug names
        let mut names: Vec<Option<String>> = vec![None; body.local_decls.len()];
        let mut dbg = Vec::new();
        for vdi in body.var_debug_info.iter() {
            if let mir::VarDebugInfoContents::Place(p) = &vdi.value {
                if p.projection.is_empty() {
                    names[p.local.as_usize()] = Some(vdi.name.to_string());
                }
                dbg.push(J::obj(vec![
                    ("name", J::Str(vdi.name.to_string())),
                    ("place", self.place_j(body, p)),
                ]));
            }
        }

        let locals: Vec<J> = body
            .local_decls
            .iter_enumerated()
            .map(|(l, d)| {
                J::obj(vec![
                    ("ty", self.ty_j(d.ty, 4)),
                    ("name", J::opt_s(names[l.as_usize()].clone())),
                    ("mut", J::Bool(d.mutability.is_mut())),
                ])
            })
            .collect();

        let blocks: Vec<J> = body
            .basic_blocks
            .iter()
            .map(|bb| self.block_j(body, env, bb))
            .collect();

        J::obj(vec![
            ("kind", J::s(kind_s)),
            ("vis", J::Str(vis)),
            ("unsafe", J::Bool(is_unsafe)),
            ("impl_of", J::opt_s(impl_of)),
            ("trait_impl", J::opt_s(trait_impl)),
            ("parent", J::opt_s(parent)),
            ("span", self.span_j(body.span)),
            ("arg_count", J::Int(body.arg_count as i128)),
            ("locals", J::Arr(locals)),
            ("debug", J::Arr(dbg)),
            ("blocks", J::Arr(blocks)),
        ])
    }

    fn block_j(&self, body: &Body<'tcx>, env: TypingEnv<'tcx>, bb: &BasicBlockData<'tcx>) -> J {
        let mut stmts = Vec::new();
        for st in bb.statements.iter() {
            match &st.kind {
                StatementKind::Assign(b) => {
                    let (p, rv) = &**b;
                    stmts.push(J::obj(vec![
                        ("k", J::s("assign")),
                        ("place", self.place_j(body, p)),
                        ("rv", self.rvalue_j(body, env, rv)),
                        ("span", self.span_j(st.source_info.span)),
                    ]));
                }
                StatementKind::SetDiscriminant { place, variant_index } => {
                    stmts.push(J::obj(vec![
                        ("k", J::s("setdiscr")),
                        ("place", self.place_j(body, place)),
                        ("vidx", J::Int(variant_index.as_u32() as i128)),
                        ("span", self.span_j(st.source_info.span)),
                    ]));
                }
                StatementKind::Intrinsic(i) => {
                    stmts.push(J::obj(vec![
                        ("k", J::s("intrinsic")),
                        ("s", J::Str(format!("{:?}", i))),
                        ("span", self.span_j(st.source_info.span)),
                    ]));
                }
                _ => {}
            }
        }
        let term = bb.terminator();
        let sp = self.span_j(term.source_info.span);
        let bbj = |b: &mir::BasicBlock| J::Int(b.as_u32() as i128);
        let unwind_j = |u: &mir::UnwindAction| match u {
            mir::UnwindAction::Cleanup(b) => J::Int(b.as_u32() as i128),
            _ => J::Null,
        };
        let t = match &term.kind {
            TerminatorKind::Goto { target } => J::obj(vec![("k", J::s("goto")), ("target", bbj(target))]),
            TerminatorKind::SwitchInt { discr, targets } => {
                let dty = discr.ty(&body.local_decls, self.tcx);
                let ts: Vec<J> = targets
                    .iter()
                    .map(|(v, b)| J::Arr(vec![J::Int(v as i128), bbj(&b)]))
                    .collect();
                J::obj(vec![
                    ("k", J::s("switch")),
                    ("discr", self.op_j(body, env, discr)),
                    ("ty", J::Str(self.ty_s(dty))),
                    ("targets", J::Arr(ts)),
                    ("otherwise", bbj(&targets.otherwise())),
                ])
            }
            TerminatorKind::Return => J::obj(vec![("k", J::s("return"))]),
            TerminatorKind::Unreachable => J::obj(vec![("k", J::s("unreachable"))]),
            TerminatorKind::UnwindResume => J::obj(vec![("k", J::s("resume"))]),
            TerminatorKind::UnwindTerminate(_) => J::obj(vec![("k", J::s("terminate"))]),
            TerminatorKind::Drop { place, target, unwind, .. } => J::obj(vec![
                ("k", J::s("drop")),
                ("place", self.place_j(body, place)),
                ("target", bbj(target)),
                ("unwind", unwind_j(unwind)),
            ]),
            TerminatorKind::Call { func, args, destination, target, unwind, .. } => J::obj(vec![
                ("k", J::s("call")),
                ("callee", self.callee_j(body, env, func)),
                (
                    "args",
                    J::Arr(args.iter().map(|a| self.op_j(body, env, &a.node)).collect()),
                ),
                ("dest", self.place_j(body, destination)),
                (
                    "target",
                    match target {
                        Some(b) => bbj(b),
                        None => J::Null,
                    },
                ),
                ("unwind", unwind_j(unwind)),
            ]),
            TerminatorKind::Assert { cond, expected, msg, target, unwind } => {
                let m = match &**msg {
                    AssertKind::BoundsCheck { len, index } => J::obj(vec![
                        ("k", J::s("bounds")),
                        ("len", self.op_j(body, env, len)),
                        ("index", self.op_j(body, env, index)),
                    ]),
                    AssertKind::Overflow(op, l, r) => J::obj(vec![
                        ("k", J::s("overflow")),
                        ("ty", J::Str(self.ty_s(l.ty(&body.local_decls, self.tcx)))),
                        ("op", J::Str(format!("{:?}", op))),
                        ("l", self.op_j(body, env, l)),
                        ("r", self.op_j(body, env, r)),
                    ]),
                    AssertKind::OverflowNeg(o) => {
                        J::obj(vec![("k", J::s("overflow_neg")), ("arg", self.op_j(body, env, o))])
                    }
                    AssertKind::DivisionByZero(o) => {
                        J::obj(vec![("k", J::s("divzero")), ("arg", self.op_j(body, env, o))])
                    }
                    AssertKind::RemainderByZero(o) => {
                        J::obj(vec![("k", J::s("remzero")), ("arg", self.op_j(body, env, o))])
                    }
                    other => J::obj(vec![("k", J::s("other")), ("s", J::Str(format!("{:?}", other)))]),
                };
                J::obj(vec![
                    ("k", J::s("assert")),
                    ("cond", self.op_j(body, env, cond)),
                    ("expected", J::Bool(*expected)),
                    ("msg", m),
                    ("target", bbj(target)),
                    ("unwind", unwind_j(unwind)),
                ])
            }
            other => J::obj(vec![("k", J::s("otherterm")), ("s", J::Str(format!("{:?}", other)))]),
        };
        let mut tv = match t {
            J::Obj(v) => v,
            _ => unreachable!(),
        };
        tv.push(("span".to_string(), sp));
        J::obj(vec![
            ("cleanup", J::Bool(bb.is_cleanup)),
            ("stmts", J::Arr(stmts)),
            ("term", J::Obj(tv)),
        ])
    }
}

fn instance_kind(inst: &Instance<'_>) -> String {
    let s = format!("{:?}", inst.def);
    s.split(|c: char| c == '(' || c == ' ' || c == '{').next().unwrap_or("").to_string()
}

#[allow(dead_code)]
fn _unused(_: AllocRange) {}
