// Demonstrations of the three genuine defects found by the static rules (D1/C11, D2/C09, D3/C08).
// Copy to <scratch copy of /repo>/tests/d123.rs and run `cargo test --offline --test d123`:
// all three fail on the tree before the fix: commits (5c3869a) and pass on the repaired tree.
use micro_http::*;
use std::io::{Read, Write};
use std::os::unix::io::AsRawFd;
use std::os::unix::net::UnixStream;

fn sock(name: &str) -> String {
    let p = format!("/tmp/d123_{}_{}.sock", name, std::process::id());
    let _ = std::fs::remove_file(&p);
    p
}

#[test]
fn d1_rejected_request_not_delivered() {
    let (mut a, b) = UnixStream::pair().unwrap();
    let mut c = HttpConnection::new(b);
    a.write_all(b"GET /rejected HTTP/1.1\r\nContent-Length: x\r\n").unwrap();
    assert!(c.try_read().is_err());
    a.write_all(b"\r\n").unwrap();
    let _ = c.try_read();
    assert!(c.pop_parsed_request().is_none(), "rejected request delivered");
    a.write_all(b"GET /ok HTTP/1.1\r\n\r\n").unwrap();
    c.try_read().unwrap();
    let r = c.pop_parsed_request().unwrap();
    assert_eq!(r.uri().get_abs_path(), "/ok");
}

fn epoll_ready(server: &HttpServer) -> bool {
    let mut fds = [libc::pollfd { fd: server.epoll().as_raw_fd(), events: libc::POLLIN, revents: 0 }];
    unsafe { libc::poll(fds.as_mut_ptr(), 1, 100) > 0 }
}

#[test]
fn d2_closed_connection_out_event() {
    let p = sock("d2");
    let mut server = HttpServer::new(&p).unwrap();
    server.start_server().unwrap();
    let mut c = UnixStream::connect(&p).unwrap();
    assert!(server.requests().unwrap().is_empty());
    c.write_all(b"GET /a HTTP/1.1\r\n\r\nGET /b HTTP/1.1\r\n\r\n").unwrap();
    c.shutdown(std::net::Shutdown::Read).unwrap();
    let reqs = server.requests().unwrap();
    assert_eq!(reqs.len(), 2);
    let resp = reqs[0].process(|_| Response::new(Version::Http11, StatusCode::OK));
    server.respond(resp).unwrap();
    for _ in 0..4 {
        if !epoll_ready(&server) {
            break;
        }
        let r = server.requests();
        assert!(r.is_ok(), "requests failed: {:?}", r.err());
    }
    let resp = reqs[1].process(|_| Response::new(Version::Http11, StatusCode::OK));
    server.respond(resp).unwrap();
}

#[test]
fn d3_flush_rearms() {
    let p = sock("d3");
    let mut server = HttpServer::new(&p).unwrap();
    server.start_server().unwrap();
    let mut c = UnixStream::connect(&p).unwrap();
    assert!(server.requests().unwrap().is_empty());
    c.write_all(b"GET /a HTTP/1.1\r\n\r\n").unwrap();
    let reqs = server.requests().unwrap();
    assert_eq!(reqs.len(), 1);
    let resp = reqs[0].process(|_| Response::new(Version::Http11, StatusCode::OK));
    server.respond(resp).unwrap();
    server.flush_outgoing_writes();
    let mut buf = [0u8; 1024];
    let n = c.read(&mut buf).unwrap();
    assert!(n > 0);
    assert!(!epoll_ready(&server), "epoll fd signals readiness with nothing outstanding");
    c.write_all(b"GET /b HTTP/1.1\r\n\r\n").unwrap();
    assert!(epoll_ready(&server));
    assert_eq!(server.requests().unwrap().len(), 1);
}
