// Demonstration of the fourth genuine defect (D4/C09, also C18): at capacity the polling function accepts the
// extra client only to tell it 503 and propagated the failure of that write with `?`.  A client that connects
// and goes away before the server looks at the listener makes the write fail with EPIPE, so one client's
// behaviour made `requests()` return Err(IOError) -- also when the kill switch was already signalled.
// Copy to <scratch copy of /repo>/tests/d4.rs and run `cargo test --offline --test d4`:
// both tests fail before the fix: commit and pass on the repaired tree.
use micro_http::*;
use std::io::Write;
use std::os::unix::net::UnixStream;
use vmm_sys_util::eventfd::EventFd;

fn sock(name: &str) -> String {
    let p = format!("/tmp/d4_{}_{}.sock", name, std::process::id());
    let _ = std::fs::remove_file(&p);
    p
}

fn full_server(p: &str) -> (HttpServer, Vec<UnixStream>) {
    let mut server = HttpServer::new(p).unwrap();
    server.start_server().unwrap();
    let mut clients = vec![];
    for _ in 0..10 {
        clients.push(UnixStream::connect(p).unwrap());
        assert!(server.requests().unwrap().is_empty());
    }
    (server, clients)
}

#[test]
fn d4_refused_client_that_left_does_not_fail_the_poll() {
    let p = sock("a");
    let (mut server, mut clients) = full_server(&p);
    // the eleventh client connects and leaves at once
    drop(UnixStream::connect(&p).unwrap());
    // a witness among the ten sends a request in the same batch
    clients[3].write_all(b"GET /witness HTTP/1.1\r\n\r\n").unwrap();
    let mut yielded = 0;
    for _ in 0..3 {
        let r = server.requests();
        assert!(r.is_ok(), "requests() failed because of a client that left: {:?}", r.err());
        yielded += r.unwrap().len();
        if yielded == 1 {
            break;
        }
    }
    assert_eq!(yielded, 1);
}

#[test]
fn d4_shutdown_still_wins_at_capacity() {
    let p = sock("b");
    let (mut server, _clients) = full_server(&p);
    let kill = EventFd::new(libc::EFD_NONBLOCK).unwrap();
    server.add_kill_switch(kill.try_clone().unwrap()).unwrap();
    drop(UnixStream::connect(&p).unwrap());
    kill.write(1).unwrap();
    for _ in 0..3 {
        match server.requests() {
            Err(ServerError::ShutdownEvent) => {}
            other => panic!("expected the shutdown indication, got {:?}", other.map(|v| v.len())),
        }
    }
}
