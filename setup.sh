#!/bin/bash
# MANIFEST.setup_cmd: build the mirdump driver (offline, nightly toolchain with rustc-dev).
set -e
DIR="$(cd "$(dirname "${BASH_SOURCE[0]}")" && pwd)"
cd "$DIR/engine/mirdump"
CARGO_NET_OFFLINE=true cargo +nightly build --release --offline
test -x target/release/mirdump
mkdir -p "$DIR/engine/gen"      # generated files live here (not under version control)
python3 "$DIR/tools/gen_std_panics.py"
# positive controls: facts of the fixture crate (violates every rule whose expected count on the real tree is zero)
PYTHONPATH="$DIR/engine" python3 -c "
import shutil
from mhsa import runner
tmp, out = runner.extract('$DIR/engine/fixtures/poscontrol')
shutil.copy(out, '$DIR/engine/gen/fixture_facts.json')
shutil.rmtree(tmp)
print('fixture facts ok')
"
python3 -c "import sys; sys.path.insert(0, '$DIR/engine'); import mhsa.runner" 
echo "setup ok"
