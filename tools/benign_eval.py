#!/usr/bin/env python3
"""benign_eval.py <deliver dir> <prefix>: for every *.diff: apply to a scratch copy, run the 62 tests, run all
18 checks; print which rules alarm (they must not). Confirmed refactorings are stored under /verif/benign_seeded/."""
import contextlib, io, json, os, shutil, subprocess, sys, tempfile, glob
VERIF = os.path.abspath(os.path.join(os.path.dirname(__file__), ".."))
sys.path.insert(0, os.path.join(VERIF, "engine"))
from mhsa import runner
deliver, prefix = sys.argv[1], sys.argv[2]
for diff in sorted(glob.glob(os.path.join(deliver, "[A-Z].diff"))):
    letter = os.path.basename(diff)[0]
    sid = "%s-%s" % (prefix, letter.lower())
    tmp = tempfile.mkdtemp(prefix="benign.")
    root = os.path.join(tmp, "repo")
    subprocess.check_call(["rsync", "-a", "--exclude", "target", "--exclude", ".git", "/repo/", root + "/"])
    subprocess.check_call(["git", "init", "-q"], cwd=root)
    r = subprocess.run(["git", "apply", diff], cwd=root, stdout=subprocess.PIPE, stderr=subprocess.STDOUT, text=True)
    res = {"id": sid, "applies": r.returncode == 0}
    fired = {}
    if r.returncode == 0:
        p = subprocess.run("cargo test --offline --lib 2>&1 | grep -E '^test result' | head -1", cwd=root, shell=True, stdout=subprocess.PIPE, text=True)
        res["tests"] = p.stdout.strip()
        try:
            etmp, facts = runner.extract(root)
            for i in range(1, 19):
                pr = "C%02d" % i
                with contextlib.redirect_stdout(io.StringIO()):
                    rc, ctx = runner.run_property(pr, "quick", facts, write_evidence=False, repo=root, quiet=True)
                v = sorted({"%s: %s" % (o.rule, o.key[:70]) for o in ctx.obs if not o.ok})
                if v:
                    fired[pr] = v
            shutil.copy(facts, "/tmp/benign_%s.json" % sid)
            shutil.rmtree(etmp, ignore_errors=True)
        except runner.InfraError as e:
            fired = {"ERROR": [str(e)[-200:]]}
    shutil.rmtree(tmp, ignore_errors=True)
    res["alarms"] = fired
    ok = res["applies"] and "62 passed" in res.get("tests", "")
    if ok:
        dst = os.path.join(VERIF, "benign_seeded", sid)
        os.makedirs(dst, exist_ok=True)
        shutil.copy(diff, os.path.join(dst, "patch.diff"))
        md = diff.replace(".diff", ".md")
        if os.path.exists(md):
            shutil.copy(md, os.path.join(dst, "notes.md"))
        json.dump(res, open(os.path.join(dst, "meta.json"), "w"), indent=1)
    print(sid, "applies=%s" % res["applies"], res.get("tests", "")[:40], "SILENT" if not fired else "ALARMS %s" % json.dumps(fired)[:600])
