#!/usr/bin/env python3
"""benign_facts.py [id-substrings]: re-run all checks on the saved facts of the behaviour-preserving refactorings
(/tmp/benign_<id>.json, written by benign_eval.py); development aid, 16-way parallel."""
import contextlib, io, json, os, sys, glob
from concurrent.futures import ProcessPoolExecutor
VERIF = os.path.abspath(os.path.join(os.path.dirname(__file__), ".."))
sys.path.insert(0, os.path.join(VERIF, "engine"))
from mhsa import runner

def one(f):
    sid = os.path.basename(f)[7:-5]
    fired = {}
    for i in range(1, 19):
        pr = "C%02d" % i
        if os.environ.get("PROPS") and pr not in os.environ["PROPS"].split(","):
            continue
        try:
            with contextlib.redirect_stdout(io.StringIO()):
                rc, ctx = runner.run_property(pr, "quick", f, write_evidence=False, repo="/repo", quiet=True)
            v = sorted({"%s: %s" % (o.rule, o.key[:90]) for o in ctx.obs if not o.ok})
        except Exception as e:
            v = ["CRASH %r" % e]
        if v:
            fired[pr] = v
    return sid, fired

if __name__ == "__main__":
    pats = sys.argv[1:]
    files = sorted(f for f in glob.glob("/tmp/benign_*.json") if not pats or any(p in f for p in pats))
    n = 0
    with ProcessPoolExecutor(16) as ex:
        for sid, fired in ex.map(one, files):
            if fired:
                n += 1
                print(sid)
                for p, v in fired.items():
                    for x in v:
                        print("   ", p, x)
            else:
                print(sid, "SILENT")
    print("alarming: %d / %d" % (n, len(files)))
