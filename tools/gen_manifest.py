#!/usr/bin/env python3
"""Regenerate MANIFEST.json from the rule modules that exist (keeps it valid at all times)."""
import importlib, json, os, sys

VERIF = os.path.abspath(os.path.join(os.path.dirname(__file__), ".."))
sys.path.insert(0, os.path.join(VERIF, "engine"))
ids = [json.loads(l)["id"] for l in open(os.path.join(VERIF, "properties.jsonl"))]
checks, na = [], []
for i in ids:
    p = os.path.join(VERIF, "engine", "mhsa", "rules", i.lower() + ".py")
    if not os.path.exists(p):
        na.append({"property_id": i, "reason": "check under construction (see DESIGN.md section 3); not yet registered"})
        continue
    m = importlib.import_module("mhsa.rules." + i.lower())
    checks.append({
        "property_id": i,
        "quick_cmd": "./check %s --tier quick" % i,
        "thorough_cmd": "./check %s --tier thorough" % i,
        "evidence_file": "/verif/evidence/%s.json" % i,
        "replay_cmd_template": "./check %s --explain {path}" % i,
        "engine": "mhsa",
        "level_claimed": {
            "category": "other",
            "text": "Static verification of named structural clauses (necessary conditions) of the property, for all inputs/paths at once; decides those clauses, not the run-time behaviour. " + m.EXPLANATION,
            "design_ref": "DESIGN.md section 3, " + i,
        },
        "level_note": "Trusted: " + "; ".join(getattr(m, "TRUSTED", [])) + ". Not decided: " + getattr(m, "NOT_DECIDED", ""),
        "technique": getattr(m, "TECHNIQUE", "static analysis over type-checked MIR (rustc_private driver): CFG/dominator/control-dependence rules, path-sensitive dataflow, constant tables"),
    })
man = {
    "version": 1,
    "setup_cmd": "./setup.sh",
    "hooks": {
        "guard": "micro_http_verif",
        "enable": "none needed: the checks analyse the unmodified source (no instrumentation in /repo); the guard name is reserved only",
        "baseline_off_cmd": "cd /repo && cargo test --workspace --no-fail-fast --offline",
        "source_commits": [],
        "add_only": True,
    },
    "engines": [
        {"name": "mirdump", "path": "engine/mirdump", "serves_properties": [c["property_id"] for c in checks], "kind_free_text": "rustc_private driver (RUSTC_WORKSPACE_WRAPPER under cargo +nightly check) dumping MIR/ADTs/constants of /repo's current tree as JSON facts"},
        {"name": "mhsa", "path": "engine/mhsa", "serves_properties": [c["property_id"] for c in checks], "kind_free_text": "Python rule engine over the fact base: CFG, dominators, control dependence, inlined call graph, term reconstruction, constructor-shape analysis, path-sensitive dataflow, abstract interpretation"},
    ],
    "checks": checks,
    "not_applicable": na,
    "notes": "Technique family: static analysis only. Every check re-extracts facts from /repo's working tree on each run. Known findings: known_findings.json. See DESIGN.md.",
}
json.dump(man, open(os.path.join(VERIF, "MANIFEST.json"), "w"), indent=1)
print("checks:", [c["property_id"] for c in checks], "n/a:", [x["property_id"] for x in na])
