#!/usr/bin/env python3
"""Scan the toolchain's rust-src for `pub fn`s whose doc comment has a `# Panics` section.
Output: engine/gen/std_panics.json  {fn name: [files...]}  (generated at setup; used by C03's inventory rule)."""
import json, os, re, subprocess, sys
sysroot = subprocess.check_output(["rustc", "+nightly", "--print", "sysroot"], text=True).strip()
root = os.path.join(sysroot, "lib/rustlib/src/rust/library")
out = {}
fn_re = re.compile(r"^\s*(?:pub(?:\([a-z]+\))?\s+)?(?:const\s+)?(?:unsafe\s+)?(?:extern\s+\"[^\"]+\"\s+)?fn\s+([A-Za-z_][A-Za-z0-9_]*)")
for crate in ("core", "alloc", "std"):
    for dp, dn, fs in os.walk(os.path.join(root, crate, "src")):
        for f in fs:
            if not f.endswith(".rs"):
                continue
            p = os.path.join(dp, f)
            try:
                lines = open(p, encoding="utf-8", errors="replace").read().split("\n")
            except OSError:
                continue
            in_doc_panics = False
            for ln in lines:
                s = ln.strip()
                if s.startswith("///") or s.startswith("//!"):
                    if re.match(r"^///\s*#+\s*Panics", s):
                        in_doc_panics = True
                    continue
                if s.startswith("#[") or s == "":
                    continue
                m = fn_re.match(ln)
                if m and in_doc_panics:
                    out.setdefault(m.group(1), []).append(os.path.relpath(p, root))
                in_doc_panics = False
dst = os.path.join(os.path.dirname(__file__), "..", "engine", "gen", "std_panics.json")
json.dump(out, open(dst, "w"), indent=0, sort_keys=True)
print("std fns with a # Panics section: %d names" % len(out))
