#!/usr/bin/env python3
"""mutfacts.py <mutant-id> [benign]  -> writes /tmp/mut_<id>.json (facts of the mutated tree)"""
import sys, os, shutil
sys.path.insert(0, os.path.join(os.path.dirname(__file__), "..", "engine"))
from mhsa import selftest, runner
mid = sys.argv[1]
ms = selftest.load_mutants(len(sys.argv) > 2) 
m = [x for x in ms if x["id"] == mid][0]
tmp, root = selftest.scratch_copy()
print(selftest.apply_edit(root, m))
etmp, facts = runner.extract(root)
shutil.copy(facts, "/tmp/mut_%s.json" % mid)
shutil.rmtree(etmp); shutil.rmtree(tmp)
print("/tmp/mut_%s.json" % mid)
