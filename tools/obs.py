#!/usr/bin/env python3
"""obs.py <Cxx> <facts.json> [substring]: list the obligations (key, ok) a check produces on a fact file."""
import contextlib, io, os, sys
VERIF = os.path.abspath(os.path.join(os.path.dirname(__file__), ".."))
sys.path.insert(0, os.path.join(VERIF, "engine"))
from mhsa import runner
with contextlib.redirect_stdout(io.StringIO()):
    rc, ctx = runner.run_property(sys.argv[1], "quick", sys.argv[2], write_evidence=False, repo="/repo", quiet=True)
for o in ctx.obs:
    line = "%s %-6s %s  -- %s" % ("ok  " if o.ok else "FAIL", o.rule, o.key[:110], (o.msg if hasattr(o, "msg") else "")[:160])
    if len(sys.argv) < 4 or sys.argv[3] in line:
        print(line)
