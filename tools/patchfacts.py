#!/usr/bin/env python3
"""patchfacts.py <patch.diff> <out.json>: apply a patch to a scratch copy of /repo and extract its facts (development aid)."""
import os, shutil, subprocess, sys, tempfile
VERIF = os.path.abspath(os.path.join(os.path.dirname(__file__), ".."))
sys.path.insert(0, os.path.join(VERIF, "engine"))
from mhsa import runner
tmp = tempfile.mkdtemp(prefix="pf.")
root = os.path.join(tmp, "repo")
subprocess.check_call(["rsync", "-a", "--exclude", "target", "--exclude", ".git", "/repo/", root + "/"])
subprocess.check_call(["git", "init", "-q"], cwd=root)
subprocess.check_call(["git", "apply", os.path.abspath(sys.argv[1])], cwd=root)
etmp, facts = runner.extract(root)
shutil.copy(facts, sys.argv[2])
shutil.rmtree(etmp, ignore_errors=True)
shutil.rmtree(tmp, ignore_errors=True)
print("wrote", sys.argv[2])
