#!/bin/bash
# seed_batch.sh <round-dir> <prop> : evaluate deliver/{A,B,C}.diff of one worktree, ids <prop>-r2{a,b,c}
D=$1; P=$2; R=${3:-r2}
for L in A B C; do
  if [ -f $D/$P/deliver/$L.diff ]; then
    l=$(echo $L | tr A-Z a-z)
    python3 /verif/tools/seed_eval.py $D/$P/deliver $L $P-$R$l $P 2>&1 | python3 -c "
import sys,json
try:
    d=json.load(sys.stdin)
    print(d['id'], 'confirmed=',d.get('confirmed'), 'own=',d.get('caught_by_own_property'), d.get('checks_that_report_it'), '' if d.get('confirmed') else {k:str(d[k])[:300] for k in d if k in ('demo_on_unchanged_tree','demo_with_change','existing_tests_with_change','error','patch_applies')})
except Exception as e:
    print('EVAL-ERROR', e)"
  fi
done
