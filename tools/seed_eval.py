#!/usr/bin/env python3
"""Evaluate a sub-agent's seeded change: confirm it (existing tests pass, demo fails with / passes without),
run every check against it, and store it under /verif/seeded/<id>/.

usage: seed_eval.py <worktree deliver dir> <letter A|B> <seed id> <property>"""
import json, os, re, shutil, subprocess, sys, tempfile

VERIF = os.path.abspath(os.path.join(os.path.dirname(__file__), ".."))
sys.path.insert(0, os.path.join(VERIF, "engine"))
from mhsa import runner  # noqa


def sh(cmd, cwd, timeout=600):
    p = subprocess.run(cmd, cwd=cwd, shell=True, stdout=subprocess.PIPE, stderr=subprocess.STDOUT, text=True, timeout=timeout)
    return p.returncode, p.stdout


def scratch():
    tmp = tempfile.mkdtemp(prefix="seed.")
    dst = os.path.join(tmp, "repo")
    subprocess.check_call(["rsync", "-a", "--exclude", "target", "--exclude", ".git", "/repo/", dst + "/"])
    subprocess.check_call(["git", "init", "-q"], cwd=dst)
    return tmp, dst


def demo_target(demo_path):
    head = open(demo_path).read()[:1500]
    m = re.search(r"tests/([A-Za-z0-9_]+)\.rs", head)
    if m:
        return ("tests", m.group(1))
    m = re.search(r"(src/[A-Za-z0-9_/]+\.rs)", head)
    if m:
        return ("append", m.group(1))
    return ("tests", os.path.basename(demo_path).replace(".rs", "").lower())


def main():
    deliver, letter, sid, prop = sys.argv[1:5]
    diff = os.path.join(deliver, letter + ".diff")
    demo = os.path.join(deliver, letter + "_demo.rs")
    md = os.path.join(deliver, letter + ".md")
    res = {"id": sid, "property": prop, "source": "sub-agent (given only the property text and a scratch worktree)"}
    kind, name = demo_target(demo)
    res["demo_placement"] = "tests/%s.rs" % name if kind == "tests" else "appended to %s" % name
    tmp, root = scratch()
    try:
        def place_demo():
            if kind == "tests":
                os.makedirs(os.path.join(root, "tests"), exist_ok=True)
                shutil.copy(demo, os.path.join(root, "tests", name + ".rs"))
                return "cargo test --offline --test %s" % name
            with open(os.path.join(root, name), "a") as fh:
                fh.write("\n" + open(demo).read())
            return "cargo test --offline --lib"
        # 1. unchanged tree: demo passes
        cmd = place_demo()
        rc0, out0 = sh(cmd + " 2>&1 | tail -15", root)
        ok_unchanged = "test result: ok" in out0 and "FAILED" not in out0
        res["demo_on_unchanged_tree"] = "passes" if ok_unchanged else "DOES NOT PASS: " + out0[-400:]
        # reset
        shutil.rmtree(tmp)
        tmp2, root2 = scratch()
        globals()["_tmp"] = tmp2
        root = root2
        rc, out = sh("git apply %s" % diff, root)
        res["patch_applies"] = rc == 0
        if rc != 0:
            res["error"] = out[-400:]
            print(json.dumps(res, indent=1))
            return
        rc1, out1 = sh("cargo test --offline --lib 2>&1 | grep -E '^test result|FAILED' | head -5", root)
        res["existing_tests_with_change"] = out1.strip()
        # demo with change
        def place_demo2():
            if kind == "tests":
                os.makedirs(os.path.join(root, "tests"), exist_ok=True)
                shutil.copy(demo, os.path.join(root, "tests", name + ".rs"))
                return "cargo test --offline --test %s" % name
            with open(os.path.join(root, name), "a") as fh:
                fh.write("\n" + open(demo).read())
            return "cargo test --offline --lib"
        cmd = place_demo2()
        rc2, out2 = sh("timeout 120 " + cmd + " 2>&1 | tail -12", root)
        fails = "FAILED" in out2 or "panicked" in out2 or "timed out" in out2 or rc2 == 124
        res["demo_with_change"] = "fails" if fails else "DOES NOT FAIL: " + out2[-300:]
        # remove demo again for the static checks (they look at the lib only anyway)
        if kind == "tests":
            shutil.rmtree(os.path.join(root, "tests"), ignore_errors=True)
        else:
            sh("git checkout -- . 2>/dev/null; true", root)
            shutil.rmtree(tmp2)
            tmp2, root = scratch()
            sh("git apply %s" % diff, root)
        # 2. run every check
        fired = {}
        try:
            etmp, facts = runner.extract(root)
            import contextlib, io
            for i in range(1, 19):
                p = "C%02d" % i
                buf = io.StringIO()
                with contextlib.redirect_stdout(buf):
                    rc, ctx = runner.run_property(p, "quick", facts, write_evidence=False, repo=root, quiet=True)
                v = sorted({o.rule for o in ctx.obs if not o.ok})
                if v:
                    fired[p] = v
            shutil.rmtree(etmp, ignore_errors=True)
        except runner.InfraError as e:
            fired = {"ERROR": str(e)[-300:]}
        res["checks_that_report_it"] = fired
        res["caught_by_own_property"] = prop in fired
        shutil.rmtree(tmp2, ignore_errors=True)
    finally:
        shutil.rmtree(tmp, ignore_errors=True)
    confirmed = ok_unchanged and res.get("patch_applies") and "62 passed" in res.get("existing_tests_with_change", "") and res.get("demo_with_change") == "fails"
    res["confirmed"] = bool(confirmed)
    if confirmed:
        dst = os.path.join(VERIF, "seeded", sid)
        os.makedirs(dst, exist_ok=True)
        shutil.copy(diff, os.path.join(dst, "patch.diff"))
        shutil.copy(demo, os.path.join(dst, "demo.rs"))
        if os.path.exists(md):
            shutil.copy(md, os.path.join(dst, "notes.md"))
        res["needs_to_manifest"] = open(md).read()[:1500] if os.path.exists(md) else ""
        res["what_was_run"] = ["scratch copy of /repo HEAD; git apply patch.diff", "cargo test --offline --lib (62 existing tests)", res["demo_placement"] + " with and without the change", "all 18 ./check rules on the changed tree (facts re-extracted)"]
        json.dump(res, open(os.path.join(dst, "meta.json"), "w"), indent=1)
    out = dict(res)
    out.pop("needs_to_manifest", None)
    print(json.dumps(out, indent=1))


main()
