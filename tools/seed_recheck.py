#!/usr/bin/env python3
"""Re-run all checks against every stored seeded change (8 at a time) and update meta.json; print a table.
usage: seed_recheck.py [id-prefix ...]"""
import contextlib, io, json, os, shutil, subprocess, sys, tempfile
from concurrent.futures import ProcessPoolExecutor
VERIF = os.path.abspath(os.path.join(os.path.dirname(__file__), ".."))
sys.path.insert(0, os.path.join(VERIF, "engine"))
from mhsa import runner


def job(sid):
    d = os.path.join(VERIF, "seeded", sid)
    tmp = tempfile.mkdtemp(prefix="seedre.")
    root = os.path.join(tmp, "repo")
    fired = {}
    try:
        subprocess.check_call(["rsync", "-a", "--exclude", "target", "--exclude", ".git", "/repo/", root + "/"])
        subprocess.check_call(["git", "init", "-q"], cwd=root)
        r = subprocess.run(["git", "apply", os.path.join(d, "patch.diff")], cwd=root)
        if r.returncode == 0:
            try:
                etmp, facts = runner.extract(root)
                for i in range(1, 19):
                    p = "C%02d" % i
                    with contextlib.redirect_stdout(io.StringIO()):
                        rc, ctx = runner.run_property(p, "quick", facts, write_evidence=False, repo=root, quiet=True)
                    v = sorted({o.rule for o in ctx.obs if not o.ok})
                    if v:
                        fired[p] = v
                shutil.rmtree(etmp, ignore_errors=True)
            except runner.InfraError as e:
                fired = {"ERROR": str(e)[-200:]}
        else:
            fired = {"ERROR": "patch does not apply to the current /repo"}
    except Exception as e:      # noqa
        fired = {"ERROR": repr(e)[-200:]}
    finally:
        shutil.rmtree(tmp, ignore_errors=True)
    return sid, fired


def main():
    only = sys.argv[1:]
    ids = [s for s in sorted(os.listdir(os.path.join(VERIF, "seeded"))) if not only or any(s.startswith(o) for o in only)]
    rows = []
    def results():
        # a fresh pool per chunk: worker processes do not grow without bound
        for k in range(0, len(ids), 32):
            with ProcessPoolExecutor(8) as ex:
                for r in ex.map(job, ids[k:k + 32]):
                    yield r

    if True:
        for sid, fired in results():
            mp = os.path.join(VERIF, "seeded", sid, "meta.json")
            meta = json.load(open(mp))
            meta["checks_that_report_it"] = fired
            meta["caught_by_own_property"] = meta["property"] in fired
            json.dump(meta, open(mp, "w"), indent=1)
            rows.append((sid, meta["property"], meta["caught_by_own_property"], fired))
            print("%-40s own=%-5s %s" % (sid, meta["caught_by_own_property"], fired), flush=True)
    print("%d seeds, %d caught by their own property's check, %d caught by some check" % (len(rows), sum(1 for r in rows if r[2]), sum(1 for r in rows if r[3] and "ERROR" not in r[3])))


if __name__ == "__main__":
    main()
