#!/usr/bin/env python3
"""twin.py <seed id> <new id> <spec.json>: build the *repaired twin* of a seeded breaking change -- the same restructuring
without the defect -- and store it as a behaviour-preserving refactoring under benign_seeded/<new id>/.
spec.json: {"edits": [{"file": .., "old": .., "new": ..}], "note": ".."}.  The twin must pass the 62 tests; whether the
checks stay silent on it is what `python3 -m mhsa.selftest benign-seeded <new id>` then tells."""
import json, os, shutil, subprocess, sys, tempfile
VERIF = os.path.abspath(os.path.join(os.path.dirname(__file__), ".."))
seed, nid, spec = sys.argv[1], sys.argv[2], json.load(open(sys.argv[3]))
tmp = tempfile.mkdtemp(prefix="twin.")
root = os.path.join(tmp, "repo")
try:
    subprocess.check_call(["rsync", "-a", "--exclude", "target", "--exclude", ".git", "/repo/", root + "/"])
    g = lambda *a: subprocess.check_call(["git", "-c", "user.email=a@b", "-c", "user.name=x"] + list(a), cwd=root)
    g("init", "-q"); g("add", "-A"); g("commit", "-qm", "base")
    g("apply", os.path.join(VERIF, "seeded", seed, "patch.diff"))
    for e in spec["edits"]:
        p = os.path.join(root, e["file"])
        s = open(p).read()
        if s.count(e["old"]) != 1:
            sys.exit("edit does not apply exactly once in %s: %r" % (e["file"], e["old"][:60]))
        open(p, "w").write(s.replace(e["old"], e["new"]))
    t = subprocess.run("cargo test --offline --lib 2>&1 | grep -E '^test result|^error' | head -3", cwd=root, shell=True, stdout=subprocess.PIPE, text=True).stdout.strip()
    print(t)
    if "62 passed" not in t:
        sys.exit("twin does not pass the 62 tests")
    # the seed's own demonstration (which fails with the seeded change) must pass on the twin, as it does on the unchanged tree
    sm = json.load(open(os.path.join(VERIF, "seeded", seed, "meta.json")))
    place, demo = sm.get("demo_placement"), os.path.join(VERIF, "seeded", seed, "demo.rs")
    d = "not run"
    if place and place.startswith("tests/") and os.path.exists(demo):
        os.makedirs(os.path.join(root, "tests"), exist_ok=True)
        shutil.copy(demo, os.path.join(root, place))
        name = os.path.basename(place)[:-3]
        d = subprocess.run("cargo test --offline --test %s 2>&1 | grep -E '^test result|^error' | head -3" % name, cwd=root, shell=True, stdout=subprocess.PIPE, text=True).stdout.strip()
        os.remove(os.path.join(root, place))
        print("demo:", d)
        if "0 failed" not in d or "error" in d:
            sys.exit("the seed's demonstration does not pass on the twin: not behaviour-preserving")
    dst = os.path.join(VERIF, "benign_seeded", nid)
    os.makedirs(dst, exist_ok=True)
    with open(os.path.join(dst, "patch.diff"), "w") as fh:
        fh.write(subprocess.run(["git", "diff"], cwd=root, stdout=subprocess.PIPE, text=True).stdout)
    json.dump({"id": nid, "applies": True, "tests": t, "seed_demo_on_twin": d, "kind": "repaired twin (written here) of the seeded change %s: the same restructuring without the defect. %s" % (seed, spec.get("note", "")), "false_alarms_when_first_run": None, "false_alarms_now": {}}, open(os.path.join(dst, "meta.json"), "w"), indent=1)
    print("stored", dst)
    # facts of the twin + all 18 checks
    sys.path.insert(0, os.path.join(VERIF, "engine"))
    from mhsa import runner
    xt, fp = runner.extract(root)
    out = "/tmp/benign_%s.json" % nid
    shutil.copy(fp, out); shutil.rmtree(xt, ignore_errors=True)
    for i in range(1, 19):
        c = "C%02d" % i
        r = subprocess.run([os.path.join(VERIF, "check"), c, "--facts", out, "--no-evidence"], stdout=subprocess.PIPE, stderr=subprocess.STDOUT, text=True)
        if r.returncode != 0:
            print("FALSE ALARM", c, [l for l in r.stdout.splitlines() if "VIOLATION" in l or l.lstrip().startswith("rule")][:6])
finally:
    shutil.rmtree(tmp, ignore_errors=True)
