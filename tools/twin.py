#!/usr/bin/env python3
"""twin.py <seed id> <new id> <spec.json>: build the *repaired twin* of a seeded breaking change -- the same restructuring
without the defect -- and store it as a behaviour-preserving refactoring under benign_seeded/<new id>/.
spec.json: {"edits": [{"file": .., "old": .., "new": ..}], "note": ".."}.  The twin must pass the 62 tests; whether the
checks stay silent on it is what `python3 -m mhsa.selftest benign-seeded <new id>` then tells."""
import json, os, shutil, subprocess, sys, tempfile
VERIF = os.path.abspath(os.path.join(os.path.dirname(__file__), ".."))
seed, nid, spec = sys.argv[1], sys.argv[2], json.load(open(sys.argv[3]))
tmp = tempfile.mkdtemp(prefix="twin.")
root = os.path.join(tmp, "repo")
try:
    subprocess.check_call(["rsync", "-a", "--exclude", "target", "--exclude", ".git", "/repo/", root + "/"])
    g = lambda *a: subprocess.check_call(["git", "-c", "user.email=a@b", "-c", "user.name=x"] + list(a), cwd=root)
    g("init", "-q"); g("add", "-A"); g("commit", "-qm", "base")
    g("apply", os.path.join(VERIF, "seeded", seed, "patch.diff"))
    for e in spec["edits"]:
        p = os.path.join(root, e["file"])
        s = open(p).read()
        if s.count(e["old"]) != 1:
            sys.exit("edit does not apply exactly once in %s: %r" % (e["file"], e["old"][:60]))
        open(p, "w").write(s.replace(e["old"], e["new"]))
    t = subprocess.run("cargo test --offline --lib 2>&1 | grep -E '^test result|^error' | head -3", cwd=root, shell=True, stdout=subprocess.PIPE, text=True).stdout.strip()
    print(t)
    if "62 passed" not in t:
        sys.exit("twin does not pass the 62 tests")
    dst = os.path.join(VERIF, "benign_seeded", nid)
    os.makedirs(dst, exist_ok=True)
    with open(os.path.join(dst, "patch.diff"), "w") as fh:
        fh.write(subprocess.run(["git", "diff"], cwd=root, stdout=subprocess.PIPE, text=True).stdout)
    json.dump({"id": nid, "applies": True, "tests": t, "kind": "repaired twin (written here) of the seeded change %s: the same restructuring without the defect. %s" % (seed, spec.get("note", "")), "false_alarms_when_first_run": None, "false_alarms_now": {}}, open(os.path.join(dst, "meta.json"), "w"), indent=1)
    print("stored", dst)
finally:
    shutil.rmtree(tmp, ignore_errors=True)
